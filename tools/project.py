#!/usr/bin/python3
"""Exact-rational projector for float32 observations (DESIGN §2.4).

TLA+ has no floats.  The numeric drivers log raw float32 bit patterns; this tool turns them into integers in the vocabulary of
spec/Quant.tla using exact rational arithmetic (fractions.Fraction) -- nearest grid index, error in units of step/65536,
allowance in the same units, angle in 1e-8 rad ... Rounding is always in the direction that cannot create a false alarm
(measured errors are rounded DOWN, bounds are rounded UP).  The projector knows nothing about Draco's algorithms.

  project.py c04 <raw.ndjson> <out.ndjson>     project.py c07 <raw> <out>     project.py c12 <raw> <out>
"""
import json, math, struct, sys
from decimal import Decimal, getcontext
from fractions import Fraction

getcontext().prec = 60
CAP = 2 ** 30
ALLOW_ULPS = 8          # C04 / C12: float32 rounding allowance in ulps of the coordinate magnitude (DESIGN §6 C04: measured worst 1.6, fixed at 8)


def f32(bits):
    return struct.unpack("<f", struct.pack("<I", bits & 0xFFFFFFFF))[0]


def frac(bits):
    x = f32(bits)
    if x != x or x in (float("inf"), float("-inf")):
        return None
    return Fraction(x)


def ulp32(m):
    """ulp of a float32 at magnitude m (Fraction), at least the smallest normal ulp."""
    if m <= 0:
        return Fraction(1, 2 ** 149)
    e = math.floor(math.log2(float(m))) if m >= Fraction(1, 2 ** 126) else -126
    # correct e for rounding of log2 near powers of two
    while Fraction(2) ** e > m:
        e -= 1
    while Fraction(2) ** (e + 1) <= m:
        e += 1
    e = max(e, -126)
    return Fraction(2) ** (e - 23)


def floor_u(x, unit):
    return min(CAP, int(x // unit)) if unit > 0 else (0 if x == 0 else CAP)


def ceil_u(x, unit):
    return min(CAP, int(-((-x) // unit))) if unit > 0 else (0 if x == 0 else CAP)


def c04(raw, outp):
    n_rows = 0
    with open(outp, "w") as out:
        for line in open(raw):
            r = json.loads(line)
            if r.get("e") != "QRow":
                continue
            base = {k: r[k] for k in ("row", "q", "nc", "m", "es", "pred", "builtin", "expert", "explicit", "eok", "dok", "skipok", "type")}
            base["other_skip_ok"] = r.get("other_skip_ok", True)
            base["e"] = "Quant"
            rec = dict(base, n=0, half_u=0, allow_u=0, worst_err_u=0, worst_box_u=0, nonfinite=0, bits_ok=True, k_far=0, tiny_range=False, sample=[], other_skip_same=True, worst_desc_u=0)
            if not (r["eok"] and r["dok"]):
                out.write(json.dumps(rec) + "\n"); n_rows += 1
                continue
            nc, q = r["nc"], r["q"]
            xs = [[frac(b) for b in p] for p in r["x"]]
            xd = [[frac(b) for b in p] for p in r["xd"]]
            # the same stream decoded with an unrelated attribute's transform skipped: judged by the same bound, and equal bit for bit to the plain decode
            xd2 = [[frac(b) for b in p] for p in r.get("xd2") or []]
            rec["other_skip_same"] = (not r.get("xd2")) or r["xd2"] == r["xd"]
            if r["explicit"]:
                lo = [frac(b) for b in r["origin"]]
                R = frac(r["erange"])
                # the statement covers values inside the configured box only
                inside = all(lo[c] <= p[c] <= lo[c] + R for p in xs for c in range(nc))
                if not inside or R <= 0:
                    rec["outside_box"] = True
                    out.write(json.dumps(rec) + "\n"); n_rows += 1
                    continue
            else:
                lo = [min(p[c] for p in xs) for c in range(nc)]
                hi = [max(p[c] for p in xs) for c in range(nc)]
                R = max(hi[c] - lo[c] for c in range(nc))
            maxq = 2 ** q - 1
            step = R / maxq if R > 0 else Fraction(0)
            mag = max([abs(l) for l in lo] + [abs(l + R) for l in lo] + [R])
            allow = ALLOW_ULPS * ulp32(mag)
            unit = step / 65536 if step > 0 else allow / 16
            rec["half_u"] = 32768 if step > 0 else 0
            rec["allow_u"] = ceil_u(allow, unit)
            rec["tiny_range"] = bool(0 < R < Fraction(1, 10 ** 4))
            rec["bits_ok"] = (not r["skipok"]) or r["bits"] == q
            worst_err = worst_box = 0
            smin = [frac(b) for b in r["min"]] if r["skipok"] and r["min"] else None
            srange = frac(r["range"]) if r["skipok"] else None
            for which, dec in (("xd", xd), ("xd2", xd2)):
              if which == "xd2" and not dec:
                continue
              for i, p in enumerate(xs):
                for c in range(nc):
                    d = dec[i][c] if i < len(dec) and c < len(dec[i]) else None
                    rec["n"] += 1
                    if d is None:
                        rec["nonfinite"] += 1
                        continue
                    err = abs(d - p[c])
                    eu = floor_u(err, unit)
                    if eu > worst_err:
                        worst_err = eu
                        rec["sample"] = [{"x": r["x"][i][c], "xd": r[which][i][c], "comp": c, "err_u": eu, "decode": which}]
                    excess = max(lo[c] - d, d - (lo[c] + R), 0)
                    worst_box = max(worst_box, floor_u(excess, unit))
                    # diagnostic (Level B): decoded integer vs the exact nearest grid index under the stream's own parameters
                    if smin and srange and srange > 0 and r["k"] and i < len(r["k"]) and c < len(r["k"][i]):
                        kx = (p[c] - smin[c]) * maxq / srange
                        if abs(r["k"][i][c] - kx) > 1:
                            rec["k_far"] += 1
            rec["worst_err_u"], rec["worst_box_u"] = worst_err, worst_box
            # the skip-transform view: the integers handed out, dequantised EXACTLY with the parameters the attribute describes itself with
            # (min + k * range / (2^bits - 1)), are the decoded values in rational arithmetic -- the same half-step bound applies to them
            worst_desc = 0
            if smin and srange is not None and r["k"] and r["bits"] and r["bits"] > 0:
                maxq_s = 2 ** r["bits"] - 1
                for i, p in enumerate(xs):
                    if i >= len(r["k"]) or len(r["k"][i]) < nc:
                        continue
                    for c in range(nc):
                        dv = smin[c] + Fraction(r["k"][i][c]) * srange / maxq_s
                        worst_desc = max(worst_desc, floor_u(abs(dv - p[c]), unit))
            rec["worst_desc_u"] = worst_desc
            out.write(json.dumps(rec) + "\n"); n_rows += 1
    return n_rows


def dsqrt(fr):
    return (Decimal(fr.numerator) / Decimal(fr.denominator)).sqrt()


def c07(raw, outp):
    n_rows = 0
    ANG_UNIT = Decimal(10) ** -8
    with open(outp, "w") as out:
        for line in open(raw):
            r = json.loads(line)
            if r.get("e") != "NRow":
                continue
            q = r["q"]
            rec = {"e": "Normal", "row": r["row"], "q": q, "m": r["m"], "es": r["es"], "pred": r["pred"], "lencls": r["lencls"], "eok": r["eok"], "dok": r["dok"],
                   "skipok": r["skipok"], "n": 0, "nonfinite": 0, "coord_oob": 0, "worst_len_ppb": 0, "worst_angle_u": 0, "bound_u": 0, "tiny_inputs": 0,
                   "worst_angle_tiny_u": 0, "sample": []}
            if not (r["eok"] and r["dok"]):
                out.write(json.dumps(rec) + "\n"); n_rows += 1
                continue
            bound = Decimal(3) * Decimal(2) / Decimal(2 ** q - 2) + Decimal(2) / Decimal(10 ** 6)
            rec["bound_u"] = int((bound / ANG_UNIT).to_integral_value(rounding="ROUND_CEILING"))
            rec["bits_ok"] = (not r["skipok"]) or r["bits"] == q
            for i, p in enumerate(r["x"]):
                a = [frac(b) for b in p]
                d = [frac(b) for b in r["xd"][i]] if i < len(r["xd"]) else [None] * 3
                rec["n"] += 1
                if any(v is None for v in d) or len(d) != 3:
                    rec["nonfinite"] += 1
                    continue
                if r["skipok"] and r["k"] and i < len(r["k"]):
                    if any(k < 0 or k > 2 ** q - 1 for k in r["k"][i][:2]):
                        rec["coord_oob"] += 1
                n2 = d[0] * d[0] + d[1] * d[1] + d[2] * d[2]
                ln = dsqrt(n2)
                lerr = abs(ln - 1)
                rec["worst_len_ppb"] = max(rec["worst_len_ppb"], min(CAP, int((lerr * Decimal(10 ** 9)).to_integral_value(rounding="ROUND_FLOOR"))))
                a2 = a[0] * a[0] + a[1] * a[1] + a[2] * a[2]
                if a2 == 0:
                    continue          # zero-length input: only "finite and in range" is required
                cx = [a[1] * d[2] - a[2] * d[1], a[2] * d[0] - a[0] * d[2], a[0] * d[1] - a[1] * d[0]]
                cr = dsqrt(cx[0] * cx[0] + cx[1] * cx[1] + cx[2] * cx[2])
                dt = a[0] * d[0] + a[1] * d[1] + a[2] * d[2]
                ang = math.atan2(float(cr / dsqrt(a2)), float(Decimal(dt.numerator) / Decimal(dt.denominator) / dsqrt(a2)))
                au = min(CAP, int((Decimal(ang) * (1 - Decimal(10) ** -12) / ANG_UNIT).to_integral_value(rounding="ROUND_FLOOR")))
                # inputs whose L1 norm is <= 1e-6 form the input class of finding F11 (treated as the zero vector by the encoder)
                l1 = abs(a[0]) + abs(a[1]) + abs(a[2])
                if l1 <= Fraction(1, 10 ** 6):
                    rec["tiny_inputs"] += 1
                    rec["worst_angle_tiny_u"] = max(rec["worst_angle_tiny_u"], au)
                else:
                    if au > rec["worst_angle_u"]:
                        rec["worst_angle_u"] = au
                        rec["sample"] = [{"x": p, "xd": r["xd"][i], "angle_u": au}]
            out.write(json.dumps(rec) + "\n"); n_rows += 1
    return n_rows


def c12(raw, outp):
    n = 0
    with open(outp, "w") as out:
        sc = None
        tiles = []

        def flush():
            nonlocal n
            if sc is None:
                return
            q = sc["q"]
            lo = [frac(b) for b in sc["origin"]]
            R = frac(sc["range"])
            maxq = 2 ** q - 1
            step = R / maxq
            mag = max([abs(l) for l in lo] + [abs(l + R) for l in lo] + [R])
            allow = ALLOW_ULPS * ulp32(mag)
            unit = step / 65536
            xid, did = {}, {}
            obs = []        # [component, input id, output id]
            worst_grid = 0
            oks = []
            params_exact = True     # the parameters stored in the stream are the caller's, bit for bit (read with the transform skipped)
            for t in tiles:
                oks.append(bool(t["eok"] and t["dok"] and t.get("other_skip_ok", True)))
                if not (t["eok"] and t["dok"]):
                    continue
                if t["skipok"]:
                    if t["bits"] != q or t["srange"] != sc["range"] or list(t["min"]) != list(sc["origin"]):
                        params_exact = False
                # "xd": plain decode; "xd2": the same stream decoded with an unrelated attribute's transform skipped
                for key in ("xd", "xd2"):
                    if not t.get(key):
                        continue
                    for i, p in enumerate(t["x"]):
                        for c in range(3):
                            xb, db = p[c], t[key][i][c]
                            obs.append([c, xid.setdefault((c, xb), len(xid)), did.setdefault((c, db), len(did))])
                            d = frac(db)
                            if d is None:
                                worst_grid = CAP
                                continue
                            k = round((d - lo[c]) / step)
                            dist = abs(d - (lo[c] + k * step))
                            worst_grid = max(worst_grid, floor_u(dist, unit))
            rec = {"e": "Explicit", "sc": sc["sc"], "q": q, "representable": sc["representable"], "tiles_ok": oks, "tiles_enc": [bool(t["eok"]) for t in tiles], "methods": [t["m"] for t in tiles],
                   "obs": obs, "worst_grid_u": worst_grid, "allow_u": ceil_u(allow, unit), "params_exact": params_exact}
            out.write(json.dumps(rec) + "\n")
            n += 1

        for line in open(raw):
            r = json.loads(line)
            if r.get("e") == "XScenario":
                flush()
                sc, tiles = r, []
            elif r.get("e") == "XTile":
                tiles.append(r)
        flush()
    return n


if __name__ == "__main__":
    mode, raw, outp = sys.argv[1:4]
    n = {"c04": c04, "c07": c07, "c12": c12}[mode](raw, outp)
    print("projected %d records" % n)
