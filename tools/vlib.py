#!/usr/bin/python3
"""Shared machinery for /verif/tools/check: builds, TLC runner, trace validation, evidence, verdicts.

Everything a registered command needs lives under /verif (build output in /verif/build, TLC
metadirs and java temp files in /verif/build/tlc).  Nothing is kept under /tmp.
"""
import fcntl, glob, hashlib, json, os, re, shutil, subprocess, sys, time

ROOT = os.path.dirname(os.path.dirname(os.path.abspath(__file__)))
REPO = os.environ.get("VERIF_REPO", "/repo")
BUILD = os.environ.get("VERIF_BUILD") or os.path.join(ROOT, "build")
SPEC = os.path.join(ROOT, "spec")
HARNESS = os.path.join(ROOT, "harness")
# VERIF_OUT redirects evidence/replays (used only by tools/seeded.py when a seeded change is evaluated in a scratch worktree)
_OUT = os.environ.get("VERIF_OUT") or ROOT
EVID = os.path.join(_OUT, "evidence")
REPLAYS = os.path.join(_OUT, "replays")
TLA_CP = "/opt/veriftools/tla/tla2tools.jar:/opt/veriftools/tla/CommunityModules-deps.jar"
GUARD = "GOOGLE_DRACO_VERIF"
NCPU = os.cpu_count() or 8

T0 = time.time()
# sanitizer runtime options for every ASan+UBSan harness run (never combined with `ulimit -v`: ASan reserves TBs of shadow)
SAN_ENV = {"ASAN_OPTIONS": "detect_leaks=0:abort_on_error=0:allocator_may_return_null=1:max_allocation_size_mb=64:hard_rss_limit_mb=6000",
           "UBSAN_OPTIONS": "print_stacktrace=1:halt_on_error=1"}


def log(*a):
    print("[check %6.1fs]" % (time.time() - T0), *a, file=sys.stderr, flush=True)


class Infra(Exception):
    """Infrastructure failure: exit 2, never a verdict."""


def run(cmd, timeout=None, env=None, cwd=None, stdin=None, check=False, capture=True, mem_gb=None):
    """mem_gb: address-space limit for the child (plain builds only: the sanitizers reserve terabytes of shadow memory).  A driver whose codec call
    asks for more fails with std::bad_alloc instead of taking the machine down with it."""
    e = dict(os.environ)
    if env:
        e.update(env)
    pre = None
    if mem_gb:
        import resource

        def pre():
            resource.setrlimit(resource.RLIMIT_AS, (mem_gb << 30, mem_gb << 30))
    try:
        p = subprocess.run(cmd, cwd=cwd, env=e, timeout=timeout, input=stdin, preexec_fn=pre,
                           stdout=subprocess.PIPE if capture else None,
                           stderr=subprocess.STDOUT if capture else None,
                           shell=isinstance(cmd, str), text=True, errors="replace")
        rc, out = p.returncode, p.stdout or ""
    except subprocess.TimeoutExpired as ex:
        rc, out = 124, (ex.stdout.decode(errors="replace") if isinstance(ex.stdout, bytes) else (ex.stdout or ""))
    if check and rc != 0:
        raise Infra("command failed rc=%s: %s\n%s" % (rc, cmd, out[-4000:]))
    return rc, out


class Lock:
    def __init__(self, name):
        os.makedirs(BUILD, exist_ok=True)
        self.path = os.path.join(BUILD, name + ".lock")

    def __enter__(self):
        self.f = open(self.path, "w")
        fcntl.flock(self.f, fcntl.LOCK_EX)
        return self

    def __exit__(self, *a):
        fcntl.flock(self.f, fcntl.LOCK_UN)
        self.f.close()


# ----------------------------------------------------------------------------------------------
# builds: libdraco.a from /repo's current working tree (incremental, ninja), then drivers
# ----------------------------------------------------------------------------------------------
KINDS = {
    # kind: (CXX, extra flags)
    "plain": ("g++", "-O2 -DNDEBUG"),
    "asan": ("clang++-14", "-O1 -g -DNDEBUG -D_GLIBCXX_ASSERTIONS -fsanitize=address,undefined -fno-sanitize-recover=undefined -fno-omit-frame-pointer"),
    "tsan": ("clang++-14", "-O1 -g -DNDEBUG -fsanitize=thread"),
}


def libdir(kind):
    return os.path.join(BUILD, "lib-" + kind)


def build_lib(kind="plain", targets=("draco_static",)):
    cxx, flags = KINDS[kind]
    d = libdir(kind)
    with Lock("lib-" + kind):
        if not os.path.exists(os.path.join(d, "build.ninja")):
            os.makedirs(d, exist_ok=True)
            cc = "gcc" if cxx == "g++" else cxx.replace("clang++", "clang")
            run(["cmake", "-G", "Ninja", "-S", REPO, "-B", d, "-DCMAKE_BUILD_TYPE=None", "-DDRACO_TESTS=OFF",
                 "-DCMAKE_CXX_COMPILER=" + cxx, "-DCMAKE_C_COMPILER=" + cc,
                 "-DCMAKE_CXX_FLAGS=-Wno-error -w -D%s %s" % (GUARD, flags),
                 "-DCMAKE_POLICY_VERSION_MINIMUM=3.5"], timeout=600, check=True)
        t = time.time()
        rc, out = run(["ninja", "-C", d] + list(targets), timeout=1500)
        if rc != 0:
            raise Infra("build of /repo (%s) failed:\n%s" % (kind, out[-6000:]))
        log("lib %s up to date (%.1fs)" % (kind, time.time() - t))
    return os.path.join(d, "libdraco.a")


def _newest_repo_src():
    m = 0.0
    for dp, dn, fn in os.walk(os.path.join(REPO, "src")):
        for f in fn:
            try:
                m = max(m, os.stat(os.path.join(dp, f)).st_mtime)
            except OSError:
                pass
    return m


def build_drv(name, kind="plain", extra="", sources=None):
    """Compile harness/<name>.cc (+ harness/rt/*.cc) against the library built from /repo."""
    lib = build_lib(kind)
    cxx, flags = KINDS[kind]
    outdir = os.path.join(BUILD, "bin-" + kind)
    os.makedirs(outdir, exist_ok=True)
    exe = os.path.join(outdir, name)
    srcs = [os.path.join(HARNESS, name + ".cc")] + (sources or [])
    deps = srcs + glob.glob(os.path.join(HARNESS, "rt", "*")) + glob.glob(os.path.join(HARNESS, "*.h")) + [lib]
    with Lock("drv-%s-%s" % (kind, name)):
        newest = max([os.stat(p).st_mtime for p in deps] + [_newest_repo_src()])
        stamp = exe + ".flags"
        flagtxt = "%s %s %s" % (cxx, flags, extra)
        if os.path.exists(exe) and os.stat(exe).st_mtime > newest and os.path.exists(stamp) and open(stamp).read() == flagtxt:
            return exe
        t = time.time()
        cmd = "%s -std=c++17 -w -D%s %s %s -I%s/src -I%s -I%s %s %s -lpthread -o %s" % (
            cxx, GUARD, flags, extra, REPO, libdir(kind), HARNESS, " ".join(srcs), lib, exe + ".tmp")
        rc, out = run(cmd, timeout=900)
        if rc != 0:
            raise Infra("driver %s (%s) failed to build:\n%s" % (name, kind, out[-6000:]))
        os.replace(exe + ".tmp", exe)
        open(stamp, "w").write(flagtxt)
        log("driver %s/%s built (%.1fs)" % (kind, name, time.time() - t))
    return exe


def build_many(jobs):
    """jobs: list of (name, kind, extra). Builds libs first (serially per kind), drivers in parallel."""
    import concurrent.futures as cf
    for k in sorted({j[1] for j in jobs}):
        build_lib(k)
    with cf.ThreadPoolExecutor(max_workers=8) as ex:
        futs = [ex.submit(build_drv, *j) for j in jobs]
        return [f.result() for f in futs]


# ----------------------------------------------------------------------------------------------
# TLC
# ----------------------------------------------------------------------------------------------
_tlc_seq = [0]


def tlc(module, cfg=None, workers=None, specdir=None, env=None, timeout=1500, simulate=None, depth=None,
        coverage=False, xmx="12g", extra=None, deadlock=True, dfs=False, keep_out=None):
    """Run TLC. Returns dict(rc, out, generated, distinct, depth, violated, error, prints, cover)."""
    specdir = specdir or os.path.dirname(module) or SPEC
    mod = os.path.basename(module)
    if mod.endswith(".tla"):
        mod = mod[:-4]
    cfg = cfg or (mod + ".cfg")
    _tlc_seq[0] += 1
    tag = "%s-%d-%d" % (mod, os.getpid(), _tlc_seq[0])
    meta = os.path.join(BUILD, "tlc", tag)
    tmpd = os.path.join(BUILD, "tlc", tag + "-tmp")
    os.makedirs(meta, exist_ok=True)
    os.makedirs(tmpd, exist_ok=True)
    jopts = ["-XX:+UseParallelGC", "-Xss64m", "-Xmx" + xmx, "-Djava.io.tmpdir=" + tmpd, "-DTLA-Library=" + SPEC + os.pathsep + os.path.join(SPEC, "mc") + os.pathsep + os.path.join(SPEC, "trace")]
    if dfs:
        jopts.append("-Dtlc2.tool.queue.IStateQueue=StateDeque")
    cmd = ["java"] + jopts + ["-cp", TLA_CP, "tlc2.TLC", "-metadir", meta, "-config", cfg,
                              "-workers", str(workers or NCPU), "-noGenerateSpecTE"]
    if not deadlock:
        cmd.append("-deadlock")
    if coverage:
        cmd += ["-coverage", "1"]
    if simulate:
        cmd += ["-simulate", "num=%d" % simulate]
    if depth:
        cmd += ["-depth", str(depth)]
    if extra:
        cmd += extra
    cmd.append(mod + ".tla")
    e = {"JAVA_TOOL_OPTIONS": ""}
    if env:
        e.update({k: str(v) for k, v in env.items()})
    t = time.time()
    rc, out = run(cmd, timeout=timeout, env=e, cwd=specdir)
    shutil.rmtree(meta, ignore_errors=True)
    shutil.rmtree(tmpd, ignore_errors=True)
    if keep_out:
        open(keep_out, "w").write(out)
    r = {"rc": rc, "out": out, "wall": time.time() - t, "generated": 0, "distinct": 0, "depth": 0,
         "violated": None, "error": None, "prints": [], "cmd": " ".join(cmd[cmd.index("tlc2.TLC"):])}
    m = re.search(r"(\d+) states generated, (\d+) distinct states found", out)
    if m:
        r["generated"], r["distinct"] = int(m.group(1)), int(m.group(2))
    m = re.search(r"The depth of the complete state graph search is (\d+)", out)
    if m:
        r["depth"] = int(m.group(1))
    m = re.search(r"Invariant (\S+) is violated", out)
    if m:
        r["violated"] = m.group(1)
    m = re.search(r"(Action property|Temporal properties were violated|property \S+ is violated)", out)
    if m and not r["violated"]:
        r["violated"] = m.group(0)
    if rc == 124:
        r["error"] = "timeout"
    elif "Parsing or semantic analysis failed" in out or "Error: " in out and not r["violated"]:
        mm = re.search(r"Error: (.*)", out)
        r["error"] = mm.group(1) if mm else "tlc error"
    if "POSTCONDITION" in out and "violated" in out.split("POSTCONDITION")[-1][:200]:
        r["post_violated"] = True
    if re.search(r"[Pp]ostcondition.*(false|violated)", out):
        r["post_violated"] = True
    return r


def tlc_prints(out):
    """Lines printed with PrintT(ToJson(x)) -> python objects."""
    rows = []
    for line in out.splitlines():
        line = line.strip()
        if len(line) > 2 and line[0] == '"' and line[-1] == '"' and line[1] in "{[":
            try:
                rows.append(json.loads(json.loads(line)))
            except Exception:
                pass
    return rows


def tlc_ok(r, what):
    """Raise Infra on anything that is not a clean finish or an invariant/postcondition verdict."""
    if r["error"] and not r["violated"]:
        raise Infra("TLC %s: %s\n%s" % (what, r["error"], r["out"][-3000:]))
    if r["rc"] not in (0, 12, 13) and not r["violated"] and not r.get("post_violated"):
        raise Infra("TLC %s: rc=%s\n%s" % (what, r["rc"], r["out"][-3000:]))


def coverage_lines(out):
    """Per-action `<Action line ...>: distinct:generated` lines of -coverage."""
    cov = {}
    for m in re.finditer(r"<(\w+) line \d+, col \d+ to line \d+, col \d+ of module (\w+)>: (\d+):(\d+)", out):
        cov["%s!%s" % (m.group(2), m.group(1))] = [int(m.group(3)), int(m.group(4))]
    return cov


def trace_validate(tracemod, tracefile, nshards=1, env=None, timeout=1500, specdir=None, cfg=None):
    """Validate an ndjson observation file with a Trace_* spec.

    Convention of every Trace_* spec in spec/trace: reads env TRACE, has variables (k, i), Init picks
    the shard k in 1..NSHARDS (env NSHARDS) and walks i = k, k+NSHARDS, ...; invariant `Conforms`
    evaluates the Level-A predicate on record i; a record that does not conform violates the
    invariant (TLC prints the state with i => we can name the record).  Specs with real state
    (histories) use NSHARDS=1 and a sequential walk; acceptance is then checked with the
    postcondition `TraceAccepted`.
    """
    # TLC reads the whole file in every shard: a trace of millions of records is validated in pieces of 150 000 (stateless Trace_* specs only, i.e.
    # those walked in shards; the record index of a verdict is translated back)
    CHUNK = 150000
    if nshards > 1:
        nlines = sum(1 for _ in open(tracefile))
        if nlines > CHUNK:
            total = {"rc": 0, "out": "", "wall": 0.0, "generated": 0, "distinct": 0, "depth": 0, "violated": None, "error": None, "prints": [], "bad_index": None}
            with open(tracefile) as f:
                k = 0
                while True:
                    part = [l for _, l in zip(range(CHUNK), f)]
                    if not part:
                        break
                    pf = "%s.part%03d" % (tracefile, k)
                    open(pf, "w").writelines(part)
                    r = trace_validate(tracemod, pf, nshards=nshards, env=env, timeout=timeout, specdir=specdir, cfg=cfg)
                    os.remove(pf)
                    total["wall"] += r["wall"]; total["generated"] += r["generated"]; total["distinct"] += r["distinct"]
                    total["out"] += r["out"][-4000:]
                    for key in ("ill_formed", "post_violated"):
                        if r.get(key):
                            total[key] = r[key]
                    if r["error"] or r["violated"] or r["rc"] not in (0, 12, 13):
                        total["rc"], total["error"], total["violated"] = r["rc"], r["error"], r["violated"]
                        total["bad_index"] = (r["bad_index"] + k * CHUNK) if r.get("bad_index") and r["bad_index"] > 0 else r.get("bad_index")
                        return total
                    k += 1
            return total
    e = {"TRACE": tracefile, "NSHARDS": str(nshards)}
    if env:
        e.update(env)
    r = tlc(tracemod, cfg=cfg, workers=max(1, min(nshards, NCPU)), specdir=specdir or os.path.join(SPEC, "trace"), env=e,
            timeout=timeout, deadlock=False)
    # A record on which TLC cannot even evaluate the Level-A relation (an index outside a sequence the record should have filled, a value of the
    # wrong kind, ...) is an observation outside the relation's domain: the real code produced something the property has no reading for.  It is
    # reported like a record that does not conform (with the reason), not as a tooling failure -- the unchanged tree produces no such record.
    if (r["error"] and str(r["error"]).startswith("Evaluating invariant") and not r["violated"]
            and not re.search(r"OutOfMemory|heap space|StackOverflow|GC overhead", r["out"])):
        mm = re.search(r"Evaluating invariant \S+ failed\.\n(.*?)\nError: The behavior", r["out"], re.S)
        r["ill_formed"] = (mm.group(1).strip()[:400] if mm else "not evaluable")
        r["violated"] = "Conforms (not evaluable on this record: %s)" % r["ill_formed"]
        r["error"] = None
    bad = None
    if r["violated"] or r.get("post_violated"):
        m = re.findall(r"/\\ ti = (\d+)", r["out"])
        bad = int(m[-1]) if m else -1
    r["bad_index"] = bad
    return r


# ----------------------------------------------------------------------------------------------
# ndjson helpers
# ----------------------------------------------------------------------------------------------
def read_ndjson(path):
    rows = []
    with open(path) as f:
        for line in f:
            line = line.strip()
            if line:
                rows.append(json.loads(line))
    return rows


def write_ndjson(path, rows):
    with open(path, "w") as f:
        for r in rows:
            f.write(json.dumps(r, separators=(",", ":")) + "\n")


def workdir(pid):
    d = os.path.join(BUILD, "work", pid)
    os.makedirs(d, exist_ok=True)
    return d


# ----------------------------------------------------------------------------------------------
# verdicts, known findings, evidence
# ----------------------------------------------------------------------------------------------
def load_known():
    p = os.path.join(ROOT, "known_findings.json")
    if not os.path.exists(p):
        return []
    return json.load(open(p)).get("findings", [])


class Verdict:
    """Collects violations of one property in one run; applies known_findings.json."""

    def __init__(self, pid, tier, seed):
        self.pid, self.tier, self.seed = pid, tier, seed
        self.violations = []   # (case, replay path)
        self.known_hits = {}   # finding id -> count
        self.known = [k for k in load_known() if k.get("property") == pid and k.get("status") == "finding"]
        self.cov = {"evaluations": 0, "distinct_nontrivial": 0, "states": 0, "transitions": 0,
                    "traces_validated_against_impl": 0, "samples": [], "rule": "", "parts": {}}
        self.assumptions = []
        self.t0 = time.time()

    def add_tlc(self, name, r):
        self.cov["states"] += r["distinct"]
        self.cov["transitions"] += r["generated"]
        self.cov["parts"][name] = {"tlc": r["cmd"], "states_generated": r["generated"], "distinct": r["distinct"],
                                   "depth": r["depth"], "wall_s": round(r["wall"], 1)}

    def sample(self, s, cap=6):
        if len(self.cov["samples"]) < cap:
            self.cov["samples"].append(s)

    def violation(self, case, tags=None):
        """case: JSON-serialisable description (input + what failed). tags: dict used by known-finding matching."""
        tags = tags or {}
        for k in self.known:
            m = k.get("match", {})
            if all(tags.get(a) == b for a, b in m.items()) and m:
                n = self.known_hits.get(k["id"], 0)
                self.known_hits[k["id"]] = n + 1
                return False
        if len(self.violations) < 20:
            os.makedirs(os.path.join(REPLAYS, self.pid), exist_ok=True)
            h = hashlib.sha1(json.dumps(case, sort_keys=True, default=str).encode()).hexdigest()[:12]
            path = os.path.join(REPLAYS, self.pid, "%s.json" % h)
            json.dump({"property": self.pid, "tier": self.tier, "seed": self.seed, "case": case, "tags": tags},
                      open(path, "w"), indent=1, default=str)
            self.violations.append((case, path))
            print("VIOLATION property=%s replay=%s" % (self.pid, path), flush=True)
            log("violation detail:", json.dumps(case, default=str)[:600])
        else:
            self.violations.append((case, None))
        return True

    def finish(self, level, extra=None):
        for k in self.known:
            if self.known_hits.get(k["id"]):
                print("KNOWN-FINDING: property=%s %s: %s (matched %d cases)" % (self.pid, k["id"], k["what"], self.known_hits[k["id"]]), flush=True)
        cov = dict(self.cov)
        if extra:
            cov.update(extra)
        if not cov["samples"]:
            cov["samples"] = ["(no sample recorded)"]
        cov["known_findings_matched"] = self.known_hits
        ev = {"property_id": self.pid, "tier": self.tier, "seed": self.seed, "level": level, "coverage": cov,
              "assumptions": self.assumptions, "wall_s": round(time.time() - self.t0, 1),
              "violations": len(self.violations)}
        os.makedirs(EVID, exist_ok=True)
        tmp = os.path.join(EVID, self.pid + ".json.tmp")
        json.dump(ev, open(tmp, "w"), indent=1, default=str)
        os.replace(tmp, os.path.join(EVID, self.pid + ".json"))
        log("%s %s: evaluations=%s states=%s traces=%s violations=%d wall=%.0fs" % (
            self.pid, self.tier, cov.get("evaluations"), cov.get("states"), cov.get("traces_validated_against_impl"),
            len(self.violations), time.time() - self.t0))
        return 1 if self.violations else 0


def drv_lines(exe, args, timeout=1200, env=None, stdin=None, ok_rc=(0,)):
    """Run a driver; returns (rc, stdout text). Non-listed rc -> Infra unless caller handles."""
    rc, out = run([exe] + [str(a) for a in args], timeout=timeout, env=env, stdin=stdin)
    return rc, out
