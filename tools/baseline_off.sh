#!/bin/sh
# Runs the repository's pinned test suite with the verification guard OFF (the guard is only ever
# defined by /verif's own builds; /repo/_build is configured without it).  Exit 0 iff every test in
# BASELINE.json's stable_pass list passes.
set -e
B=/repo/_build
if [ ! -f $B/build.ninja ]; then
  cmake -G Ninja -S /repo -B $B -DCMAKE_BUILD_TYPE=RelWithDebInfo -DDRACO_TESTS=ON -DCMAKE_CXX_FLAGS=-Wno-error -DCMAKE_POLICY_VERSION_MINIMUM=3.5 >/dev/null
fi
cmake --build $B -j"$(nproc)" >/dev/null
cd $B
rm -f /verif/build/baseline_*.xml; mkdir -p /verif/build
./draco_tests --gtest_output=xml:/verif/build/baseline_tests.xml >/dev/null 2>&1 || true
./draco_factory_tests --gtest_output=xml:/verif/build/baseline_factory.xml >/dev/null 2>&1 || true
/usr/bin/python3 - <<'PY'
import json, sys, xml.etree.ElementTree as ET
want = set(json.load(open('/root/.vp/BASELINE.json'))['stable_pass'])
ok = set()
for f in ('/verif/build/baseline_tests.xml', '/verif/build/baseline_factory.xml'):
    try:
        for tc in ET.parse(f).getroot().iter('testcase'):
            if tc.find('failure') is None and tc.find('error') is None and tc.get('status', 'run') != 'notrun':
                ok.add('%s::%s' % (tc.get('classname'), tc.get('name')))
    except Exception as e:
        print('cannot read', f, e)
missing = sorted(want - ok)
print('baseline: %d/%d stable tests pass' % (len(want & ok), len(want)))
for m in missing: print('  FAILING:', m)
sys.exit(1 if missing else 0)
PY
