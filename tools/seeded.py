#!/usr/bin/python3
"""Seeded-change bookkeeping (DESIGN §8).

  tools/seeded.py import <PID>            copy /tmp/mut/<PID>/_seeded/m*/ to /verif/seeded/<PID>-m<k>/
  tools/seeded.py confirm <PID>-m<k>      in the scratch worktree /tmp/mut/<PID>: apply the patch, build, run the pinned
                                          suite (must equal the baseline), build+run the demo with and without the change
  tools/seeded.py eval <PID>-m<k> [check-ids...] [--tier quick]
                                          run the named checks (default: the property the change targets) against the
                                          scratch worktree with the patch applied (VERIF_REPO / VERIF_BUILD / VERIF_OUT
                                          point outside /repo and /verif); records the outcome in meta.json
  tools/seeded.py table                   print which checks catch which changes
A seeded change is never applied to /repo by this tool and never committed there.
"""
import json, os, re, shutil, subprocess, sys, time
ROOT = os.path.dirname(os.path.dirname(os.path.abspath(__file__)))
SEEDED = os.path.join(ROOT, "seeded")
MUT = "/tmp/mut"


def sh(cmd, timeout=3600, env=None, cwd=None):
    e = dict(os.environ)
    if env:
        e.update(env)
    p = subprocess.run(cmd, shell=True, cwd=cwd, env=e, stdout=subprocess.PIPE, stderr=subprocess.STDOUT, text=True, errors="replace", timeout=timeout)
    return p.returncode, p.stdout


def meta_path(name):
    return os.path.join(SEEDED, name, "meta.json")


def load_meta(name):
    p = meta_path(name)
    return json.load(open(p)) if os.path.exists(p) else {}


def save_meta(name, m):
    json.dump(m, open(meta_path(name), "w"), indent=1)


def cmd_import(pid):
    src = os.path.join(MUT, pid, "_seeded")
    for d in sorted(x for x in os.listdir(src) if os.path.isdir(os.path.join(src, x))):
        name = "%s-%s" % (pid, d)
        dst = os.path.join(SEEDED, name)
        os.makedirs(dst, exist_ok=True)
        for f in ("patch.diff", "demo.cc", "notes.txt"):
            if os.path.exists(os.path.join(src, d, f)):
                shutil.copy(os.path.join(src, d, f), os.path.join(dst, f))
        m = load_meta(name)
        m.update({"id": name, "property": pid, "source": "independent sub-agent given only the property text and a scratch worktree",
                  "needs": open(os.path.join(dst, "notes.txt")).read()[:1500] if os.path.exists(os.path.join(dst, "notes.txt")) else ""})
        save_meta(name, m)
        print("imported", name)


def worktree(pid):
    wt = os.path.join(MUT, pid)
    if not os.path.exists(wt):
        sh("git -C /repo worktree add -q --detach %s HEAD" % wt)
    # follow /repo's HEAD (fix: commits made after the worktree was created)
    rc, head = sh("git -C /repo rev-parse HEAD")
    sh("git -C %s checkout -q -- src; git -C %s checkout -q --detach %s" % (wt, wt, head.strip()))
    return wt


def apply_patch(wt, name):
    sh("git -C %s checkout -q -- src" % wt)
    rc, out = sh("git -C %s apply %s" % (wt, os.path.join(SEEDED, name, "patch.diff")))
    if rc != 0:
        raise SystemExit("patch does not apply: " + out)


def cmd_confirm(name):
    pid = load_meta(name)["property"]
    wt = worktree(pid)
    res = {}
    demo_src = os.path.join(SEEDED, name, "demo.cc")
    demo = os.path.join(wt, "_demo_bin")
    def build_and_demo(tag):
        rc, out = sh("/tmp/mut/build.sh %s" % wt, timeout=3000)
        passed = re.search(r"\[  PASSED  \] (\d+) tests", out)
        failed = [x for x in re.findall(r"\[  FAILED  \] (\S+)", out) if "." in x]
        res[tag + "_suite"] = {"passed": int(passed.group(1)) if passed else None, "failed": sorted(set(failed))}
        rc, out = sh("g++ -std=c++17 -O1 -w -I%s/src -I%s/_build %s %s/_build/libdraco.a -lpthread -o %s" % (wt, wt, demo_src, wt, demo))
        if rc != 0:
            res[tag + "_demo"] = "build failed: " + out[-300:]
            return
        # (a demonstration that gives every allocation its own guard pages needs more address space than the default limit)
        lim = "" if load_meta(name).get("demo_no_ulimit") else "ulimit -v 8000000; "
        rc, out = sh("%stimeout 300 %s" % (lim, demo), cwd=wt)
        res[tag + "_demo"] = rc
    sh("git -C %s checkout -q -- src" % wt)
    build_and_demo("clean")
    apply_patch(wt, name)
    build_and_demo("changed")
    sh("git -C %s checkout -q -- src" % wt)
    base_failed = ["ObjDecoderTest.TestObjDecodingAll", "ObjEncoderTest.TestObjEncodingAll"]
    ok = (res["clean_demo"] == 0 and res["changed_demo"] not in (0, None) and not isinstance(res["changed_demo"], str)
          and res["changed_suite"]["passed"] == 183 and res["changed_suite"]["failed"] == base_failed)
    m = load_meta(name)
    m["confirmed"] = {"ok": ok, "details": res, "ran": ["/tmp/mut/build.sh <scratch worktree> (clean and with patch)", "demo built against the worktree's libdraco.a, run clean and with patch"]}
    save_meta(name, m)
    print(name, "confirmed" if ok else "NOT CONFIRMED", json.dumps(res))
    return ok


def cmd_eval(name, checks, tier):
    m = load_meta(name)
    pid = m["property"]
    checks = checks or [pid]
    wt = worktree(pid)
    apply_patch(wt, name)
    bdir = "/tmp/mutbuild/%s" % pid
    odir = "/tmp/mutout/%s" % name
    os.makedirs(bdir, exist_ok=True)
    os.makedirs(odir, exist_ok=True)
    env = {"VERIF_REPO": wt, "VERIF_BUILD": bdir, "VERIF_OUT": odir}
    results = m.get("results", {})
    for c in checks:
        t = time.time()
        rc, out = sh("%s/tools/check %s --tier %s" % (ROOT, c, tier), env=env, cwd=ROOT, timeout=7200)
        viol = [l for l in out.splitlines() if l.startswith("VIOLATION")]
        detail = [l for l in out.splitlines() if "violation detail" in l]
        results["%s/%s" % (c, tier)] = {"exit": rc, "violations": len(viol), "caught": rc == 1 and len(viol) > 0,
                                        "first_detail": (detail[0][:700] if detail else ""), "wall_s": round(time.time() - t)}
        print(name, c, tier, "exit", rc, "CAUGHT" if rc == 1 and viol else ("INFRA" if rc == 2 else "missed"), (detail[0][:300] if detail else out[-300:] if rc == 2 else ""))
    sh("git -C %s checkout -q -- src" % wt)
    m["results"] = results
    m["ran_checks"] = "tools/check <id> --tier <tier> with VERIF_REPO=<scratch worktree with patch.diff applied>, VERIF_BUILD / VERIF_OUT outside /verif; worktree reverted afterwards"
    save_meta(name, m)


def cmd_table():
    rows = []
    for name in sorted(os.listdir(SEEDED)):
        m = load_meta(name)
        if not m:
            continue
        res = m.get("results", {})
        caught = [k for k, r in res.items() if r.get("caught")]
        missed = [k for k, r in res.items() if not r.get("caught")]
        rows.append((name, m.get("confirmed", {}).get("ok"), ",".join(caught) or "-", ",".join(missed) or "-"))
    for r in rows:
        print("%-10s confirmed=%-5s caught_by=%-30s missed_by=%s" % r)


if __name__ == "__main__":
    a = sys.argv[1:]
    if not a:
        print(__doc__); sys.exit(2)
    if a[0] == "import":
        cmd_import(a[1])
    elif a[0] == "confirm":
        sys.exit(0 if cmd_confirm(a[1]) else 1)
    elif a[0] == "eval":
        tier = "quick"
        rest = a[2:]
        if "--tier" in rest:
            i = rest.index("--tier"); tier = rest[i + 1]; rest = rest[:i] + rest[i + 2:]
        cmd_eval(a[1], rest, tier)
    elif a[0] == "table":
        cmd_table()
