#!/usr/bin/python3
"""Writes /verif/MANIFEST.json from the table below (one source of truth for what is claimed)."""
import json, os
ROOT = os.path.dirname(os.path.dirname(os.path.abspath(__file__)))
ALL = ["C%02d" % i for i in range(1, 21)]

CLAIMS = {
 "C16": dict(
   category="model_checking", design_ref="DESIGN.md §6 C16",
   technique="TLA+ transcription of the wrap / canonicalised-octahedral transforms model-checked exhaustively by TLC (6-bit words; q<=5/6), real classes run on anchored + sampled 32-bit tuples and all canonical pairs q<=7/8, every emitted observation trace-validated by TLC against the same operators at production width",
   text="TLC proves Level B => Level A (Invertible, CorrInRange) on the complete small domains; the real C++ classes are executed on the 32-bit image of those domains and on boundary-biased samples, and TLC evaluates the property predicates on the recorded observations (limb arithmetic at H=16). Exhaustive inside the stated bounds, sampled beyond.",
   note="Trusted: TLC, the Words limb arithmetic (cross-checked against integer arithmetic at H=3), the driver's record writer. Native pre-check only selects which observations are emitted."),
}

NOT_YET = "check not built yet in this round (planned in DESIGN.md §6); no claim is made until its TLA+ spec and conformance harness exist"


def main():
    checks = []
    for pid in ALL:
        if pid not in CLAIMS:
            continue
        c = CLAIMS[pid]
        checks.append({
            "property_id": pid,
            "quick_cmd": "./tools/check %s --tier quick" % pid,
            "thorough_cmd": "./tools/check %s --tier thorough" % pid,
            "evidence_file": "/verif/evidence/%s.json" % pid,
            "replay_cmd_template": "./tools/check %s --replay {path}" % pid,
            "engine": "tlc+replay-harness",
            "level_claimed": {"category": c["category"], "text": c["text"], "design_ref": c["design_ref"]},
            "level_note": c["note"],
            "technique": c["technique"],
        })
    hooks_commits = []
    hc = os.path.join(ROOT, "hooks_commits.txt")
    if os.path.exists(hc):
        hooks_commits = [l.split()[0] for l in open(hc) if l.strip() and not l.startswith("#")]
    m = {
        "version": 1,
        "setup_cmd": "./tools/check setup",
        "hooks": {
            "guard": "GOOGLE_DRACO_VERIF",
            "enable": "tools/vlib.py configures /verif/build/lib-{plain,asan,tsan} with -DGOOGLE_DRACO_VERIF in CMAKE_CXX_FLAGS (cmake -G Ninja -S /repo, target draco_static) and compiles the drivers in /verif/harness with the same define",
            "baseline_off_cmd": "./tools/baseline_off.sh",
            "source_commits": hooks_commits,
            "add_only": True,
        },
        "engines": [
            {"name": "tlc-mc", "path": "spec/mc", "kind_free_text": "TLC exhaustive model checking of the TLA+ modules in spec/ on bounded domains", "serves_properties": sorted(CLAIMS)},
            {"name": "tlc-trace", "path": "spec/trace", "kind_free_text": "TLC trace validation: ndjson observations/traces recorded from the real library are checked against the same TLA+ operators", "serves_properties": sorted(CLAIMS)},
            {"name": "replay-harness", "path": "harness", "kind_free_text": "C++ drivers linked against libdraco.a built from /repo's working tree (plain, ASan+UBSan, TSan); replay model behaviours and record traces", "serves_properties": sorted(CLAIMS)},
        ],
        "checks": checks,
        "not_applicable": [{"property_id": p, "reason": NOT_YET} for p in ALL if p not in CLAIMS],
        "notes": "Verdicts come only from property-level (Level A) TLA+ predicates evaluated by TLC on what the real code produced; see DESIGN.md §3. known_findings.json lists genuine defects (fixed / recorded).",
    }
    json.dump(m, open(os.path.join(ROOT, "MANIFEST.json"), "w"), indent=1)
    print("MANIFEST.json: %d checks, %d not_applicable" % (len(checks), len(m["not_applicable"])))


if __name__ == "__main__":
    main()
