#!/usr/bin/python3
"""Writes /verif/MANIFEST.json from the table below (one source of truth for what is claimed)."""
import json, os
ROOT = os.path.dirname(os.path.dirname(os.path.abspath(__file__)))
ALL = ["C%02d" % i for i in range(1, 21)]

CLAIMS = {
 "C16": dict(
   category="model_checking", design_ref="DESIGN.md §6 C16",
   technique="TLA+ transcription of the wrap / canonicalised-octahedral transforms model-checked exhaustively by TLC (6-bit words; q<=5/6), real classes run on anchored + sampled 32-bit tuples and all canonical pairs q<=7/8, every emitted observation trace-validated by TLC against the same operators at production width",
   text="TLC proves Level B => Level A (Invertible, CorrInRange) on the complete small domains; the real C++ classes are executed on the 32-bit image of those domains and on boundary-biased samples, and TLC evaluates the property predicates on the recorded observations (limb arithmetic at H=16). Exhaustive inside the stated bounds, sampled beyond.",
   note="Trusted: TLC, the Words limb arithmetic (cross-checked against integer arithmetic at H=3), the driver's record writer. Native pre-check only selects which observations are emitted."),
 "C17": dict(
   category="model_checking", design_ref="DESIGN.md §6 C17",
   technique="TLA+ state machines of EncoderBuffer/DecoderBuffer, varint/zig-zag and rABS model-checked by TLC over every interleaving of <=4/5 writer calls and every bit string <=8/11 bits x every probability; call traces and primitive observations of the real classes trace-validated by TLC (Level A FIFO spec + mechanism spec), past-the-end reads under ASan",
   text="TLC explores all interleavings of byte/varint/bit-mode writes with a mirrored reader (Mirror, SamePosition, NoOverrun) and the scaled rABS coder (StateRange, Lossless); recorded executions of the real buffers, all 8/16-bit varints, boundary 32/64-bit varints, five binary coders and every rabs step at production constants are accepted by the same specifications. Exhaustive within the bounds, sampled beyond; memory safety past the end is decided by ASan/UBSan.",
   note="Trusted: TLC, the driver's record writer (values split into 16-bit limbs / base-128 digits by the driver's own arithmetic), ASan/UBSan for out-of-buffer accesses."),
 "C08": dict(
   category="model_checking", design_ref="DESIGN.md §6 C08",
   technique="TLA+ specification of rANS (write/read/renormalisation, final-state classes), frequency normalisation and table serialisation model-checked by TLC at precision 4/8/16 over every table and symbol sequence; TLC-emitted rows replayed through the real RAnsEncoder/Decoder templates at the same precision; EncodeSymbols/DecodeSymbols observations trace-validated (lossless, exact consumption, fails cleanly)",
   text="B => A by TLC on the complete small-precision domains; the same C++ templates that run at precision 12..20 in production are instantiated at precision 2/3 and compared row by row with TLC's behaviours; end-to-end symbol arrays over the property's distributions (each in a forked child) are validated by TLC against Level A, step records and normalised tables against Level B.",
   note="Trusted: TLC; exact-integer model of the double-based normalisation (drift would be reported, none seen); forked-child crash attribution in the driver."),
}
NOT_YET = "check not built yet in this round (planned in DESIGN.md §6); no claim is made until its TLA+ spec and conformance harness exist"


def main():
    checks = []
    for pid in ALL:
        if pid not in CLAIMS:
            continue
        c = CLAIMS[pid]
        checks.append({
            "property_id": pid,
            "quick_cmd": "./tools/check %s --tier quick" % pid,
            "thorough_cmd": "./tools/check %s --tier thorough" % pid,
            "evidence_file": "/verif/evidence/%s.json" % pid,
            "replay_cmd_template": "./tools/check %s --replay {path}" % pid,
            "engine": "tlc+replay-harness",
            "level_claimed": {"category": c["category"], "text": c["text"], "design_ref": c["design_ref"]},
            "level_note": c["note"],
            "technique": c["technique"],
        })
    hooks_commits = []
    hc = os.path.join(ROOT, "hooks_commits.txt")
    if os.path.exists(hc):
        hooks_commits = [l.split()[0] for l in open(hc) if l.strip() and not l.startswith("#")]
    m = {
        "version": 1,
        "setup_cmd": "./tools/check setup",
        "hooks": {
            "guard": "GOOGLE_DRACO_VERIF",
            "enable": "tools/vlib.py configures /verif/build/lib-{plain,asan,tsan} with -DGOOGLE_DRACO_VERIF in CMAKE_CXX_FLAGS (cmake -G Ninja -S /repo, target draco_static) and compiles the drivers in /verif/harness with the same define",
            "baseline_off_cmd": "./tools/baseline_off.sh",
            "source_commits": hooks_commits,
            "add_only": True,
        },
        "engines": [
            {"name": "tlc-mc", "path": "spec/mc", "kind_free_text": "TLC exhaustive model checking of the TLA+ modules in spec/ on bounded domains", "serves_properties": sorted(CLAIMS)},
            {"name": "tlc-trace", "path": "spec/trace", "kind_free_text": "TLC trace validation: ndjson observations/traces recorded from the real library are checked against the same TLA+ operators", "serves_properties": sorted(CLAIMS)},
            {"name": "replay-harness", "path": "harness", "kind_free_text": "C++ drivers linked against libdraco.a built from /repo's working tree (plain, ASan+UBSan, TSan); replay model behaviours and record traces", "serves_properties": sorted(CLAIMS)},
        ],
        "checks": checks,
        "not_applicable": [{"property_id": p, "reason": NOT_YET} for p in ALL if p not in CLAIMS],
        "notes": "Verdicts come only from property-level (Level A) TLA+ predicates evaluated by TLC on what the real code produced; see DESIGN.md §3. known_findings.json lists genuine defects (fixed / recorded).",
    }
    json.dump(m, open(os.path.join(ROOT, "MANIFEST.json"), "w"), indent=1)
    print("MANIFEST.json: %d checks, %d not_applicable" % (len(checks), len(m["not_applicable"])))


if __name__ == "__main__":
    main()
