#!/usr/bin/python3
"""Writes /verif/MANIFEST.json from the table below (one source of truth for what is claimed)."""
import json, os
ROOT = os.path.dirname(os.path.dirname(os.path.abspath(__file__)))
ALL = ["C%02d" % i for i in range(1, 21)]

CLAIMS = {
 "C16": dict(
   category="model_checking", design_ref="DESIGN.md §6 C16",
   technique="TLA+ transcription of the wrap / canonicalised-octahedral transforms model-checked exhaustively by TLC (6-bit words; q<=5/6), real classes run on anchored + sampled 32-bit tuples and all canonical pairs q<=7/8, every emitted observation trace-validated by TLC against the same operators at production width",
   text="TLC proves Level B => Level A (Invertible, CorrInRange) on the complete small domains; the real C++ classes are executed on the 32-bit image of those domains and on boundary-biased samples, and TLC evaluates the property predicates on the recorded observations (limb arithmetic at H=16). Exhaustive inside the stated bounds, sampled beyond.",
   note="Trusted: TLC, the Words limb arithmetic (cross-checked against integer arithmetic at H=3), the driver's record writer. Native pre-check only selects which observations are emitted."),
 "C17": dict(
   category="model_checking", design_ref="DESIGN.md §6 C17",
   technique="TLA+ state machines of EncoderBuffer/DecoderBuffer, varint/zig-zag and rABS model-checked by TLC over every interleaving of <=4/5 writer calls and every bit string <=8/11 bits x every probability; call traces and primitive observations of the real classes trace-validated by TLC (Level A FIFO spec + mechanism spec), past-the-end reads under ASan",
   text="TLC explores all interleavings of byte/varint/bit-mode writes with a mirrored reader (Mirror, SamePosition, NoOverrun) and the scaled rABS coder (StateRange, Lossless); recorded executions of the real buffers, all 8/16-bit varints, boundary 32/64-bit varints, five binary coders and every rabs step at production constants are accepted by the same specifications. Exhaustive within the bounds, sampled beyond; memory safety past the end is decided by ASan/UBSan.",
   note="Trusted: TLC, the driver's record writer (values split into 16-bit limbs / base-128 digits by the driver's own arithmetic), ASan/UBSan for out-of-buffer accesses."),
 "C08": dict(
   category="model_checking", design_ref="DESIGN.md §6 C08",
   technique="TLA+ specification of rANS (write/read/renormalisation, final-state classes), frequency normalisation and table serialisation model-checked by TLC at precision 4/8/16 over every table and symbol sequence; TLC-emitted rows replayed through the real RAnsEncoder/Decoder templates at the same precision; EncodeSymbols/DecodeSymbols observations trace-validated (lossless, exact consumption, fails cleanly)",
   text="B => A by TLC on the complete small-precision domains; the same C++ templates that run at precision 12..20 in production are instantiated at precision 2/3 and compared row by row with TLC's behaviours; end-to-end symbol arrays over the property's distributions (each in a forked child) are validated by TLC against Level A, step records and normalised tables against Level B.",
   note="Trusted: TLC; exact-integer model of the double-based normalisation (drift would be reported, none seen); forked-child crash attribution in the driver."),
 "C01": dict(
   category="model_checking", design_ref="DESIGN.md §6 C01",
   technique='TLA+ Level-A relation Equivalent (bag of oriented triangles of per-corner value tuples, sandwich for Edgebreaker, order for sequential, bag of points for kd-tree) evaluated by TLC on round-trip traces of the real codec: exhaustive small canonical meshes x seam masks x option rows, random geometries x random option sets, big geometries',
   text='Every recorded encode/decode of the real library is validated by TLC against the property-level relation; the small-mesh domain is enumerated completely (all canonical lists of <=2/3 faces over 5 ids with all / sampled seam masks), options are drawn over method, sub-method, speeds 0..10, quantisation, forced prediction, entropy coding, split-on-seams, Encoder/ExpertEncoder.',
   note="Trusted: TLC; the driver's projection of geometries to value ids (bit patterns -> ids through one dictionary per attribute; quantised attributes through draco's own Quantizer / octahedron tool box as the definition of the declared quantisation); big geometries are compared through 30-bit triangle / point hashes."),
 "C03": dict(
   category="model_checking", design_ref="DESIGN.md §6 C03",
   technique='TLA+ predicate StructValid evaluated by TLC on the facts read through the public accessors of every successfully decoded geometry (normal and skip-transform decodes) of the round-trip campaigns',
   text='Decoded geometries of valid streams over the whole option space are checked for face indices < num_points, mapped indices < size, storage >= size x stride. Corrupted streams: every probe of the C02 fault enumeration that decodes successfully is validated too and read through all accessors under ASan.',
   note="Trusted: TLC; the driver's projection of geometries to value ids (bit patterns -> ids through one dictionary per attribute; quantised attributes through draco's own Quantizer / octahedron tool box as the definition of the declared quantisation); big geometries are compared through 30-bit triangle / point hashes."),
 "C06": dict(
   category="model_checking", design_ref="DESIGN.md §6 C06",
   technique='TLC validates determinism clauses on traces of the real codec: two independent encodes give identical bytes, two decodes identical ordered digests, trailing bytes do not matter, exact consumption',
   text='Each case is encoded twice with fresh objects and decoded three times (plain, again, with 7 trailing bytes); TLC compares the 64-bit hashes and the remaining sizes.',
   note="Trusted: TLC; the driver's projection of geometries to value ids (bit patterns -> ids through one dictionary per attribute; quantised attributes through draco's own Quantizer / octahedron tool box as the definition of the declared quantisation); big geometries are compared through 30-bit triangle / point hashes."),
 "C09": dict(
   category="model_checking", design_ref="DESIGN.md §6 C09",
   technique='TLC validates CountsAgree (reported = decoded points and faces) on every round-trip trace, Encoder and ExpertEncoder, meshes and point clouds, all methods; inputs with duplicate points are validated as a separate class (known finding F10)',
   text="Exhaustive small meshes x seam masks and random geometries with tracking enabled; the verdict is TLC's on the recorded counts.",
   note="Trusted: TLC; the driver's projection of geometries to value ids (bit patterns -> ids through one dictionary per attribute; quantised attributes through draco's own Quantizer / octahedron tool box as the definition of the declared quantisation); big geometries are compared through 30-bit triangle / point hashes."),
 "C10": dict(
   category="model_checking", design_ref="DESIGN.md §6 C10",
   technique='TLC validates on every trace with quantised attributes: skip-transform decode keeps the unique id, exposes integer data + transform, the described transform (public InitFromAttribute / InverseTransformAttribute) reproduces the normal decode value for value, everything else is untouched',
   text='Every subset of skipped types that occurs in the campaigns (all quantised types of the case) over sequential, kd-tree and Edgebreaker streams.',
   note="Trusted: TLC; the driver's projection of geometries to value ids (bit patterns -> ids through one dictionary per attribute; quantised attributes through draco's own Quantizer / octahedron tool box as the definition of the declared quantisation); big geometries are compared through 30-bit triangle / point hashes."),
 "C04": dict(
   category="model_checking", design_ref="DESIGN.md §6 C04",
   technique='TLA+ model of a rounding quantiser with bounded per-operation error model-checked by TLC (HalfStep, InBox; truncation shown to violate); real encodes over q=1..30 x methods x speeds x prediction x entropy on/off projected to exact integers and validated by TLC',
   text='B => A on the complete small box; 1500 (60000) real rows of 64 values each, exact-rational projection, TLC checks worst error <= half a step + 8 ulp and box containment per row.',
   note='Trusted: TLC; tools/project.py (exact rationals over float32 bit patterns); allowance constant fixed at 8 ulp (measured worst 1.6).'),
 "C07": dict(
   category="model_checking", design_ref="DESIGN.md §6 C07",
   technique='TLC model-checks the integer octahedron toolbox (every lattice vector, q<=4: in-square, canonical, invertible); real quantised normals over q=2..30, direction and length classes, both prediction schemes are projected exactly and validated by TLC (unit length, angle bound, coordinates in the q-bit square)',
   text='Integer half exhaustive for small q; float half observed on 1200 (40000) rows of 64 normals.',
   note='Trusted: TLC; tools/project.py (exact cross/dot products, 60-digit decimal square roots).'),
 "C12": dict(
   category="model_checking", design_ref="DESIGN.md §6 C12",
   technique="TLC validates FunDep (equal coordinate + equal explicit parameters => equal decoded bits) and OnGrid (against the caller's parameters) and ParamsExact (stored origin / range / bits = the caller's bit patterns) over two-tile scenarios encoded separately with every method pair, also decoded with an unrelated attribute's transform skipped; quantiser model checked by TLC",
   text='160 (6000) scenarios x 2 tiles x 56 points; parameter mantissas spread over a binade, representable and not representable in 6 decimals.',
   note='Trusted: TLC; tools/project.py.'),
 "C20": dict(
   category="model_checking", design_ref="DESIGN.md §6 C20",
   technique="TLA+ state machine of KeyframeAnimation call histories model-checked by TLC and replayed on the real class; random animations round-tripped through the real encoder/decoder and validated by TLC (frames, order, timestamps, tracks by id; quantised tracks through C04's bound)",
   text='All 4096 call histories of length 4 replayed (returned ids / refusals compared, tracks retrievable); 500 (12000) random animations incl. int32 tracks on the limits of the type and tracks deleted before encoding (non-contiguous ids).',
   note='Trusted: TLC; driver projection of values to ids.'),
 "C05": dict(
   category="model_checking", design_ref="DESIGN.md §6 C05",
   technique='Frozen corpus (420 small streams frozen once from the encoder over all methods/sub-methods/speeds/layouts + 25 legacy testdata streams, versions 1.1..2.3, + 131 size-covering / boundary / handle streams in corpus_big: alphabets of 2^1..2^17 symbols, grid meshes up to 6k faces, 255/256/257/65535/65536/65537 points, two topology-split events at one symbol); every stream also through one reused Decoder + DecoderBuffer and with the attribute transform skipped (frozen digests) decoded and compared by TLC with the frozen ordered digests; header rewrites to every version checked against the TLA+ Supported predicate; gate table sanity model-checked',
   text='Any change that alters what an existing stream decodes to (format constants, version gates, traversal order, enum values) changes a digest; unknown versions must yield UNKNOWN_VERSION.',
   note='Trusted: TLC; the digest function of the driver; the corpus frozen at the pinned commit.'),
 "C13": dict(
   category="model_checking", design_ref="DESIGN.md §6 C13",
   technique='Three-phase PlusCal-style transcription of CornerTable::Create model-checked by TLC on every canonical triangle list of <=3 (4) faces over 5 ids against CornerTableOK; every row replayed through the real class and compared field by field; all 2.08M four-face lists run natively with a validated sample; random large lists validated by TLC',
   text='B => A exhaustive on the small domain; code = B on all 18 209 rows (every field); Level A evaluated by TLC on the real tables of sampled 4-face lists and random lists up to 400 faces.',
   note='Trusted: TLC; public accessors of CornerTable.'),
 "C11": dict(
   category="model_checking", design_ref="DESIGN.md §6 C11",
   technique="TLA+ transcription of the metadata encoder recursion and the decoder's explicit stack model-checked by TLC on 63 430 trees x 5 attribute-metadata lists (RoundTrip); every tree replayed through the real MetadataEncoder/Decoder (bytes compared) and a sample through the full codec; random large trees; TLC validates Level A on every observation",
   text='B => A exhaustive on the bounded tree domain; code = B on all rows; full-codec path for all four methods incl. attribute metadata keyed by unique id.',
   note='Trusted: TLC; values > 48 bytes compared through (length, hash).'),
 "C02": dict(
   category="fault_enumeration", design_ref="DESIGN.md §6 C02, §13.1",
   technique='(1) TLC enumerates the semantic fault space of the Edgebreaker connectivity decoder (MC_EbDecoder: every symbol string up to 4 (5) symbols x declared counts on the guard boundaries x topology-split tables x start-face bits, standard and valence traversal; invariants Guards/GuardsV) and of the sequential mesh connectivity decoder (MC_SeqDecoder: declared points / faces x stored indices in every width x compressed index differences), every row is assembled into a real stream and decoded under ASan+UBSan+libstdc++ assertions, the model predicts accept/reject, the decoded faces, the order in which the attribute decoder visits the vertices and the positions under parallelogram prediction (drift only); MC_KdTree: the integer kd-tree coder at request level (round trip and stack/axis bounds model-checked; honest encodings byte-compared with the real encoder, every single changed number / half bit / axis number replayed); MC_LegacyKd (pre-2.3 kd-tree clouds, integer and float method, every combination of the repeated point counts); MC_IntAttr (integer attribute header x values x wrap bounds x declared types); nested-metadata streams around and far above the nesting limit; (2) fault enumeration over the frozen corpus (every truncation, byte / 32-bit / varint patterns per offset, header and version rewrites, multi-site, splices) decoded through all public entry points under ASan+UBSan with a fork server; TLC (Trace_Fault) validates the Status / termination / input-untouched clauses on the recorded probes',
   text='Each (stream, fault) pair is one probe attributed exactly; the only tolerated abnormal exit is an allocation failure; sanitizer reports, signals, hangs, uncaught exceptions and modified inputs are violations. The (stream, fault) pairs of repaired findings (checks/pinned_faults.json) are replayed in both tiers. Semantic faults: exhaustive within the stated bounds of MC_EbDecoder (position-only streams, no attribute seams).',
   note="Trusted: ASan/UBSan (memory safety, UB), the fork server's attribution, TLC for the record-level clauses. NDEBUG configuration."),
 "C14": dict(
   category="model_checking", design_ref="DESIGN.md §6 C14",
   technique='TLA+ Level-A relations of module MeshOps (triangle bag with orientation, no duplicate values/points, idempotence, documented clean-up removals, strip decoding) evaluated by TLC on recorded runs of the real builders, deduplication, MeshCleanup (8 option subsets) and MeshStripifier (both modes) over an exhaustive small soup domain and random soups',
   text='All soups of <=2 (3) faces over 4 position values with attribute variants are executed, a seeded sample and all random soups are validated by TLC.',
   note="Trusted: TLC; the driver's bit-pattern -> id projection."),
 "C15": dict(
   category="model_checking", design_ref="DESIGN.md §6 C15",
   technique="TLC validates recorded write->read round trips through the real OBJ/PLY/STL encoders/decoders and through the draco_encoder/draco_decoder binaries: same attributes, same bag of triangles of per-corner value tuples (point set for clouds), residual within the format's bound",
   text='1200 (30000) cases, each through fresh and through reused writer objects, per format family (PLY clouds with coincident samples, compared ordered and exact) plus the command-line flow on generated files.',
   note='Trusted: TLC; tolerance-based value matching in the driver (residual judged by TLC).'),
 "C18": dict(
   category="fault_enumeration", design_ref="DESIGN.md §6 C18",
   technique='fault enumeration of C02 re-run with allocation accounting (global operator new/delete replaced, DRACO_VERIF_DECLARE hooks): TLC validates AllocBounded (largest request, peak, refused requests <= K0 + K*(len + declared)) on every probe; the streams generated from the models of C02 (MC_EbDecoder / MC_SeqDecoder / MC_LegacyKd / MC_KdTree / MC_IntAttr rows) decoded under the same accounting; guard table model-checked by TLC (MC_Alloc)',
   text='Every probe that requests >= 64 KiB in one piece is validated; requests above 64 MiB are refused like a failed allocation and judged against the bound with the counts declared at that moment.',
   note="Trusted: the allocation shim (operator new only), the hooks' count reports, constants K0 = 64 MiB, K = 64."),
 "C19": dict(
   category="model_checking", design_ref="DESIGN.md §6 C19",
   technique='TLC enumerates all interleavings of 2 (3) threads x 8 (5) schedule points with bounded preemptions over a spec without shared variables; every schedule is enforced on real threads through DRACO_VERIF_SCHED hooks by a cooperative scheduler; free-running stress with 2..16 threads and the same under ThreadSanitizer; TLC validates NoCrossTalk on every per-thread record',
   text='Enforced schedules expose state that persists across stage boundaries deterministically; TSan exposes unsynchronised shared accesses; results are compared with solo runs.',
   note='Trusted: TLC, ThreadSanitizer, the cooperative scheduler.'),
}
NOT_YET = "check not built yet in this round (planned in DESIGN.md §6); no claim is made until its TLA+ spec and conformance harness exist"


def main():
    checks = []
    for pid in ALL:
        if pid not in CLAIMS:
            continue
        c = CLAIMS[pid]
        checks.append({
            "property_id": pid,
            "quick_cmd": "./tools/check %s --tier quick" % pid,
            "thorough_cmd": "./tools/check %s --tier thorough" % pid,
            "evidence_file": "/verif/evidence/%s.json" % pid,
            "replay_cmd_template": "./tools/check %s --replay {path}" % pid,
            "engine": "tlc+replay-harness",
            "level_claimed": {"category": c["category"], "text": c["text"], "design_ref": c["design_ref"]},
            "level_note": c["note"],
            "technique": c["technique"],
        })
    hooks_commits = []
    hc = os.path.join(ROOT, "hooks_commits.txt")
    if os.path.exists(hc):
        hooks_commits = [l.split()[0] for l in open(hc) if l.strip() and not l.startswith("#")]
    m = {
        "version": 1,
        "setup_cmd": "./tools/check setup",
        "hooks": {
            "guard": "GOOGLE_DRACO_VERIF",
            "enable": "tools/vlib.py configures /verif/build/lib-{plain,asan,tsan} with -DGOOGLE_DRACO_VERIF in CMAKE_CXX_FLAGS (cmake -G Ninja -S /repo, target draco_static) and compiles the drivers in /verif/harness with the same define",
            "baseline_off_cmd": "./tools/baseline_off.sh",
            "source_commits": hooks_commits,
            "add_only": True,
        },
        "engines": [
            {"name": "tlc-mc", "path": "spec/mc", "kind_free_text": "TLC exhaustive model checking of the TLA+ modules in spec/ on bounded domains", "serves_properties": sorted(CLAIMS)},
            {"name": "tlc-trace", "path": "spec/trace", "kind_free_text": "TLC trace validation: ndjson observations/traces recorded from the real library are checked against the same TLA+ operators", "serves_properties": sorted(CLAIMS)},
            {"name": "replay-harness", "path": "harness", "kind_free_text": "C++ drivers linked against libdraco.a built from /repo's working tree (plain, ASan+UBSan, TSan); replay model behaviours and record traces", "serves_properties": sorted(CLAIMS)},
        ],
        "checks": checks,
        "not_applicable": [{"property_id": p, "reason": NOT_YET} for p in ALL if p not in CLAIMS],
        "notes": "Verdicts come only from property-level (Level A) TLA+ predicates evaluated by TLC on what the real code produced; see DESIGN.md §3. known_findings.json lists genuine defects (fixed / recorded).",
    }
    json.dump(m, open(os.path.join(ROOT, "MANIFEST.json"), "w"), indent=1)
    print("MANIFEST.json: %d checks, %d not_applicable" % (len(checks), len(m["not_applicable"])))


if __name__ == "__main__":
    main()
