// C17 driver: bit, varint and buffer primitives.  BUILD-KINDS: plain asan
//   drv_c17 buffer  <seed> <nexec>     stateful call traces of EncoderBuffer / DecoderBuffer (Trace_BufferA / Trace_BufferB)
//   drv_c17 varint  <seed> <nrandom>   exhaustive 8/16-bit, boundary+random 32/64-bit varints (Trace_Prims)
//   drv_c17 coders  <seed> <ncases>    class-level round trips of the five binary coders (Trace_Prims)
//   drv_c17 rabs    <seed> <nseq>      step-level records of ans.h rabs_write/rabs_read (Trace_Prims, Level B)
//   drv_c17 pastend <coder>            reads past the written data (run under ASan, one process per coder)
// No hooks: every class is public.
#include <algorithm>
#include <array>
#include "rt/rt.h"
#include "draco/compression/bit_coders/adaptive_rans_bit_decoder.h"
#include "draco/compression/bit_coders/adaptive_rans_bit_encoder.h"
#include "draco/compression/bit_coders/direct_bit_decoder.h"
#include "draco/compression/bit_coders/direct_bit_encoder.h"
#include "draco/compression/bit_coders/folded_integer_bit_decoder.h"
#include "draco/compression/bit_coders/folded_integer_bit_encoder.h"
#include "draco/compression/bit_coders/rans_bit_decoder.h"
#include "draco/compression/bit_coders/rans_bit_encoder.h"
#include "draco/compression/bit_coders/symbol_bit_decoder.h"
#include "draco/compression/bit_coders/symbol_bit_encoder.h"
#include "draco/compression/entropy/ans.h"
#include "draco/core/decoder_buffer.h"
#include "draco/core/encoder_buffer.h"
#include "draco/core/varint_decoding.h"
#include "draco/core/varint_encoding.h"

using namespace draco;
static vrt::Out out;

static std::vector<int> digits_of(uint64_t v) {  // base-128, least significant first (the driver's own arithmetic)
  std::vector<int> d;
  do { d.push_back((int)(v & 127)); v >>= 7; } while (v);
  return d;
}
static std::vector<int> bytes_of(const char *p, size_t n) {
  std::vector<int> b(n);
  for (size_t i = 0; i < n; ++i) b[i] = (unsigned char)p[i];
  return b;
}

// ------------------------------------------------------------------------------------------ buffer traces
struct Op { int kind; std::vector<int> bytes; uint64_t v; int w; bool sg; int nbits; bool store; bool ok; };

template <class T> static bool enc_varint(uint64_t pattern, EncoderBuffer *b) { return EncodeVarint<T>((T)pattern, b); }
template <class T> static bool dec_varint(uint64_t *pattern, DecoderBuffer *b) {
  T v = 0;
  const bool ok = DecodeVarint<T>(&v, b);
  typedef typename std::make_unsigned<T>::type U;
  *pattern = (uint64_t)(U)v;
  return ok;
}
static bool enc_varint_t(int w, bool sg, uint64_t p, EncoderBuffer *b) {
  switch (w * 2 + (sg ? 1 : 0)) {
    case 2: return enc_varint<uint8_t>(p, b);  case 3: return enc_varint<int8_t>(p, b);
    case 4: return enc_varint<uint16_t>(p, b); case 5: return enc_varint<int16_t>(p, b);
    case 8: return enc_varint<uint32_t>(p, b); case 9: return enc_varint<int32_t>(p, b);
    case 16: return enc_varint<uint64_t>(p, b); default: return enc_varint<int64_t>(p, b);
  }
}
static bool dec_varint_t(int w, bool sg, uint64_t *p, DecoderBuffer *b) {
  switch (w * 2 + (sg ? 1 : 0)) {
    case 2: return dec_varint<uint8_t>(p, b);  case 3: return dec_varint<int8_t>(p, b);
    case 4: return dec_varint<uint16_t>(p, b); case 5: return dec_varint<int16_t>(p, b);
    case 8: return dec_varint<uint32_t>(p, b); case 9: return dec_varint<int32_t>(p, b);
    case 16: return dec_varint<uint64_t>(p, b); default: return dec_varint<int64_t>(p, b);
  }
}
static uint64_t interesting(vrt::Rng &r, int w) {
  const uint64_t mask = w == 8 ? ~0ull : ((1ull << (8 * w)) - 1);
  uint64_t v;
  switch (r.range(0, 5)) {
    case 0: v = r.below(300); break;
    case 1: v = mask - r.below(300); break;
    case 2: v = (1ull << r.range(0, 8 * w - 1)) + (int64_t)r.range(-2, 2); break;
    case 3: v = (mask >> 1) + (int64_t)r.range(-2, 2); break;   // around the sign boundary
    case 4: v = (1ull << (7 * r.range(1, 9))) + (int64_t)r.range(-1, 1); break;  // varint length boundaries
    default: v = r.next();
  }
  return v & mask;
}

static int run_buffer(uint64_t seed, long nexec) {
  vrt::Rng r(seed);
  for (long e = 0; e < nexec; ++e) {
    out.begin("Reset").end();
    EncoderBuffer eb;
    std::vector<Op> ops;
    const int nops = r.range(1, 14);
    int room = 0;  // bits still allowed in the open bit sequence
    for (int i = 0; i < nops; ++i) {
      Op op{};
      const bool active = eb.bit_encoder_active();
      int kind = r.range(0, 9);
      if (active && r.coin(3, 4)) kind = r.coin(1, 5) ? 4 : 3;  // mostly put / end while a sequence is open
      if (kind <= 1) {  // byte write (refused in bit mode)
        op.kind = 0;
        const int n = r.range(1, 8);
        for (int k = 0; k < n; ++k) op.bytes.push_back(r.coin(1, 3) ? (r.coin() ? 0 : 255) : r.range(0, 255));
        std::vector<char> tmp(op.bytes.begin(), op.bytes.end());
        op.ok = eb.Encode(tmp.data(), tmp.size());
        out.begin("WEncode").arr("bytes", op.bytes).b("ok", op.ok).i("size", eb.size()).end();
      } else if (kind == 2 || kind >= 7) {  // varint
        op.kind = 1;
        static const int widths[4] = {1, 2, 4, 8};
        op.w = widths[r.range(0, 3)];
        op.sg = r.coin();
        op.v = interesting(r, op.w);
        op.ok = enc_varint_t(op.w, op.sg, op.v, &eb);
        out.begin("WVarint").i("w", op.w).b("sg", op.sg).arr("d", digits_of(op.v)).b("ok", op.ok).i("size", eb.size()).end();
      } else if (kind == 5 || kind == 6) {  // start a bit sequence
        op.kind = 2;
        op.nbits = r.coin(1, 8) ? r.range(-1, 0) : r.range(1, 200);
        op.store = r.coin();
        op.ok = eb.StartBitEncoding(op.nbits, op.store);
        if (op.ok) room = op.nbits;
        out.begin("WStart").i("n", op.nbits).b("store", op.store).b("ok", op.ok).i("size", eb.size()).end();
      } else if (kind == 3) {  // put bits
        op.kind = 3;
        op.nbits = active ? std::min(room, r.range(0, 32)) : r.range(1, 32);
        op.v = op.nbits == 0 ? 0 : (r.coin(1, 4) ? 0xFFFFFFFFu : r.u32());
        const uint32_t word = (uint32_t)op.v;       // every second value is handed over with its upper bits left in place
        if (op.nbits < 32) op.v &= ((1ull << op.nbits) - 1);
        if (active && op.nbits == 0 && room > 0) { --i; continue; }
        op.ok = eb.EncodeLeastSignificantBits32(op.nbits, (i % 2) ? word : (uint32_t)op.v);
        if (op.ok) room -= op.nbits;
        out.begin("WPut").i("k", op.nbits).w32("v", (uint32_t)op.v).b("ok", op.ok).end();
      } else {  // end
        op.kind = 4;
        op.ok = active;
        eb.EndBitEncoding();
        out.begin("WEnd").b("ok", op.ok).i("size", eb.size()).end();
      }
      ops.push_back(op);
    }
    if (eb.bit_encoder_active()) {
      Op op{}; op.kind = 4; op.ok = true;
      eb.EndBitEncoding();
      out.begin("WEnd").b("ok", true).i("size", eb.size()).end();
      ops.push_back(op);
    }
    // ---- mirrored reader
    std::vector<char> data(eb.data(), eb.data() + eb.size());
    const std::vector<char> before = data;
    out.begin("Flip").arr("bytes", bytes_of(data.data(), data.size())).i("ver", 0x0202).end();
    DecoderBuffer db;
    db.Init(data.data(), data.size());
    db.set_bitstream_version(0x0202);
    for (auto &op : ops) {
      if (!op.ok) continue;
      if (op.kind == 0) {
        std::vector<char> got(op.bytes.size());
        const bool ok = db.Decode(got.data(), got.size());
        out.begin("RDecode").i("n", got.size()).b("ok", ok).arr("bytes", bytes_of(got.data(), ok ? got.size() : 0)).i("pos", db.decoded_size()).end();
      } else if (op.kind == 1) {
        uint64_t p = 0;
        const bool ok = dec_varint_t(op.w, op.sg, &p, &db);
        out.begin("RVarint").i("w", op.w).b("sg", op.sg).b("ok", ok).arr("d", digits_of(ok ? p : 0)).i("pos", db.decoded_size()).end();
      } else if (op.kind == 2) {
        uint64_t sz = 0;
        const bool ok = db.StartBitDecoding(op.store, &sz);
        out.begin("RStart").b("sized", op.store).b("ok", ok).arr("sz", digits_of(sz)).i("pos", db.decoded_size()).end();
      } else if (op.kind == 3) {
        uint32_t v = 0;
        const bool ok = db.DecodeLeastSignificantBits32(op.nbits, &v);
        out.begin("RGet").i("k", op.nbits).b("ok", ok).w32("v", v).end();
      } else {
        db.EndBitDecoding();
        out.begin("REnd").i("pos", db.decoded_size()).end();
      }
    }
    // ---- past the end: every kind of read must fail or yield zeros
    {
      uint8_t b1 = 7; uint32_t v = 7; uint64_t sz;
      const bool ok1 = db.Decode(&b1);
      uint64_t p = 0;
      const bool ok2 = dec_varint_t(4, false, &p, &db);
      out.begin("PastDecode").b("ok", ok1).b("okv", ok2).i("pos", db.decoded_size()).end();
      if (db.StartBitDecoding(false, &sz)) {
        const bool ok3 = db.DecodeLeastSignificantBits32(r.range(1, 32), &v);
        out.begin("PastGet").b("ok", ok3).w32("v", v).end();
        db.EndBitDecoding();
      }
    }
    out.begin("Done").i("pos", db.decoded_size()).i("size", data.size()).b("input_unchanged", before == data).end();
  }
  return 0;
}

// ------------------------------------------------------------------------------------------ varints (stateless)
static long long n_varint = 0;
static void varint_case(int w, bool sg, uint64_t p) {
  EncoderBuffer eb;
  const bool eok = enc_varint_t(w, sg, p, &eb);
  const uint32_t sentinel = 0xA5C3F00Du;
  eb.Encode(sentinel);
  DecoderBuffer db;
  db.Init(eb.data(), eb.size());
  uint64_t q = 0;
  const bool dok = dec_varint_t(w, sg, &q, &db);
  ++n_varint;
  out.begin("Varint").i("w", w).b("sg", sg).arr("d", digits_of(p)).b("eok", eok)
      .arr("bytes", bytes_of(eb.data(), eb.size() - 4)).b("dok", dok).arr("rd", digits_of(q)).i("pos", db.decoded_size()).i("len", eb.size() - 4).end();
}
static int run_varint(uint64_t seed, long nrandom) {
  for (int sg = 0; sg < 2; ++sg) {
    for (uint64_t v = 0; v < 256; ++v) varint_case(1, sg, v);
    for (uint64_t v = 0; v < 65536; ++v) varint_case(2, sg, v);
    for (int w = 4; w <= 8; w += 4) {
      const uint64_t mask = w == 8 ? ~0ull : 0xFFFFFFFFull;
      for (int sh = 0; sh < 8 * w; ++sh)
        for (int dlt = -2; dlt <= 2; ++dlt) varint_case(w, sg, ((1ull << sh) + (uint64_t)(int64_t)dlt) & mask);
      for (int k = 0; k < 5; ++k) { varint_case(w, sg, (mask - k) & mask); varint_case(w, sg, ((mask >> 1) + k - 2) & mask); }
    }
  }
  vrt::Rng r(seed);
  for (long i = 0; i < nrandom; ++i) {
    const int w = r.coin() ? 4 : 8;
    varint_case(w, r.coin(), interesting(r, w));
  }
  fprintf(stderr, "STATS run=%lld\n", n_varint);
  return 0;
}

// ------------------------------------------------------------------------------------------ coders (class level)
struct BitOp { int k; uint32_t v; uint32_t dirt = 0; };   // dirt: bits above the k coded ones in the word handed to the encoder ("least significant bits": they must not matter)
// reuse: the case runs on ONE encoder and ONE decoder object per coder class that have coded every earlier reuse case (StartEncoding / StartDecoding
// begin a new sequence; nothing of the previous one may survive)
template <class Enc, class Dec>
static void coder_case(const char *name, const std::vector<BitOp> &ops, bool log_bytes, bool reuse = false) {
  EncoderBuffer eb;
  static Enc reused_enc;
  static Dec reused_dec;
  Enc fresh_enc;
  Enc &enc = reuse ? reused_enc : fresh_enc;
  enc.StartEncoding();
  for (auto &o : ops) {
    if (o.k == 0) enc.EncodeBit(o.v & 1);
    else enc.EncodeLeastSignificantBits32(o.k, o.v | o.dirt);
  }
  enc.EndEncoding(&eb);
  const size_t block = eb.size();
  const uint32_t sentinel = 0x5EA7BEEFu;
  eb.Encode(sentinel);
  DecoderBuffer db;
  db.Init(eb.data(), eb.size());
  db.set_bitstream_version(0x0202);
  Dec fresh_dec;
  Dec &dec = reuse ? reused_dec : fresh_dec;
  const bool startok = dec.StartDecoding(&db);
  std::vector<int> kin, in_hi, in_lo, out_hi, out_lo;
  for (auto &o : ops) {
    uint32_t v = 0;
    if (startok) {
      if (o.k == 0) v = dec.DecodeNextBit() ? 1 : 0;
      else dec.DecodeLeastSignificantBits32(o.k, &v);
    }
    kin.push_back(o.k);
    in_hi.push_back(o.v >> 16); in_lo.push_back(o.v & 0xFFFF);
    out_hi.push_back(v >> 16); out_lo.push_back(v & 0xFFFF);
  }
  if (startok) dec.EndDecoding();
  uint32_t s2 = 0;
  const bool sok = db.Decode(&s2) && s2 == sentinel;
  out.begin("Coder").s("coder", name).arr("k", kin).arr("ih", in_hi).arr("il", in_lo).arr("oh", out_hi).arr("ol", out_lo)
      .b("startok", startok).b("sentinel", sok).i("pos", db.decoded_size()).i("size", eb.size());
  if (log_bytes) out.arr("bytes", bytes_of(eb.data(), block)); else out.arr("bytes", std::vector<int>{});
  out.b("hasbytes", log_bytes).end();
}
static int run_coders(uint64_t seed, long ncases) {
  vrt::Rng r(seed);
  long long nbig = 0;
  for (long c = 0; c < ncases; ++c) {
    std::vector<BitOp> ops;
    const int cls = r.range(0, 9);
    long n = cls < 6 ? r.range(0, 24) : cls < 9 ? r.range(25, 400) : (nbig++ < 12 ? r.range(20000, 100000) : r.range(400, 3000));
    const int bias = r.range(0, 8);  // probability of a one bit in 1/8
    const bool bits_only = r.coin(1, 3);
    const int coder = r.range(0, 4);
    const int maxk = 32;
    const bool reuse = r.coin();
    long total_bits = 0;
    for (long i = 0; i < n; ++i) {
      BitOp o;
      o.k = bits_only ? 0 : (r.coin(1, 4) ? 0 : r.range(1, maxk));
      uint32_t v = 0;
      const int nb = o.k == 0 ? 1 : o.k;
      for (int b = 0; b < nb; ++b) v |= (uint32_t)(r.range(0, 7) < bias) << b;
      if (r.coin(1, 16)) v = nb == 32 ? 0xFFFFFFFFu : ((1u << nb) - 1);
      if (coder == 4) v &= 0x7FFFFFFFu;      // symbol coder: every value becomes an entropy-coded symbol; values from 2^31 up are finding F6b (wide mode of drv_c17)
      o.v = v;
      // a third of the multi-bit values arrive with arbitrary bits above the coded ones
      if (o.k >= 1 && o.k < 32 && r.coin(1, 3)) { o.dirt = (r.u32() | 0x80000000u) & ~((1u << o.k) - 1); if (coder == 4) o.dirt &= 0x7FFFFFFFu; }
      total_bits += nb;
      ops.push_back(o);
    }
    const bool small = total_bits <= 96;
    switch (coder) {
      case 0: coder_case<RAnsBitEncoder, RAnsBitDecoder>("rans", ops, small, reuse); break;
      case 1: coder_case<AdaptiveRAnsBitEncoder, AdaptiveRAnsBitDecoder>("adaptive", ops, false, reuse); break;
      case 2: coder_case<DirectBitEncoder, DirectBitDecoder>("direct", ops, small, reuse); break;
      case 3: coder_case<FoldedBit32Encoder<RAnsBitEncoder>, FoldedBit32Decoder<RAnsBitDecoder>>("folded", ops, false, reuse); break;
      default: if (ops.empty()) ops.push_back({1, 1}); coder_case<SymbolBitEncoder, SymbolBitDecoder>("symbol", ops, false, reuse); break;
    }
  }
  return 0;
}

// ------------------------------------------------------------------------------------------ rABS steps (ans.h, production constants)
static int run_rabs(uint64_t seed, long nseq) {
  vrt::Rng r(seed);
  for (long s = 0; s < nseq; ++s) {
    const int n = r.range(1, 300);
    const int bias = r.range(0, 8);
    const bool fixedp = r.coin();
    int p0 = r.range(1, 255);
    std::vector<uint8_t> buf(n + 16);
    std::vector<int> bits(n), probs(n);
    AnsCoder w;
    ans_write_init(&w, buf.data());
    for (int i = n - 1; i >= 0; --i) {
      bits[i] = r.range(0, 7) < bias;
      probs[i] = fixedp ? p0 : r.range(1, 255);
    }
    for (int i = n - 1; i >= 0; --i) {
      const uint32_t x0 = w.state; const int off0 = w.buf_offset;
      rabs_write(&w, bits[i], (AnsP8)probs[i]);
      std::vector<int> em;
      for (int k = off0; k < w.buf_offset; ++k) em.push_back(buf[k]);
      out.begin("RabsW").i("x0", x0).i("val", bits[i]).i("p0", probs[i]).i("x1", w.state).arr("emit", em).end();
    }
    const uint32_t xe = w.state; const int offe = w.buf_offset;
    const int len = ans_write_end(&w);
    std::vector<int> tail;
    for (int k = offe; k < len; ++k) tail.push_back(buf[k]);
    out.begin("RabsEnd").i("x", xe).arr("tail", tail).end();
    AnsDecoder d;
    const int rc = ans_read_init(&d, buf.data(), len);
    out.begin("RabsInit").arr("tail", tail).i("len", len).b("ok", rc == 0).i("x", d.state).i("off", d.buf_offset).end();
    bool same = rc == 0;
    for (int i = 0; i < n && rc == 0; ++i) {
      const uint32_t x0 = d.state; const int off0 = d.buf_offset;
      const int nextbyte = off0 > 0 ? buf[off0 - 1] : -1;
      const int v = rabs_read(&d, (AnsP8)probs[i]);
      out.begin("RabsR").i("x0", x0).i("off0", off0).i("next", nextbyte).i("p0", probs[i]).i("val", v).i("x1", d.state).i("off1", d.buf_offset).end();
      same = same && v == bits[i];
    }
    out.begin("RabsSeq").i("n", n).b("same", same).b("ended", ans_read_end(&d) != 0 || d.buf_offset >= 0).end();
  }
  return 0;
}

// ------------------------------------------------------------------------------------------ past the end
template <class Enc, class Dec>
static int pastend(const char *name, bool has_end) {
  EncoderBuffer eb;
  Enc enc;
  enc.StartEncoding();
  enc.EncodeLeastSignificantBits32(5, 21);
  enc.EncodeBit(true);
  enc.EndEncoding(&eb);
  DecoderBuffer db;
  db.Init(eb.data(), eb.size());
  db.set_bitstream_version(0x0202);
  Dec dec;
  if (!dec.StartDecoding(&db)) return 3;
  uint32_t v = 0;
  dec.DecodeLeastSignificantBits32(5, &v);
  const bool b = dec.DecodeNextBit();
  // now read far past what was written
  long long ones = 0, total = 0;
  for (int i = 0; i < 5000; ++i) { ones += dec.DecodeNextBit() ? 1 : 0; ++total; }
  for (int i = 0; i < 200; ++i) { uint32_t x = 0; dec.DecodeLeastSignificantBits32(1 + i % 32, &x); ones += x != 0; ++total; }
  out.begin("PastEnd").s("coder", name).b("has_end", has_end).b("first_ok", v == 21 && b).i("nonzero", ones).i("reads", total).end();
  return 0;
}

// systematic past-the-end sweep for the readers that have an end: write k bits, read j of them back, then ask for w more bits so that
// the request starts inside the stored data and extends beyond it (word-straddling reads).  Every such request must fail or yield
// zeros for the part that was never written, and never touch memory outside the buffer (ASan).
template <class Enc, class Dec>
static int sweep(const char *name, int maxw) {
  long long bad = 0, reads = 0;
  for (int k = 1; k <= 70; ++k)
    for (int j = 0; j <= k; j += (k > 40 ? 7 : 1))
      for (int w = 1; w <= maxw; w += (w < 4 ? 1 : 5)) {
        EncoderBuffer eb;
        Enc enc;
        enc.StartEncoding();
        for (int b = 0; b < k; ++b) enc.EncodeLeastSignificantBits32(1, 1);   // all ones: anything read past the end that is not zero shows
        enc.EndEncoding(&eb);
        // copy the block into an exactly-sized heap buffer so that ASan sees any access behind it
        std::vector<char> exact(eb.data(), eb.data() + eb.size());
        DecoderBuffer db;
        db.Init(exact.data(), exact.size());
        db.set_bitstream_version(0x0202);
        Dec dec;
        if (!dec.StartDecoding(&db)) { ++bad; continue; }
        for (int b = 0; b < j; ++b) { uint32_t x = 0; dec.DecodeLeastSignificantBits32(1, &x); }
        // drain whatever is left (at most k values / k bits plus the padding of the last word) with requests of width w: these are the
        // reads that start inside the stored data and run over its end
        for (int rep = 0; rep < 80; ++rep) {
          uint32_t x = 0;
          dec.DecodeLeastSignificantBits32(w, &x);
          ++reads;
        }
        // everything that was written has been consumed: further reads must fail or yield zeros
        for (int rep = 0; rep < 3; ++rep) {
          uint32_t x = 0, y = 0;
          dec.DecodeLeastSignificantBits32(32 > maxw ? maxw : 32, &x);
          dec.DecodeLeastSignificantBits32(w, &y);
          if (x != 0 || y != 0) ++bad;
          ++reads;
        }
      }
  out.begin("PastEnd").s("coder", name).b("has_end", true).b("first_ok", true).i("nonzero", bad).i("reads", reads).end();
  return 0;
}
static int sweep_buffer() {
  long long bad = 0, reads = 0;
  for (int k = 1; k <= 70; ++k)
    for (int j = 0; j <= k; ++j)
      for (int w = 1; w <= 32; w += 3) {
        EncoderBuffer eb;
        eb.StartBitEncoding(k, false);
        for (int b = 0; b < k; ++b) eb.EncodeLeastSignificantBits32(1, 1);
        eb.EndBitEncoding();
        std::vector<char> exact(eb.data(), eb.data() + eb.size());
        DecoderBuffer db;
        db.Init(exact.data(), exact.size());
        db.set_bitstream_version(0x0202);
        uint64_t sz;
        db.StartBitDecoding(false, &sz);
        uint32_t x = 0;
        for (int b = 0; b < j; ++b) db.DecodeLeastSignificantBits32(1, &x);
        for (int rep = 0; rep < 80; ++rep) { uint32_t y = 0; db.DecodeLeastSignificantBits32(w, &y); ++reads; }
        for (int rep = 0; rep < 3; ++rep) {
          uint32_t y = 0xFFFFFFFFu;
          const bool ok = db.DecodeLeastSignificantBits32(w, &y);
          ++reads;
          if (ok && y != 0) ++bad;
        }
        db.EndBitDecoding();
        uint8_t byte;
        if (db.Decode(&byte)) ++bad;     // nothing may be left to read
      }
  // typed reads and varints behind the end: after Advance() to or beyond the last byte every Decode<T>, Peek<T> and DecodeVarint fails and hands
  // out nothing (the buffer is an exact-size heap block: ASan sees a read outside it)
  for (int size : {1, 4, 9, 64})
    for (long adv : {(long)size, (long)size + 1, (long)size + 7, (long)size + 4096}) {
      std::vector<char> exact((size_t)size, (char)0x5A);
      DecoderBuffer db;
      db.Init(exact.data(), exact.size());
      db.set_bitstream_version(0x0202);
      db.Advance(adv);
      uint8_t a = 0; uint16_t b = 0; uint32_t c = 0; uint64_t d = 0;
      if (db.Decode(&a)) ++bad; if (db.Decode(&b)) ++bad; if (db.Decode(&c)) ++bad; if (db.Decode(&d)) ++bad; if (db.Peek(&c)) ++bad;
      uint32_t v32 = 0; uint64_t v64 = 0;
      if (DecodeVarint(&v32, &db)) ++bad; if (DecodeVarint(&v64, &db)) ++bad;
      reads += 7;
    }
  out.begin("PastEnd").s("coder", "buffer").b("has_end", true).b("first_ok", true).i("nonzero", bad).i("reads", reads).end();
  return 0;
}
static int run_pastend(const char *c) {
  if (!strcmp(c, "sweep_direct")) return sweep<DirectBitEncoder, DirectBitDecoder>("direct", 32);
  if (!strcmp(c, "sweep_symbol")) return sweep<SymbolBitEncoder, SymbolBitDecoder>("symbol", 18);
  if (!strcmp(c, "sweep_buffer")) return sweep_buffer();
  if (!strcmp(c, "rans")) return pastend<RAnsBitEncoder, RAnsBitDecoder>("rans", false);
  if (!strcmp(c, "adaptive")) return pastend<AdaptiveRAnsBitEncoder, AdaptiveRAnsBitDecoder>("adaptive", false);
  if (!strcmp(c, "direct")) return pastend<DirectBitEncoder, DirectBitDecoder>("direct", true);
  if (!strcmp(c, "folded")) return pastend<FoldedBit32Encoder<RAnsBitEncoder>, FoldedBit32Decoder<RAnsBitDecoder>>("folded", false);
  if (!strcmp(c, "symbol")) return pastend<SymbolBitEncoder, SymbolBitDecoder>("symbol", true);
  if (!strcmp(c, "symwide")) {   // 32-bit wide values with the top bit set through the symbol bit coder
    std::vector<BitOp> ops = {{32, 0x80000000u}, {32, 0xFFFFFFFFu}, {32, 5u}};
    coder_case<SymbolBitEncoder, SymbolBitDecoder>("symbol", ops, false);
    return 0;
  }
  return 2;
}

int main(int argc, char **argv) {
  if (argc >= 4 && !strcmp(argv[1], "buffer")) return run_buffer(strtoull(argv[2], 0, 10), atol(argv[3]));
  if (argc >= 4 && !strcmp(argv[1], "varint")) return run_varint(strtoull(argv[2], 0, 10), atol(argv[3]));
  if (argc >= 4 && !strcmp(argv[1], "coders")) return run_coders(strtoull(argv[2], 0, 10), atol(argv[3]));
  if (argc >= 4 && !strcmp(argv[1], "rabs")) return run_rabs(strtoull(argv[2], 0, 10), atol(argv[3]));
  if (argc >= 3 && !strcmp(argv[1], "pastend")) return run_pastend(argv[2]);
  fprintf(stderr, "usage: drv_c17 buffer|varint|coders|rabs <seed> <n> | pastend <coder>\n");
  return 2;
}
