// C13 driver: CornerTable::Create on triangle lists; every field of the result is read through public accessors.
//   drv_c13 replay <rows.ndjson> <sample_mod>   rows emitted by TLC (MC_CornerTable): differing rows and every sample_mod-th agreeing row are emitted
//   drv_c13 enum4  <seed> <nsample>             all canonical 4-face lists over 5 ids natively; a seeded sample is emitted
//   drv_c13 random <seed> <n> <maxfaces>        random lists biased to non-manifold edges / bow-ties / repeated and mirrored faces
#include <algorithm>
#include <map>
#include <chrono>
#include "rt/rt.h"
#include "draco/mesh/corner_table.h"
#include "draco/mesh/mesh.h"
#include "draco/mesh/mesh_attribute_corner_table.h"
using namespace draco;
static vrt::Out out;
static long long n_run = 0, n_emit = 0, n_diff = 0;

// att_*: the attribute connectivity derived from the same table (MeshAttributeCornerTable::InitFromAttribute over a seam-free attribute):
// att_inv = corners of non-degenerate faces without an attribute vertex, att_nv / att_maxv = number of attribute vertices / largest one in use
struct Obs { std::vector<int> opp, ctv, vc, par; int iso = 0, deg = 0; bool ok = false; double ms = 0; bool att_ok = false; int att_inv = 0, att_nv = 0, att_maxv = -1; std::vector<int> attv; bool att_part_ok = true;
             // the same table under an attribute WITH seams (per-corner values): value index per corner, attribute vertex per corner, per attribute vertex its
             // entry (VertexParent) and the table vertex of its left-most corner
             bool s_ok = false; std::vector<int> s_val, s_av, s_parent, s_left; };
static Obs run_ct(const std::vector<int> &F) {
  Obs o;
  IndexTypeVector<FaceIndex, CornerTable::FaceType> faces;
  for (size_t i = 0; i + 2 < F.size(); i += 3) {
    CornerTable::FaceType t;
    t[0] = VertexIndex(F[i]); t[1] = VertexIndex(F[i + 1]); t[2] = VertexIndex(F[i + 2]);
    faces.push_back(t);
  }
  auto t0 = std::chrono::steady_clock::now();
  std::unique_ptr<CornerTable> ct = CornerTable::Create(faces);
  o.ms = std::chrono::duration<double, std::milli>(std::chrono::steady_clock::now() - t0).count();
  ++n_run;
  if (!ct) return o;
  o.ok = true;
  for (int c = 0; c < (int)F.size(); ++c) {
    const CornerIndex oc = ct->Opposite(CornerIndex(c));
    o.opp.push_back(oc == kInvalidCornerIndex ? -1 : (int)oc.value());
    const VertexIndex v = ct->Vertex(CornerIndex(c));
    o.ctv.push_back(v == kInvalidVertexIndex ? -1 : (int)v.value());
  }
  for (int v = 0; v < ct->num_vertices(); ++v) {
    const CornerIndex l = ct->LeftMostCorner(VertexIndex(v));
    o.vc.push_back(l == kInvalidCornerIndex ? -1 : (int)l.value());
  }
  for (int i = 0; i < ct->NumNewVertices(); ++i)
    o.par.push_back((int)ct->VertexParent(VertexIndex(ct->NumOriginalVertices() + i)).value());
  o.iso = ct->NumIsolatedVertices();
  o.deg = ct->NumDegeneratedFaces();
  {
    int maxid = 0;
    for (int x : F) maxid = std::max(maxid, x);
    Mesh mesh;
    mesh.set_num_points(maxid + 1);
    GeometryAttribute ga;
    ga.Init(GeometryAttribute::POSITION, nullptr, 1, DT_INT32, false, 4, 0);
    const int aid = mesh.AddAttribute(ga, true, maxid + 1);
    for (int v = 0; v <= maxid; ++v) { const int32_t x = v; mesh.attribute(aid)->SetAttributeValue(AttributeValueIndex(v), &x); }
    for (size_t i = 0; i + 2 < F.size(); i += 3) { Mesh::Face fc; fc[0] = PointIndex(F[i]); fc[1] = PointIndex(F[i + 1]); fc[2] = PointIndex(F[i + 2]); mesh.AddFace(fc); }
    // every second list builds its attribute table in ONE object that has been initialised from all earlier lists (open and closed ones)
    static MeshAttributeCornerTable reused_act;
    MeshAttributeCornerTable fresh_act;
    MeshAttributeCornerTable &act = (n_run % 2) ? reused_act : fresh_act;
    o.att_ok = act.InitFromAttribute(&mesh, ct.get(), mesh.attribute(aid));
    if (o.att_ok) {
      o.att_nv = act.num_vertices();
      for (int c = 0; c < (int)F.size(); ++c) {
        const int f = c / 3;
        const bool degenerate = F[3 * f] == F[3 * f + 1] || F[3 * f] == F[3 * f + 2] || F[3 * f + 1] == F[3 * f + 2];
        const VertexIndex v = act.Vertex(CornerIndex(c));
        o.attv.push_back(v == kInvalidVertexIndex ? -1 : (int)v.value());
        if (v == kInvalidVertexIndex) { if (!degenerate) ++o.att_inv; }
        else o.att_maxv = std::max(o.att_maxv, (int)v.value());
      }
      // projection for long lists: the attribute is seam-free, so two corners share an attribute vertex exactly when they share a table vertex
      std::map<int, int> a2c, c2a;
      for (int c = 0; c < (int)F.size(); ++c) {
        const int av = o.attv[c], cv = o.ctv[c];
        if (av < 0 || cv < 0) continue;
        if (a2c.count(av) && a2c[av] != cv) o.att_part_ok = false;
        if (c2a.count(cv) && c2a[cv] != av) o.att_part_ok = false;
        a2c[av] = cv; c2a[cv] = av;
      }
    }
  }
  {
    // a soup over the same position ids: one point per corner, face f = (3f, 3f+1, 3f+2); a second attribute gives every corner one of three values per
    // position id (hash of face, corner slot and id): seams wherever two faces disagree at an end of a shared edge
    const int nc = (int)F.size();
    Mesh soup;
    soup.set_num_points(nc);
    GeometryAttribute gp;
    gp.Init(GeometryAttribute::POSITION, nullptr, 1, DT_INT32, false, 4, 0);
    int maxid = 0;
    for (int x : F) maxid = std::max(maxid, x);
    const int pid = soup.AddAttribute(gp, false, maxid + 1);
    for (int v = 0; v <= maxid; ++v) { const int32_t x = v; soup.attribute(pid)->SetAttributeValue(AttributeValueIndex(v), &x); }
    GeometryAttribute gt;
    gt.Init(GeometryAttribute::GENERIC, nullptr, 1, DT_INT32, false, 4, 0);
    const int tid = soup.AddAttribute(gt, false, 3 * (maxid + 1));
    for (int v = 0; v < 3 * (maxid + 1); ++v) { const int32_t x = v; soup.attribute(tid)->SetAttributeValue(AttributeValueIndex(v), &x); }
    for (int c = 0; c < nc; ++c) {
      soup.attribute(pid)->SetPointMapEntry(PointIndex(c), AttributeValueIndex(F[c]));
      const int variant = (int)(((unsigned)(c / 3) * 2654435761u >> 7) % 3 == 0 ? (((unsigned)c * 40503u >> 3) % 3) : 0);   // most faces agree, a third go their own way
      const int val = 3 * F[c] + variant;
      soup.attribute(tid)->SetPointMapEntry(PointIndex(c), AttributeValueIndex(val));
      o.s_val.push_back(val);
    }
    for (int f = 0; f < nc / 3; ++f) { Mesh::Face fc; fc[0] = PointIndex(3 * f); fc[1] = PointIndex(3 * f + 1); fc[2] = PointIndex(3 * f + 2); soup.AddFace(fc); }
    static MeshAttributeCornerTable reused_s;
    MeshAttributeCornerTable fresh_s;
    MeshAttributeCornerTable &sa = (n_run % 2) ? reused_s : fresh_s;
    o.s_ok = sa.InitFromAttribute(&soup, ct.get(), soup.attribute(tid));
    if (o.s_ok) {
      for (int c = 0; c < nc; ++c) { const VertexIndex v = sa.Vertex(CornerIndex(c)); o.s_av.push_back(v == kInvalidVertexIndex ? -1 : (int)v.value()); }
      for (int v = 0; v < sa.num_vertices(); ++v) {
        o.s_parent.push_back((int)sa.VertexParent(VertexIndex(v)).value());
        const CornerIndex l = sa.LeftMostCorner(VertexIndex(v));
        o.s_left.push_back(l == kInvalidCornerIndex ? -1 : (int)l.value());
      }
    }
  }
  return o;
}
static void emit(const std::vector<int> &F, const Obs &o, bool same, const char *src) {
  out.begin("CT").s("src", src).arr("f", F).b("ok", o.ok).arr("opp", o.opp).arr("ctv", o.ctv).arr("vc", o.vc).arr("par", o.par)
      .i("iso", o.iso).i("deg", o.deg).b("same", same).i("ms", (long long)o.ms).b("att_ok", o.att_ok).i("att_inv", o.att_inv).i("att_nv", o.att_nv).i("att_maxv", o.att_maxv).b("s_ok", o.s_ok).arr("s_val", o.s_val).arr("s_av", o.s_av).arr("s_parent", o.s_parent).arr("s_left", o.s_left).arr("attv", o.attv).b("att_part_ok", o.att_part_ok).end();
  ++n_emit;
}

static int run_replay(const char *path, int mod) {
  FILE *f = fopen(path, "r");
  if (!f) return 2;
  std::string line;
  long k = 0;
  while (vrt::read_line(f, line)) {
    if (line.empty()) continue;
    vrt::J row = vrt::jparse_line(line);
    const std::vector<int> F = row["f"].ints();
    const Obs o = run_ct(F);
    const bool same = o.ok && o.opp == row["opp"].ints() && o.ctv == row["ctv"].ints() && o.vc == row["vc"].ints() &&
                      o.par == row["par"].ints() && o.iso == (int)row["iso"].n && o.deg == (int)row["deg"].n;
    if (!same) ++n_diff;
    if (!same || !o.att_ok || o.att_inv || o.att_maxv >= o.att_nv || !o.att_part_ok || (k++ % mod) == 0) emit(F, o, same, "replay");
  }
  fclose(f);
  fprintf(stderr, "STATS run=%lld emitted=%lld diff=%lld\n", n_run, n_emit, n_diff);
  return 0;
}

static void enum_rec(std::vector<int> &F, int nc, int maxid, uint64_t seed, uint64_t stride) {
  if ((int)F.size() == nc) {
    const uint64_t h = vrt::fnv1a(F.data(), F.size() * sizeof(int), seed);
    const Obs o = run_ct(F);
    if (!o.ok || !o.att_ok || o.att_inv || o.att_maxv >= o.att_nv || !o.att_part_ok || h % stride == 0) emit(F, o, true, "enum4");
    return;
  }
  for (int v = 0; v <= std::min(4, maxid + 1); ++v) {
    F.push_back(v);
    enum_rec(F, nc, std::max(maxid, v), seed, stride);
    F.pop_back();
  }
}
static int run_enum4(uint64_t seed, long nsample) {
  std::vector<int> F;
  enum_rec(F, 12, -1, seed, std::max<uint64_t>(1, 2079475 / std::max<long>(1, nsample)));
  fprintf(stderr, "STATS run=%lld emitted=%lld diff=0\n", n_run, n_emit);
  return 0;
}

static int run_random(uint64_t seed, long n, int maxfaces) {
  vrt::Rng r(seed);
  for (long i = 0; i < n; ++i) {
    const int nf = r.range(1, maxfaces);
    const int nv = std::max(3, r.range(3, std::max(3, nf)));   // few vertices => many shared edges
    std::vector<int> F;
    for (int f = 0; f < nf; ++f) {
      const int cls = r.range(0, 9);
      if (cls == 0 && f > 0) {            // repeat an earlier face (same orientation, maybe rotated)
        const int g = r.range(0, f - 1), rot = r.range(0, 2);
        for (int k = 0; k < 3; ++k) F.push_back(F[3 * g + (k + rot) % 3]);
      } else if (cls == 1 && f > 0) {     // mirrored copy of an earlier face
        const int g = r.range(0, f - 1);
        F.push_back(F[3 * g]); F.push_back(F[3 * g + 2]); F.push_back(F[3 * g + 1]);
      } else if (cls <= 4 && f > 0) {     // share an edge with an earlier face (either orientation) => >2 faces per edge
        const int g = r.range(0, f - 1), e = r.range(0, 2);
        const int a = F[3 * g + e], b = F[3 * g + (e + 1) % 3], c = r.range(0, nv - 1);
        if (r.coin()) { F.push_back(b); F.push_back(a); F.push_back(c); } else { F.push_back(a); F.push_back(b); F.push_back(c); }
      } else if (cls == 5 && f > 0) {     // bow-tie: share exactly one vertex
        F.push_back(F[3 * r.range(0, f - 1)]); F.push_back(nv + 2 * f); F.push_back(nv + 2 * f + 1);
      } else if (cls == 6) {              // degenerate
        const int a = r.range(0, nv - 1); F.push_back(a); F.push_back(a); F.push_back(r.range(0, nv - 1));
      } else {
        for (int k = 0; k < 3; ++k) F.push_back(r.range(0, nv - 1));
      }
    }
    // relabel to a dense id range (ids above nv were used for bow-ties) -- two lists in three; the third keeps ids nobody uses
    // (isolated vertices in the middle of the id range), compacted only as far as needed to stay small
    std::vector<int> ids(F); std::sort(ids.begin(), ids.end()); ids.erase(std::unique(ids.begin(), ids.end()), ids.end());
    const bool gaps = i % 3 == 2;
    for (int &x : F) { const int dense = (int)(std::lower_bound(ids.begin(), ids.end(), x) - ids.begin()); x = gaps ? dense + (dense >= 1 ? 1 : 0) + (dense >= 3 ? 2 : 0) : dense; }
    emit(F, run_ct(F), true, "random");
  }
  fprintf(stderr, "STATS run=%lld emitted=%lld diff=0\n", n_run, n_emit);
  return 0;
}

// dense lists: 5..8 uniformly random faces over exactly 5 (every fourth list: 6) vertex ids -- folded fans in which an edge is met again on the
// other side of the starting corner need at least 5 faces over 5 ids and are rare among the biased lists above
static int run_dense(uint64_t seed, long n) {
  vrt::Rng r(seed);
  for (long i = 0; i < n; ++i) {
    const int nf = r.range(5, 8), nv = (i % 4 == 3) ? 6 : 5;
    std::vector<int> F;
    for (int f = 0; f < nf; ++f) {
      int a = r.range(0, nv - 1), b = r.range(0, nv - 1), c = r.range(0, nv - 1);
      if (r.coin(9, 10)) { while (b == a) b = r.range(0, nv - 1); while (c == a || c == b) c = r.range(0, nv - 1); }
      F.push_back(a); F.push_back(b); F.push_back(c);
    }
    emit(F, run_ct(F), true, "dense");
  }
  fprintf(stderr, "STATS run=%lld emitted=%lld diff=0\n", n_run, n_emit);
  return 0;
}

int main(int argc, char **argv) {
  if (argc >= 4 && !strcmp(argv[1], "dense")) return run_dense(strtoull(argv[2], 0, 10), atol(argv[3]));
  if (argc >= 4 && !strcmp(argv[1], "replay")) return run_replay(argv[2], atoi(argv[3]));
  if (argc >= 4 && !strcmp(argv[1], "enum4")) return run_enum4(strtoull(argv[2], 0, 10), atol(argv[3]));
  if (argc >= 5 && !strcmp(argv[1], "random")) return run_random(strtoull(argv[2], 0, 10), atol(argv[3]), atoi(argv[4]));
  fprintf(stderr, "usage: drv_c13 replay <rows> <mod> | enum4 <seed> <nsample> | random <seed> <n> <maxfaces>\n");
  return 2;
}
