// C14 driver: mesh-building and clean-up utilities (TriangleSoupMeshBuilder, PointCloudBuilder, value / point-id deduplication, MeshCleanup,
// MeshStripifier).  Every operation is recorded with the projection of its input and output (value ids by BIT PATTERN, value indices, sizes).
//   drv_c14 small  <maxfaces> <seed> <stride>   all triangle soups of <= maxfaces faces over 4 position values x an attribute over 3 values (sampled masks)
//   drv_c14 random <seed> <n>                   random soups (1..40 faces, 1..4 extra attributes of float32 / uint8 / int16, some per-face)
#include "geom.h"
#include "draco/mesh/mesh_cleanup.h"
#include "draco/mesh/mesh_stripifier.h"
#include "draco/mesh/triangle_soup_mesh_builder.h"
#include "draco/point_cloud/point_cloud_builder.h"
using namespace draco;
using namespace vg;
static vrt::Out out;
static long long n_cases = 0, n_emit = 0;

// float bit patterns that must stay distinct under bitwise hashing: 0, -0, 1, two NaN payloads, 2, -1
static const uint32_t kFloatBits[] = {0x00000000u, 0x80000000u, 0x3F800000u, 0x7FC00001u, 0x7FC00002u, 0x40000000u, 0xBF800000u};

struct SoupAtt { GeometryAttribute::Type type; DataType dt; int nc; bool per_face; std::vector<std::vector<uint8_t>> corner_vals; /* 3*nf values (or nf when per_face) */ };
struct Soup { int nf; std::vector<SoupAtt> atts; };

static std::vector<uint8_t> value_bytes(DataType dt, int nc, const std::vector<int> &ids) {
  std::vector<uint8_t> b((size_t)DataTypeLength(dt) * nc);
  for (int c = 0; c < nc; ++c) {
    const int id = ids[c];
    if (dt == DT_FLOAT32) { const uint32_t u = kFloatBits[id % 7]; memcpy(&b[4 * c], &u, 4); }
    else if (dt == DT_UINT8) { b[c] = (uint8_t)(id * 37); }
    else { int16_t v = (int16_t)(id * 1000 - 3000); memcpy(&b[2 * c], &v, 2); }
  }
  return b;
}

struct ProjAcc {   // dictionaries shared by every geometry of one case, one per attribute (by unique id order = attribute order here)
  std::vector<Dict> dicts;
};
static std::string project(const PointCloud &pc, bool is_mesh, ProjAcc &acc) {
  std::string atts = "[", pt = "[", vidx = "[", sizes = "[";
  if ((int)acc.dicts.size() < pc.num_attributes()) acc.dicts.resize(pc.num_attributes());
  for (int a = 0; a < pc.num_attributes(); ++a) {
    const PointAttribute *att = pc.attribute(a);
    std::vector<int> ids, vi;
    for (PointIndex p(0); p < pc.num_points(); ++p) { ids.push_back(acc.dicts[a].id(raw_key(att, p))); vi.push_back((int)att->mapped_index(p).value()); }
    if (a) { atts += ","; pt += ","; vidx += ","; sizes += ","; }
    atts += "[" + std::to_string(a) + "," + std::to_string((int)att->attribute_type()) + "," + std::to_string((int)att->data_type()) + "," + std::to_string((int)att->num_components()) + ",0,0]";
    pt += jarr(ids); vidx += jarr(vi); sizes += std::to_string(att->size());
  }
  const std::vector<int> faces = is_mesh ? faces_of(static_cast<const Mesh &>(pc)) : std::vector<int>{};
  return "{\"np\":" + std::to_string(pc.num_points()) + ",\"faces\":" + jarr(faces) + ",\"atts\":" + atts + "],\"pt\":" + pt + "],\"vidx\":" + vidx + "],\"sizes\":" + sizes + "]}";
}
// the soup itself as a geometry: one point per corner, face f = (3f, 3f+1, 3f+2), every corner its own value index
static std::string project_soup(const Soup &s, ProjAcc &acc) {
  std::string atts = "[", pt = "[", vidx = "[", sizes = "[";
  if (acc.dicts.size() < s.atts.size()) acc.dicts.resize(s.atts.size());
  for (size_t a = 0; a < s.atts.size(); ++a) {
    std::vector<int> ids, vi;
    for (int c = 0; c < 3 * s.nf; ++c) {
      const std::vector<uint8_t> &v = s.atts[a].per_face ? s.atts[a].corner_vals[c / 3] : s.atts[a].corner_vals[c];
      ids.push_back(acc.dicts[a].id(std::string(v.begin(), v.end())));
      vi.push_back(c);
    }
    if (a) { atts += ","; pt += ","; vidx += ","; sizes += ","; }
    atts += "[" + std::to_string(a) + "," + std::to_string((int)s.atts[a].type) + "," + std::to_string((int)s.atts[a].dt) + "," + std::to_string(s.atts[a].nc) + ",0,0]";
    pt += jarr(ids); vidx += jarr(vi); sizes += std::to_string(3 * s.nf);
  }
  std::vector<int> faces(3 * s.nf);
  for (int c = 0; c < 3 * s.nf; ++c) faces[c] = c;
  return "{\"np\":" + std::to_string(3 * s.nf) + ",\"faces\":" + jarr(faces) + ",\"atts\":" + atts + "],\"pt\":" + pt + "],\"vidx\":" + vidx + "],\"sizes\":" + sizes + "]}";
}

static std::unique_ptr<Mesh> build(const Soup &s) {
  TriangleSoupMeshBuilder mb;
  mb.Start(s.nf);
  std::vector<int> ids;
  for (auto &a : s.atts) ids.push_back(mb.AddAttribute(a.type, (int8_t)a.nc, a.dt));
  for (size_t a = 0; a < s.atts.size(); ++a)
    for (int f = 0; f < s.nf; ++f) {
      if (s.atts[a].per_face) mb.SetPerFaceAttributeValueForFace(ids[a], FaceIndex(f), s.atts[a].corner_vals[f].data());
      else mb.SetAttributeValuesForFace(ids[a], FaceIndex(f), s.atts[a].corner_vals[3 * f].data(), s.atts[a].corner_vals[3 * f + 1].data(), s.atts[a].corner_vals[3 * f + 2].data());
    }
  return mb.Finalize();
}

static void run_soup(const Soup &s, bool emit) {
  ++n_cases;
  ProjAcc acc;
  std::unique_ptr<Mesh> m0 = build(s);
  if (!emit) {   // still execute everything (crashes surface), write nothing
    if (m0) { std::unique_ptr<Mesh> cp = build(s); Mesh &c = *cp; MeshCleanupOptions o; MeshCleanup::Cleanup(&c, o); }
    return;
  }
  ++n_emit;
  const std::string soupj = project_soup(s, acc);
  out.begin("Build").i("case", n_cases).b("ok", m0 != nullptr).raw("in", soupj).raw("out", m0 ? project(*m0, true, acc) : "{}").end();
  if (!m0) return;
  {  // deduplication is idempotent
    std::unique_ptr<Mesh> cp = build(s); Mesh &c = *cp;
    c.DeduplicateAttributeValues();
    c.DeduplicatePointIds();
    out.begin("Dedup2").i("case", n_cases).raw("in", project(*m0, true, acc)).raw("out", project(c, true, acc)).end();
  }
  for (int mask = 0; mask < 8; ++mask) {
    std::unique_ptr<Mesh> cp = build(s); Mesh &c = *cp;
    MeshCleanupOptions o;
    o.remove_degenerated_faces = mask & 1; o.remove_duplicate_faces = mask & 2; o.remove_unused_attributes = mask & 4;
    const Status st = MeshCleanup::Cleanup(&c, o);
    out.begin("Cleanup").i("case", n_cases).b("ok", st.ok()).b("deg", mask & 1).b("dup", mask & 2).b("unused", mask & 4)
        .raw("in", project(*m0, true, acc)).raw("out", project(c, true, acc)).end();
  }
  // mode 2 / 3: the same two calls on ONE stripifier object that has stripified every earlier mesh (in both modes): the strips of a mesh describe
  // that mesh, whatever the object produced before
  static MeshStripifier reused_st;
  for (int mode4 = 0; mode4 < 4; ++mode4) {
    const int mode = mode4 % 2;
    MeshStripifier fresh_st;
    MeshStripifier &st = mode4 >= 2 ? reused_st : fresh_st;
    std::vector<uint32_t> idx;
    const uint32_t restart = 1000000u;
    const bool ok = mode == 0 ? st.GenerateTriangleStripsWithPrimitiveRestart(*m0, restart, std::back_inserter(idx))
                              : st.GenerateTriangleStripsWithDegenerateTriangles(*m0, std::back_inserter(idx));
    out.begin("Strips").i("case", n_cases).s("mode", mode == 0 ? "restart" : "degenerate").b("ok", ok).i("restart", restart).arr("idx", idx)
        .raw("in", project(*m0, true, acc)).end();
  }
  // the same per-corner data as a point cloud (PointCloudBuilder), with and without deduplication
  // (dedup4 2, 3: the values come from ONE interleaved record array through SetAttributeValuesForAllPoints with a stride larger than the value)
  for (int dedup4 = 0; dedup4 < 4; ++dedup4) {
    const int dedup = dedup4 % 2;
    PointCloudBuilder pb;
    const int np = 3 * s.nf;
    pb.Start(np);
    std::vector<int> ids;
    for (auto &a : s.atts) ids.push_back(pb.AddAttribute(a.type, (int8_t)a.nc, a.dt));
    auto value_of = [&](size_t a, int c) -> const std::vector<uint8_t> & { return s.atts[a].per_face ? s.atts[a].corner_vals[c / 3] : s.atts[a].corner_vals[c]; };
    if (dedup4 < 2) {
      for (size_t a = 0; a < s.atts.size(); ++a)
        for (int c = 0; c < np; ++c) pb.SetAttributeValueForPoint(ids[a], PointIndex(c), value_of(a, c).data());
    } else {
      size_t rec = 3;                                    // three bytes of padding in front of every record
      std::vector<size_t> off;
      for (size_t a = 0; a < s.atts.size(); ++a) { off.push_back(rec); rec += value_of(a, 0).size(); }
      std::vector<uint8_t> inter(rec * (size_t)np, 0xEE);
      for (size_t a = 0; a < s.atts.size(); ++a)
        for (int c = 0; c < np; ++c) memcpy(&inter[rec * (size_t)c + off[a]], value_of(a, c).data(), value_of(a, c).size());
      for (size_t a = 0; a < s.atts.size(); ++a) pb.SetAttributeValuesForAllPoints(ids[a], inter.data() + off[a], (int)rec);
    }
    std::unique_ptr<PointCloud> pc = pb.Finalize(dedup != 0);
    ProjAcc acc2;
    const std::string inj = project_soup(s, acc2);
    // as a point cloud the "soup" has no faces
    std::string inpc = inj; const size_t fa = inpc.find("\"faces\":["), fb = inpc.find("]", fa); inpc.replace(fa, fb - fa + 1, "\"faces\":[]");
    out.begin("PcBuild").i("case", n_cases).b("ok", pc != nullptr).b("dedup", dedup != 0).raw("in", inpc).raw("out", pc ? project(*pc, false, acc2) : "{}").end();
  }
}

static void small_rec(std::vector<int> &P, int nc, uint64_t seed, uint64_t stride) {
  if ((int)P.size() == nc) {
    const uint64_t h = vrt::fnv1a(P.data(), P.size() * sizeof(int), seed);
    for (int variant = 0; variant < 4; ++variant) {
      Soup s;
      s.nf = nc / 3;
      SoupAtt pos{GeometryAttribute::POSITION, DT_FLOAT32, 3, false, {}};
      for (int c = 0; c < nc; ++c) pos.corner_vals.push_back(value_bytes(DT_FLOAT32, 3, {P[c], (P[c] + 2) % 7, 2}));
      s.atts.push_back(pos);
      if (variant > 0) {
        SoupAtt a{variant == 3 ? GeometryAttribute::GENERIC : GeometryAttribute::TEX_COORD, variant == 2 ? DT_UINT8 : DT_FLOAT32, 2, variant == 3, {}};
        const int n = a.per_face ? s.nf : nc;
        for (int c = 0; c < n; ++c) { const int id = (int)((h >> (2 * c + variant)) % 3); a.corner_vals.push_back(value_bytes(a.dt, 2, {id, id + 3})); }
        s.atts.push_back(a);
      }
      run_soup(s, ((h + variant) % stride) == 0);
    }
    return;
  }
  for (int v = 0; v < 4; ++v) { P.push_back(v); small_rec(P, nc, seed, stride); P.pop_back(); }
}

static int run_small(int maxfaces, uint64_t seed, uint64_t stride) {
  for (int nf = 1; nf <= maxfaces; ++nf) { std::vector<int> P; small_rec(P, 3 * nf, seed, stride); }
  fprintf(stderr, "STATS cases=%lld emitted=%lld\n", n_cases, n_emit);
  return 0;
}

static int run_random(uint64_t seed, long n) {
  vrt::Rng r(seed);
  for (long i = 0; i < n; ++i) {
    Soup s;
    s.nf = r.coin(1, 20) ? r.range(41, 120) : r.range(1, 40);
    const int npos = r.range(1, std::max(2, s.nf));
    SoupAtt pos{GeometryAttribute::POSITION, DT_FLOAT32, 3, false, {}};
    // positions come from a small pool so that triangles share vertices; the pool mixes the special bit patterns
    std::vector<std::vector<uint8_t>> pool;
    for (int k = 0; k < npos; ++k) pool.push_back(value_bytes(DT_FLOAT32, 3, {r.range(0, 6), r.range(0, 6), r.range(0, 6)}));
    for (int c = 0; c < 3 * s.nf; ++c) pos.corner_vals.push_back(pool[r.range(0, npos - 1)]);
    if (r.coin(1, 4) && s.nf > 1) for (int k = 0; k < 3; ++k) pos.corner_vals[3 + k] = pos.corner_vals[r.coin() ? k : (k + 1) % 3];   // duplicate / rotated copy of face 0
    if (i % 8 == 3) {
      // a regular grid of w x h quads over distinct positions, its triangles in a shuffled order and each with a random first corner: strips that
      // stop at faces emitted earlier, in every direction
      const int w = r.range(2, 6), h = r.range(2, 5);
      std::vector<std::array<int, 3>> tris;
      for (int y = 0; y < h; ++y) for (int x = 0; x < w; ++x) {
        const int a = y * 7 + x, b = a + 1, c = a + 7, d = a + 8;
        tris.push_back({a, b, c}); tris.push_back({b, d, c});
      }
      for (size_t k = tris.size() - 1; k > 0; --k) std::swap(tris[k], tris[(size_t)r.below(k + 1)]);
      s.nf = (int)tris.size();
      pos.corner_vals.clear();
      for (auto &t : tris) { const int rot = r.range(0, 2); for (int k = 0; k < 3; ++k) { const int v = t[(k + rot) % 3]; pos.corner_vals.push_back(value_bytes(DT_FLOAT32, 3, {v % 7, v / 7, 2})); } }
    }
    s.atts.push_back(pos);
    const int extra = r.range(0, 4);
    for (int e = 0; e < extra; ++e) {
      static const DataType dts[] = {DT_FLOAT32, DT_UINT8, DT_INT16};
      static const GeometryAttribute::Type tys[] = {GeometryAttribute::NORMAL, GeometryAttribute::COLOR, GeometryAttribute::TEX_COORD, GeometryAttribute::GENERIC};
      SoupAtt a{tys[r.range(0, 3)], dts[r.range(0, 2)], r.range(1, 4), r.coin(1, 4), {}};
      const int nvals = r.range(1, 4);
      const int cnt = a.per_face ? s.nf : 3 * s.nf;
      for (int c = 0; c < cnt; ++c) { std::vector<int> ids; const int base = r.range(0, nvals - 1); for (int k = 0; k < a.nc; ++k) ids.push_back(base + k); a.corner_vals.push_back(value_bytes(a.dt, a.nc, ids)); }
      s.atts.push_back(a);
    }
    run_soup(s, true);
  }
  fprintf(stderr, "STATS cases=%lld emitted=%lld\n", n_cases, n_emit);
  return 0;
}

int main(int argc, char **argv) {
  if (argc >= 5 && !strcmp(argv[1], "small")) return run_small(atoi(argv[2]), strtoull(argv[3], 0, 10), strtoull(argv[4], 0, 10));
  if (argc >= 4 && !strcmp(argv[1], "random")) return run_random(strtoull(argv[2], 0, 10), atol(argv[3]));
  fprintf(stderr, "usage: drv_c14 small <maxfaces> <seed> <stride> | random <seed> <n>\n");
  return 2;
}
