// Edgebreaker binding driver (C01 model half).
//   drv_eb replay <rows.ndjson>   rows emitted by TLC (module Edgebreaker): the real ExpertEncoder (standard Edgebreaker, one int32 position attribute)
//                                 encodes the same triangle list; the traversal symbols, topology split events and start-face bits are PARSED OUT OF THE
//                                 STREAM (no hook) and compared with the model's (Level B, drift); the stream is decoded and the RT projection is emitted
//                                 for Level A (Equivalent).
#include "geom.h"
#include "draco/compression/bit_coders/rans_bit_decoder.h"
#include "draco/core/varint_decoding.h"
using namespace draco;
using namespace vg;
static vrt::Out out;

static int run_replay(const char *path) {
  FILE *f = fopen(path, "r");
  if (!f) return 2;
  std::string line;
  long n = 0, differing = 0;
  while (vrt::read_line(f, line)) {
    if (line.empty()) continue;
    vrt::J row = vrt::jparse_line(line);
    const std::vector<int> F = row["f"].ints();
    int nv = 0;
    for (int x : F) nv = std::max(nv, x + 1);
    Geom g;
    g.is_mesh = true;
    g.pc.reset(new Mesh());
    g.pc->set_num_points(nv);
    AttDesc p{GeometryAttribute::POSITION, DT_INT32, 3, false, true, nv};
    const int pid = add_attribute(g.pc.get(), p, nv);
    for (int i = 0; i < nv; ++i) { int32_t xyz[3] = {i * 7 + 1, i * i * 3, (i * 11) % 5}; g.pc->attribute(pid)->SetAttributeValue(AttributeValueIndex(i), xyz); }
    for (size_t k = 0; k + 2 < F.size(); k += 3) { Mesh::Face fc; fc[0] = PointIndex(F[k]); fc[1] = PointIndex(F[k + 1]); fc[2] = PointIndex(F[k + 2]); g.mesh()->AddFace(fc); }
    ExpertEncoder enc(*g.mesh());
    enc.SetEncodingMethod(MESH_EDGEBREAKER_ENCODING);
    enc.SetEncodingSubmethod(MESH_EDGEBREAKER_STANDARD_ENCODING);
    enc.SetSpeedOptions(5, 5);
    EncoderBuffer eb;
    const Status st = enc.EncodeToBuffer(&eb);
    ++n;
    std::vector<std::string> syms;
    std::vector<int> sb;
    std::string splits = "[";
    bool parsed = false;
    if (st.ok()) {
      DecoderBuffer db;
      db.Init(eb.data(), eb.size());
      db.set_bitstream_version(0x0202);
      db.Advance(11);   // "DRACO", version (2), encoder type, method, flags (2)
      uint8_t trav = 0; db.Decode(&trav);
      uint32_t nverts = 0, nfaces = 0, nsym = 0, nsplitsym = 0, nev = 0; uint8_t nattr = 0;
      DecodeVarint(&nverts, &db); DecodeVarint(&nfaces, &db); db.Decode(&nattr); DecodeVarint(&nsym, &db); DecodeVarint(&nsplitsym, &db); DecodeVarint(&nev, &db);
      uint32_t last = 0; std::vector<uint32_t> src(nev), spl(nev), edge(nev);
      for (uint32_t i = 0; i < nev; ++i) { uint32_t d1 = 0, d2 = 0; DecodeVarint(&d1, &db); DecodeVarint(&d2, &db); src[i] = last + d1; spl[i] = src[i] - d2; last = src[i]; }
      if (nev) { db.StartBitDecoding(false, nullptr); for (uint32_t i = 0; i < nev; ++i) db.DecodeLeastSignificantBits32(1, &edge[i]); db.EndBitDecoding(); }
      for (uint32_t i = 0; i < nev; ++i) splits += std::string(i ? "," : "") + "[" + std::to_string(src[i]) + "," + std::to_string(spl[i]) + "," + std::to_string(edge[i]) + "]";
      uint64_t sz = 0;
      db.StartBitDecoding(true, &sz);
      std::vector<std::string> rev;
      for (uint32_t i = 0; i < nsym; ++i) {
        uint32_t s = 0; db.DecodeLeastSignificantBits32(1, &s);
        if (s == 0) { rev.push_back("C"); continue; }
        uint32_t t = 0; db.DecodeLeastSignificantBits32(2, &t); s |= t << 1;
        rev.push_back(s == 1 ? "S" : s == 3 ? "L" : s == 5 ? "R" : "E");
      }
      db.EndBitDecoding();
      syms.assign(rev.rbegin(), rev.rend());   // the stream holds them in decoder order; the model lists them in encoder order
      // start-face configuration bits: one rABS block, one bit per connected component, in decoder order
      RAnsBitDecoder sf;
      if (sf.StartDecoding(&db)) {
        const size_t ncomp = row["sb"].size();
        for (size_t i = 0; i < ncomp; ++i) sb.push_back(sf.DecodeNextBit() ? 1 : 0);
        sf.EndDecoding();
      }
      parsed = true;
    }
    splits += "]";
    // the model lists start-face bits in encoder order; the decoder pops its corner stack, i.e. reads them in reverse component order
    std::vector<int> msb = row["sb"].ints();
    std::reverse(msb.begin(), msb.end());
    std::string msyms = "[", rsyms = "[";
    for (size_t i = 0; i < row["syms"].size(); ++i) msyms += std::string(i ? "," : "") + "\"" + row["syms"][i].s + "\"";
    for (size_t i = 0; i < syms.size(); ++i) rsyms += std::string(i ? "," : "") + "\"" + syms[i] + "\"";
    std::string msplits = "[";
    for (size_t i = 0; i < row["splits"].size(); ++i) msplits += std::string(i ? "," : "") + jarr(row["splits"][i].ints());
    // Level A projection
    Decoded d;
    if (st.ok()) d = decode(eb.data(), eb.size());
    Dict dict;
    std::vector<int> ip, op;
    for (PointIndex pp(0); pp < g.pc->num_points(); ++pp) ip.push_back(dict.id(raw_key(g.pc->attribute(0), pp)));
    if (d.ok) for (PointIndex pp(0); pp < d.pc->num_points(); ++pp) op.push_back(dict.id(raw_key(d.pc->attribute(0), pp)));
    const std::string desc = "[[0,0," + std::to_string((int)DT_INT32) + ",3,0,0]]";
    out.begin("Eb").arr("f", F).b("eok", st.ok()).b("parsed", parsed).b("dok", d.ok).raw("syms", rsyms + "]").raw("model_syms", msyms + "]").raw("splits", splits).raw("model_splits", msplits + "]")
        .arr("sb", sb).arr("model_sb", msb)
        .raw("in", "{\"np\":" + std::to_string(nv) + ",\"faces\":" + jarr(F) + ",\"atts\":" + desc + ",\"pt\":[" + jarr(ip) + "]}")
        .raw("out", "{\"np\":" + std::to_string(d.ok ? d.pc->num_points() : 0) + ",\"faces\":" + jarr(d.ok ? faces_of(*d.mesh()) : std::vector<int>{}) + ",\"atts\":" + desc + ",\"pt\":[" + jarr(op) + "]}").end();
  }
  fclose(f);
  fprintf(stderr, "STATS rows=%ld\n", n);
  (void)differing;
  return 0;
}

int main(int argc, char **argv) {
  if (argc >= 3 && !strcmp(argv[1], "replay")) return run_replay(argv[2]);
  fprintf(stderr, "usage: drv_eb replay <rows>\n");
  return 2;
}
