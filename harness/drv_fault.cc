// Fault-enumeration driver (C02 safety of decoding arbitrary bytes, C03 validity of whatever decodes, C18 allocation bounds).
// BUILD-KINDS: plain asan
//   drv_fault sweep <corpusdir> <shard> <nshards> <level> <seed>
//        enumerates faults of every stream of the shard (truncations, single-byte / 32-bit / varint patterns at every (sampled) offset,
//        header and version rewrites, random multi-site corruption, splices with the next stream) and decodes every faulted buffer through
//        the public entry points.  A fork server runs the probes of one stream in a child: a crash, sanitizer report, hang (alarm) or
//        uncaught exception loses one probe, is attributed to it exactly and recorded; the child is restarted behind it.
//   drv_fault one <stream> <fault-descriptor>      replay one probe in-process (for replays and for gdb)
//   drv_fault hostile <rows.ndjson> <shard> <nshards>
//        SEMANTIC faults: every row printed by TLC from MC_EbDecoder (symbol string, declared counts, topology-split table, start-face bits,
//        and the model's prediction) is assembled into a position-only Draco 2.2 Edgebreaker stream with the library's own public writers
//        (EncoderBuffer, EncodeVarint, RAnsBitEncoder) and decoded like any other probe; one EbProbe record per row that the model or the
//        decoder accepts or on which they disagree, one EbBatch summary per shard
//   drv_fault hostile1 '<row json>'                replay one row in-process
//   drv_fault nest <stream>                        the stream with a chain of D nested sub-metadata blocks in front of its geometry, D around and
//                                                  far above the decoder's nesting limit (grammar-generated, not a corruption of existing bytes)
// Allocation accounting (C18): global operator new/delete are replaced (plain build only; ASan has its own), every request >= 64 KiB and
// the peak of live memory are recorded per probe together with the element counts announced through DRACO_VERIF_DECLARE at that moment.
#include <dirent.h>
#include <signal.h>
#include <sys/mman.h>
#include <sys/time.h>
#include <sys/wait.h>
#include <unistd.h>
#include <atomic>
#include <exception>
#include <fstream>
#include <new>
#include "geom.h"
#include "draco/compression/encode.h"
#include "draco/animation/keyframe_animation.h"
#include "draco/animation/keyframe_animation_decoder.h"
#include "draco/compression/bit_coders/rans_bit_encoder.h"
#include "draco/compression/entropy/symbol_encoding.h"
#include "draco/compression/point_cloud/algorithms/dynamic_integer_points_kd_tree_encoder.h"
#include "draco/compression/point_cloud/algorithms/float_points_tree_encoder.h"
#include "draco/core/varint_encoding.h"
#include "draco/core/verif_hooks.h"
using namespace draco;
using namespace vg;
static vrt::Out out;   // records go to the file named by the environment variable VERIF_RECORDS (the library prints diagnostics to stdout)

// ---------------------------------------------------------------------------------------------- allocation shim
#if defined(__has_feature)
#if __has_feature(address_sanitizer)
#define VERIF_IS_ASAN 1
#endif
#endif
#if !defined(__SANITIZE_ADDRESS__) && !defined(VERIF_IS_ASAN)
#define VERIF_ALLOC_SHIM 1
#endif
struct AllocStats { long long live = 0, peak = 0, max_single = 0, declared_at_max = 0, declared = 0, refused = 0, refused_size = 0, declared_at_refused = 0; bool on = false; };
static AllocStats g_as;
static long long g_points = 0, g_faces = 0, g_vertices = 0, g_comps = 0, g_atts = 0;
static long long declared_bytes() { return 4 * (g_points * (1 + g_comps) + 3 * g_faces + g_vertices + g_atts); }
static void on_declare(const char *kind, unsigned long long n) {
  const long long v = (long long)std::min<unsigned long long>(n, 1ull << 40);
  if (!strcmp(kind, "points")) g_points = std::max(g_points, v);
  else if (!strcmp(kind, "faces")) g_faces = std::max(g_faces, v);
  else if (!strcmp(kind, "vertices")) g_vertices = std::max(g_vertices, v);
  else if (!strcmp(kind, "components")) g_comps += v;
  else if (!strcmp(kind, "attributes")) g_atts += v;
  g_as.declared = declared_bytes();
}
#ifdef VERIF_ALLOC_SHIM
static const size_t kHeader = 16;
static const long long kRefuseAbove = 64ll << 20;   // requests above 64 MiB fail like a real allocation failure would (and are judged against the bound)
void *operator new(size_t sz) {
  if (g_as.on) {
    if ((long long)sz > kRefuseAbove) { g_as.refused++; g_as.refused_size = (long long)sz; g_as.declared_at_refused = g_as.declared; throw std::bad_alloc(); }
    if ((long long)sz > g_as.max_single) { g_as.max_single = (long long)sz; g_as.declared_at_max = g_as.declared; }
    g_as.live += (long long)sz;
    if (g_as.live > g_as.peak) g_as.peak = g_as.live;
  }
  void *p = malloc(sz + kHeader);
  if (!p) throw std::bad_alloc();
  *(size_t *)p = g_as.on ? sz : 0;
  return (char *)p + kHeader;
}
void operator delete(void *p) noexcept {
  if (!p) return;
  char *q = (char *)p - kHeader;
  const size_t sz = *(size_t *)q;
  if (sz) g_as.live -= (long long)sz;
  free(q);
}
void *operator new[](size_t sz) { return operator new(sz); }
void operator delete[](void *p) noexcept { operator delete(p); }
void operator delete(void *p, size_t) noexcept { operator delete(p); }
void operator delete[](void *p, size_t) noexcept { operator delete(p); }
#endif

// ---------------------------------------------------------------------------------------------- faults
struct Fault { int kind; long off; long long a; long long b; };   // kind: 0 truncate(off) 1 byte(off, value) 2 u32(off, value) 3 varint(off, pattern id) 4 version(maj,min) 10 collapse(off, value: the same u32 at off and off+4)
                                                                  //       5 header byte (off, value) 6 multi (seed, count) 7 splice (cut, other index) 8 none
static std::vector<char> apply(const std::vector<char> &b, const Fault &f, const std::vector<std::vector<char>> *all) {
  std::vector<char> c = b;
  switch (f.kind) {
    case 0: c.resize((size_t)f.off); break;
    case 1: if (f.off < (long)c.size()) c[f.off] = (char)f.a; break;
    case 2: for (int k = 0; k < 4 && f.off + k < (long)c.size(); ++k) c[f.off + k] = (char)((f.a >> (8 * k)) & 0xFF); break;
    case 3: {
      // 0: 2^32-1   1, 2: unterminated   3: 2^31   4: 16383   5: 2^64-1 (10 bytes)   6: 2^63   7: 2^64 - 2^46 (64-bit sizes: bit 63 set, low bits clear)   8, 9: below
      static const unsigned char pats[][10] = {{0xFF, 0xFF, 0xFF, 0xFF, 0x0F}, {0x80, 0x80, 0x80, 0x80, 0x80, 0x80}, {0xFF, 0xFF, 0xFF, 0xFF, 0xFF, 0xFF}, {0x80, 0x80, 0x80, 0x80, 0x08}, {0xFF, 0x7F},
                                               {0xFF, 0xFF, 0xFF, 0xFF, 0xFF, 0xFF, 0xFF, 0xFF, 0xFF, 0x01}, {0x80, 0x80, 0x80, 0x80, 0x80, 0x80, 0x80, 0x80, 0x80, 0x01},
                                               {0x80, 0x80, 0x80, 0x80, 0x80, 0x80, 0xC0, 0xFF, 0xFF, 0x01},
                                               {0xD6, 0xAA, 0xD5, 0xAA, 0x05}, {0xAC, 0xD5, 0xAA, 0xD5, 0x0A}};     // 8, 9: 0x55555556, 0xAAAAAAAC (3 * n wraps in 32 bits)
      static const int lens[] = {5, 6, 6, 5, 2, 10, 10, 10, 5, 5};
      for (int k = 0; k < lens[f.a] && f.off + k < (long)c.size(); ++k) c[f.off + k] = (char)pats[f.a][k];
      break;
    }
    case 4: if (c.size() > 6) { c[5] = (char)f.a; c[6] = (char)f.b; } break;
    case 10: for (int k = 0; k < 8 && f.off + k < (long)c.size(); ++k) c[f.off + k] = (char)((f.a >> (8 * (k & 3))) & 0xFF); break;   // range collapse: the same u32 at off and off + 4 (two adjacent stored bounds)
    case 5: if (f.off < (long)c.size()) c[f.off] = (char)f.a; break;
    case 6: { vrt::Rng r((uint64_t)f.a); for (int k = 0; k < f.b && !c.empty(); ++k) { const size_t o = r.below(c.size()); c[o] = (char)(r.coin(1, 3) ? r.range(0, 255) : (c[o] ^ (1 << r.range(0, 7)))); } break; }
    case 9: c.resize(std::min<size_t>(c.size(), (size_t)f.off)); c.insert(c.end(), (size_t)f.a, (char)0x80); break;   // everything from off on replaced by a long run of continuation bytes
    case 7: if (all && !all->empty()) { const std::vector<char> &o = (*all)[(size_t)f.b % all->size()]; c.resize(std::min<size_t>(c.size(), (size_t)f.off)); if ((size_t)f.off < o.size()) c.insert(c.end(), o.begin() + f.off, o.end()); } break;
    default: break;
  }
  return c;
}
static std::string fdesc(const Fault &f) { return std::to_string(f.kind) + ":" + std::to_string(f.off) + ":" + std::to_string(f.a) + ":" + std::to_string(f.b); }

// A probe may burn 20 s of CPU time (ITIMER_PROF: load on the machine does not count) and, as a backstop, 300 s of wall time; either limit ends the child
// with a signal that the parent reads as "did not return".
static void arm_limits(int cpu_s) {
  struct itimerval it; memset(&it, 0, sizeof it); it.it_value.tv_sec = cpu_s;
  setitimer(ITIMER_PROF, &it, nullptr);
  alarm(cpu_s == 0 ? 0 : 300);
}
static bool is_timeout_signal(int st) { return WIFSIGNALED(st) && (WTERMSIG(st) == SIGALRM || WTERMSIG(st) == SIGPROF); }
static bool g_identity_only = false;   // model rows: probe every stream as it is
static std::vector<Fault> enumerate(const std::vector<char> &b, int level, uint64_t seed, size_t index, size_t ncorpus, const std::string &name = "") {
  std::vector<Fault> fs;
  if (g_identity_only) { fs.push_back({8, 0, 0, 0}); return fs; }
  const long L = (long)b.size();
  vrt::Rng r(seed ^ (index * 7919));
  // thorough: every offset of every stream up to 6000 bytes; the four big legacy files (37..121 KB) at about 1000 evenly spread offsets each
  // (a probe of one of the big files costs 50 ms and more: about 1000 offsets each, with the plain byte / word / varint values only)
  const bool bigfile = L > 6000;
  const long step = level >= 2 ? (!bigfile ? 1 : (L + 999) / 1000) : (L <= 400 ? 1 : (L <= 1500 ? 5 : 23));
  const long phase = (long)(r.below((uint64_t)step));
  fs.push_back({8, 0, 0, 0});
  // range collapse (F29 / F30): two adjacent 32-bit bounds set to the same extreme value -- a wrap range of 1 turns the stream's small corrections into
  // values at the corners of int32, which every integer predictor downstream then has to survive. Every offset of every stream up to 6000 bytes: INT32_MAX in both tiers, INT32_MIN and 0 in the
  // thorough tier; alone with VERIF_ONLY_COLLAPSE=1.
  static const bool only_collapse = getenv("VERIF_ONLY_COLLAPSE") != nullptr;
  if (!bigfile) for (long o = 8; o + 8 <= L; ++o) { fs.push_back({10, o, 0x7FFFFFFFll, 0}); if (level >= 2 || only_collapse) for (long long w : {0x80000000ll, 0ll}) fs.push_back({10, o, w, 0}); }
  if (only_collapse) return fs;
  // streams named c* (constrained multi-parallelogram grids): counts that end on a word boundary of the crease-flag vectors, at every offset
  if (!name.empty() && name[0] == 'c') for (long o = 0; o < L; ++o) for (int val : {64, 128, 192}) if (val != (unsigned char)b[o]) fs.push_back({1, o, val, 0});
  for (long t = 0; t < L; t += (level >= 2 ? step : (L <= 600 ? 1 : 3))) fs.push_back({0, t, 0, 0});
  for (long o = phase; o < L; o += step) {
    const unsigned char v = (unsigned char)b[o];
    for (int val : {0x00, 0xFF, (v + 1) & 0xFF, (v - 1) & 0xFF, v ^ 0x80, v ^ 0x01}) if (val != v) fs.push_back({1, o, val, 0});
    if (bigfile) { for (long long w : {0ll, 0xFFFFFFFFll}) fs.push_back({2, o, w, 0}); for (int pp : {0, 5, 8}) fs.push_back({3, o, pp, 0}); continue; }
    // field-shaped values: the zero-run token of the rANS table ((run << 2) | 3, run 0..9) and a nibble equal to a small dimension count (packed 4-bit fields)
    if (level >= 1 || L <= 400) {
      for (int run = 0; run < 10; ++run) { const int val = (run << 2) | 3; if (val != v) fs.push_back({1, o, val, 0}); }
      for (int d : {2, 3, 4, 5, 6}) { const int hi = (v & 0x0F) | (d << 4), lo = (v & 0xF0) | d; if (hi != v) fs.push_back({1, o, hi, 0}); if (lo != v) fs.push_back({1, o, lo, 0}); }
    }
    if (level >= 1 || o % 2 == 0) for (long long w : {0ll, 0x7FFFFFFFll, 0xFFFFFFFFll, 0x80000000ll}) fs.push_back({2, o, w, 0});
    for (int p = 0; p < 10; ++p) if (level >= 1 || (o + p) % 3 == 0 || (p >= 5 && o < 64)) fs.push_back({3, o, p, 0});
  }
  // the first 72 bytes hold the header, the counts and the first tables: always at step 1
  if (step > 1) for (long o = 0; o < std::min<long>(L, 72); ++o) { for (int val : {0x00, 0xFF, 0x7F, 0x80}) fs.push_back({1, o, val, 0}); for (int p : {0, 5, 6, 7, 8, 9}) fs.push_back({3, o, p, 0}); fs.push_back({2, o, 0xFFFFFFFFll, 0}); }
  // a varint that never ends: 400 000 continuation bytes from the offset on (whatever reads a varint there has to give up after the width of its type)
  for (long o = 8; o < L; o += (o < 64 ? 1 : bigfile ? (L + 199) / 200 : (level >= 1 ? 5 : 17))) fs.push_back({9, o, 400000, 0});
  for (int maj = 0; maj <= 3; ++maj) for (int mn = 0; mn <= 5; ++mn) fs.push_back({4, 0, maj, mn});
  for (long o = 7; o <= 10 && o < L; ++o) for (int val = 0; val < 6; ++val) fs.push_back({5, o, val, 0});
  const int nmulti = level >= 2 ? 400 : (level == 1 ? 60 : 12);
  for (int k = 0; k < nmulti; ++k) fs.push_back({6, 0, (long long)r.next() & 0x7FFFFFFF, r.range(2, 6)});
  for (int k = 0; k < (level >= 1 ? 6 : 2); ++k) fs.push_back({7, (long)r.below((uint64_t)L + 1), 0, (long long)r.below(ncorpus)});
  return fs;
}

// ---------------------------------------------------------------------------------------------- one probe
struct Shared { std::atomic<long> idx; long ok, failed, tolerated; };
static Shared *g_sh = nullptr;
static long long g_emitted_ok = 0;

static void touch_everything(const PointCloud &pc, bool is_mesh) {
  // read the geometry through every public accessor (under ASan this is the "memory-safe to read" half of C03)
  volatile uint64_t sink = 0;
  if (is_mesh) { const Mesh &m = static_cast<const Mesh &>(pc); for (FaceIndex f(0); f < m.num_faces(); ++f) for (int k = 0; k < 3; ++k) sink += m.face(f)[k].value(); }
  const uint32_t np = pc.num_points();
  for (int a = 0; a < pc.num_attributes(); ++a) {
    const PointAttribute *att = pc.attribute(a);
    sink += att->unique_id() + att->size();
    std::vector<uint8_t> v((size_t)std::max<int64_t>(att->byte_stride(), 1) + 8);
    // bound the work for absurd (but accepted) point counts
    const uint32_t lim = std::min<uint32_t>(np, 200000);
    for (PointIndex p(0); p < lim; ++p) {
      const AttributeValueIndex avi = att->mapped_index(p);
      if (avi.value() < att->size()) { att->GetValue(avi, v.data()); sink += v[0]; }   // an out-of-range index is reported by StructValid, not dereferenced
    }
  }
  (void)sink;
}

static void probe(const std::string &label, const std::vector<char> &bytes, const Fault &f, size_t fi, bool want_allocs, long base_np) {
  // exact-size heap copy: ASan sees any access behind the input
  std::vector<char> buf(bytes);
  const uint64_t h0 = vrt::fnv1a(buf.data(), buf.size());
  g_points = g_faces = g_vertices = g_comps = g_atts = 0;
  g_as = AllocStats();
  g_as.on = want_allocs;
  Decoded d;
  bool tolerated_bad_alloc = false;
  try {
    std::vector<GeometryAttribute::Type> skip;
    if (fi % 4 == 1) skip = {GeometryAttribute::POSITION, GeometryAttribute::NORMAL, GeometryAttribute::TEX_COORD, GeometryAttribute::GENERIC};
    d = decode(buf.data(), buf.size(), skip);
    if (fi % 8 == 3) {   // the other entry points
      DecoderBuffer db; db.Init(buf.data(), buf.size());
      Decoder dec; Mesh m2; (void)dec.DecodeBufferToGeometry(&db, &m2);
      DecoderBuffer db2; db2.Init(buf.data(), buf.size());
      Decoder dec2; PointCloud p2; (void)dec2.DecodeBufferToGeometry(&db2, &p2);
      DecoderBuffer db3; db3.Init(buf.data(), buf.size());
      KeyframeAnimationDecoder kd; KeyframeAnimation ka; DecoderOptions dopt; (void)kd.Decode(dopt, &db3, &ka);
    }
    if (d.ok) touch_everything(*d.pc, d.is_mesh);
  } catch (const std::bad_alloc &) {
    tolerated_bad_alloc = true;   // decided by C18's bound: tolerated only if justified by declared counts
  } catch (const std::length_error &) {
    tolerated_bad_alloc = true;   // std::vector refusing an absurd size: the same class of exit as a failed allocation
    // under the allocation accounting it IS a request: one for more than any allocator can give (judged like a refused request of 2^50 bytes
    // against the counts declared at this moment)
    if (want_allocs && g_as.refused_size < (1ll << 50)) { g_as.refused++; g_as.refused_size = 1ll << 50; g_as.declared_at_refused = g_as.declared; }
  }
  g_as.on = false;
  const bool modified = vrt::fnv1a(buf.data(), buf.size()) != h0;
  if (d.ok) g_sh->ok++; else if (tolerated_bad_alloc) g_sh->tolerated++; else g_sh->failed++;
  const bool interesting = modified || (d.ok && (g_emitted_ok++ % 16 == 0 || (long)d.pc->num_points() != base_np)) || tolerated_bad_alloc ||
                           (want_allocs && (g_as.max_single >= (64 << 10) || g_as.refused));
  if (!interesting) return;
  out.begin("Probe").s("stream", label).s("fault", fdesc(f)).i("len", (long long)buf.size()).b("ok", d.ok).i("code", d.code).b("modified", modified).b("bad_alloc", tolerated_bad_alloc);
  out.raw("sv", d.ok ? struct_json(*d.pc, d.is_mesh) : "{\"np\":0,\"nf\":0,\"maxface\":-1,\"atts\":[]}");
  // TLC integers are 32-bit: declared sizes are capped at 1 GiB (in KiB).  No request above 64 MiB is ever granted here, so a cap of 1 GiB on the
  // justification of GRANTED requests cannot create a false alarm.
  auto capkb = [](long long b) { return std::min<long long>(b >> 10, 1 << 20); };
  out.b("allocs", want_allocs).i("max_single_kb", g_as.max_single >> 10).i("peak_kb", g_as.peak >> 10).i("declared_kb", capkb(g_as.declared_at_max)).i("declared_end_kb", capkb(g_as.declared))
      .i("refused", g_as.refused).i("refused_mb", std::min<long long>(g_as.refused_size >> 20, 1 << 30)).i("declared_at_refused_kb", capkb(g_as.declared_at_refused))
      // the refused request is judged in MiB (request rounded down, justification rounded up, capped at 2^24 MiB = 16 TiB: K * 2^24 still fits TLC's integers
      // and exceeds the cap of refused_mb, so capping cannot turn a justified request into a violation)
      .i("declared_at_refused_mb", std::min<long long>((g_as.declared_at_refused + (1 << 20) - 1) >> 20, 1 << 24)).end();
  fflush(out.f);
}

static void on_terminate() {
  // uncaught exception inside the library: report and leave with a distinctive status so the parent can classify it
  fprintf(stderr, "TERMINATE: uncaught exception in probe %ld\n", g_sh ? g_sh->idx.load() : -1);
  _exit(43);
}

static std::vector<char> slurp(const std::string &p) { std::ifstream f(p, std::ios::binary); return std::vector<char>((std::istreambuf_iterator<char>(f)), std::istreambuf_iterator<char>()); }

static std::vector<char> assemble_eb(const vrt::J &row, int natt);
static std::vector<char> assemble_kd(const vrt::J &row, bool *enc_same);
static int run_sweep(const std::string &dir, int shard, int nshards, int level, uint64_t seed) {
  std::vector<std::string> names;
  std::vector<std::vector<char>> all;
  if (dir.size() > 7 && dir.substr(dir.size() - 7) == ".ndjson") {
    // a file of model rows instead of a corpus directory: every row's assembled stream (this shard's rows only), probed as it is -- the allocation
    // accounting of the plain build over the streams the models generate
    g_identity_only = true;
    std::ifstream rf(dir);
    std::string line;
    long i = 0;
    while (std::getline(rf, line)) {
      if (line.empty()) continue;
      if ((i++ % nshards) != shard) continue;
      const vrt::J row = vrt::jparse_line(line);
      if (row["npd"].n > 1000) continue;
      names.push_back("model-row:" + std::to_string(i - 1));
      all.push_back(row["mode"].s == "kd" ? assemble_kd(row, nullptr) : assemble_eb(row, 1));
    }
    shard = 0; nshards = 1;
  } else {
    std::ifstream idx(dir + "/index.ndjson");
    std::string line;
    while (std::getline(idx, line)) if (!line.empty()) names.push_back(vrt::jparse_line(line)["file"].s);
    for (auto &n : names) all.push_back(slurp(dir + "/" + n));
  }
  g_sh = (Shared *)mmap(nullptr, sizeof(Shared), PROT_READ | PROT_WRITE, MAP_SHARED | MAP_ANONYMOUS, -1, 0);
  verif::DeclareSink() = on_declare;
  std::set_terminate(on_terminate);
#ifdef VERIF_ALLOC_SHIM
  const bool want_allocs = true;
#else
  const bool want_allocs = false;
#endif
  long long total = 0, crashes = 0, timeouts = 0;
  for (size_t si = (size_t)shard; si < names.size(); si += (size_t)nshards) {
    const std::vector<char> &b = all[si];
    if (level == 0 && b.size() > 6000) continue;       // the big legacy files are swept in the thorough tier only
    long base_np = -1;
    { Decoded d0 = decode(b.data(), b.size()); if (d0.ok) base_np = d0.pc->num_points(); }
    const std::vector<Fault> fs = enumerate(b, level, seed, si, names.size(), names[si]);
    long start = 0;
    g_sh->ok = g_sh->failed = g_sh->tolerated = 0;
    long s_crash = 0, s_timeout = 0;
    while (start < (long)fs.size()) {
      fflush(out.f); fflush(stdout); fflush(stderr);
      g_sh->idx = start;
      const std::string errpath = std::string(getenv("VERIF_RECORDS") ? getenv("VERIF_RECORDS") : "/dev/null") + ".stderr";
      const pid_t pid = fork();
      if (pid == 0) {
        if (getenv("VERIF_RECORDS")) { FILE *ef = freopen(errpath.c_str(), "w", stderr); (void)ef; setvbuf(stderr, nullptr, _IONBF, 0); }
        for (long i = start; i < (long)fs.size(); ++i) {
          g_sh->idx = i;
          arm_limits(20);
          probe(names[si], apply(b, fs[i], &all), fs[i], (size_t)i, want_allocs, base_np);
        }
        arm_limits(0);
        fflush(out.f);
        _exit(0);
      }
      int st = 0;
      waitpid(pid, &st, 0);
      if (WIFEXITED(st) && WEXITSTATUS(st) == 0) break;
      const long at = g_sh->idx.load();
      const bool timeout = is_timeout_signal(st);
      // what the sanitizer / runtime said (first report line), to classify the exit
      std::string report;
      bool oom = false;
      {
        std::ifstream ef(errpath);
        std::string l;
        while (std::getline(ef, l)) {
          if (l.find("allocator is out of memory") != std::string::npos || l.find("exceeds maximum supported size") != std::string::npos ||
              l.find("std::bad_alloc") != std::string::npos || l.find("std::length_error") != std::string::npos) oom = true;
          if (report.empty() && (l.find("ERROR: AddressSanitizer") != std::string::npos || l.find("runtime error") != std::string::npos || l.find("TERMINATE") != std::string::npos ||
                                 l.find("terminate called") != std::string::npos)) report = l.substr(0, 400);
          if (report.size() && l.find(" in draco::") != std::string::npos && report.find(" @ ") == std::string::npos) { const size_t q = l.find(" in draco::"); report += " @ " + l.substr(q + 4, 160); }
        }
      }
      if (oom && !timeout) { g_sh->tolerated++; } else if (timeout) ++s_timeout; else ++s_crash;
      out.begin("Abnormal").b("oom", oom).s("report", report).s("stream", names[si]).s("fault", fdesc(fs[at])).i("len", (long long)apply(b, fs[at], &all).size()).b("timeout", timeout)
          .i("signal", WIFSIGNALED(st) ? WTERMSIG(st) : 0).i("exit", WIFEXITED(st) ? WEXITSTATUS(st) : -1).end();
      start = at + 1;
    }
    total += (long long)fs.size(); crashes += s_crash; timeouts += s_timeout;
    out.begin("Batch").s("stream", names[si]).i("len", (long long)b.size()).i("faults", (long long)fs.size()).i("ok", g_sh->ok).i("rejected", g_sh->failed).i("bad_alloc", g_sh->tolerated)
        .i("crashes", s_crash).i("timeouts", s_timeout).end();
  }
  fprintf(stderr, "STATS probes=%lld crashes=%lld timeouts=%lld\n", total, crashes, timeouts);
  return 0;
}


// ---------------------------------------------------------------------------------------------- semantic faults: streams assembled from model rows
// Layout (bitstream 2.2, mesh, Edgebreaker, standard traversal, no attribute connectivity data, one int32x3 POSITION attribute stored raw):
//   "DRACO" 2 2 | type 1 | method 1 | flags u16 0 | traversal type 0 (valence: 2) | varint nv | varint nf | u8 0 | varint nsym | varint nss |
//   varint nev { varint dsrc, varint src-split } (bits: 1 per event) | symbols: varint size + bits (decoder order) | start faces: rABS block |
//   u8 1 decoder | i8 -1, u8 0 (vertex attribute), u8 0 (depth first) | varint 1 | 0, 5 (int32), 3, 0, varint 0 | u8 1 (integer) | i8 -2 (no prediction), u8 0 (raw),
//   u8 4 | values
// Valence traversal (row.mode = "val"): no symbol bit section; start faces first, then 6 x (varint n, EncodeSymbols block) = the context vectors.
// Sequential mesh rows (row.mode = "seq", module SeqDecoder): "DRACO" 2 2 | type 1 | method 0 | flags 0 | varint nf | varint np | u8 connectivity method |
//   method 0: EncodeSymbols block of the 3 * nf symbols; otherwise the indices in the width the declared point count selects | attribute section as above
//   (the sequential mesh decoder reads no per-decoder header).
static void append_position_attribute(EncoderBuffer *b, long nvalues, bool edgebreaker) {
  b->Encode((uint8_t)1);
  if (edgebreaker) { b->Encode((int8_t)-1); b->Encode((uint8_t)0); b->Encode((uint8_t)0); }
  EncodeVarint<uint32_t>(1, b);
  b->Encode((uint8_t)0); b->Encode((uint8_t)5); b->Encode((uint8_t)3); b->Encode((uint8_t)0); EncodeVarint<uint32_t>(0, b);
  b->Encode((uint8_t)1);
  b->Encode((int8_t)-2); b->Encode((uint8_t)0); b->Encode((uint8_t)4);
  for (long i = 0; i < 3 * nvalues; ++i) b->Encode((int32_t)(2 * (i + 1)));
}
static std::vector<char> assemble_seq(const vrt::J &row, int natt) {
  EncoderBuffer b;
  b.Encode("DRACO", 5);
  b.Encode((uint8_t)2); b.Encode((uint8_t)2); b.Encode((uint8_t)1); b.Encode((uint8_t)0); b.Encode((uint16_t)0);
  const long nf = (long)row["nf"].n, np = (long)row["npd"].n, method = (long)row["method"].n;
  const std::string &nfd = row["nfd"].s;
  EncodeVarint<uint32_t>(nfd == "w1" ? 0x55555556u : nfd == "w2" ? 0xAAAAAAACu : nfd == "max" ? 0xFFFFFFFFu : (uint32_t)nf, &b);
  EncodeVarint<uint32_t>((uint32_t)np, &b);
  b.Encode((uint8_t)method);
  std::vector<uint32_t> vals;
  for (int x : row["vals"].ints()) vals.push_back((uint32_t)x);
  if (method == 0) {
    if (!vals.empty()) EncodeSymbols(vals.data(), (int)vals.size(), 1, nullptr, &b);
  } else {
    for (uint32_t v : vals) {
      if (np < 256) b.Encode((uint8_t)v);
      else if (np < (1 << 16)) b.Encode((uint16_t)v);
      else if (np < (1 << 21)) EncodeVarint<uint32_t>(v, &b);
      else b.Encode((uint32_t)v);
    }
  }
  if (natt == 0) { b.Encode((uint8_t)0); return std::vector<char>(b.data(), b.data() + b.size()); }
  append_position_attribute(&b, std::min<long>(np, 64) + 2, false);     // enough values for the small point counts; the large ones run out of data (a Status)
  return std::vector<char>(b.data(), b.data() + b.size());
}

// Legacy kd-tree point clouds (row.mode = "lkd", module LegacyKd): "DRACO" 2 2 | type 0 | method 1 | flags 0 | i32 hp | u8 1 decoder | varint 1 attribute |
//   POSITION, uint32, 3 components, not normalized, varint id 0 | u8 1 (integer kd-tree) | u8 level | u32 op | payload of the real kd-tree encoder core
//   over n points (u32 bit length, u32 count = ip, four bit streams).
template <int L>
static void kd_payload(const std::vector<std::array<uint32_t, 3>> &pts, EncoderBuffer *b) {
  std::vector<std::array<uint32_t, 3>> p = pts;
  DynamicIntegerPointsKdTreeEncoder<L> enc(3);
  enc.EncodePoints(p.begin(), p.end(), 10, b);
}
static std::vector<char> assemble_lkd(const vrt::J &row) {
  EncoderBuffer b;
  b.Encode("DRACO", 5);
  b.Encode((uint8_t)2); b.Encode((uint8_t)2); b.Encode((uint8_t)0); b.Encode((uint8_t)1); b.Encode((uint16_t)0);
  const long n = (long)row["n"].n, hp = (long)row["hp"].n, op = (long)row["op"].n, ip = (long)row["ip"].n, level = (long)row["level"].n;
  const bool neg = row["neg"].n != 0;
  b.Encode(neg ? (uint32_t)0x80000000u : (uint32_t)hp);
  b.Encode((uint8_t)1);
  EncodeVarint<uint32_t>(1, &b);
  b.Encode((uint8_t)0); b.Encode((uint8_t)6); b.Encode((uint8_t)3); b.Encode((uint8_t)0); EncodeVarint<uint32_t>(0, &b);
  if (row["mode"].s == "lkq") {
    // the float method: POSITION float32 x 3 | u8 0 | u8 level | u32 op | FloatPointsTreeEncoder output over n points: u32 3, i8 method, u32 bits, f32 range,
    // u32 fp, u32 level, then the integer kd-tree payload (u32 bit length, u32 ip, four bit streams)
    std::vector<char> hd(b.data(), b.data() + b.size());
    hd[hd.size() - 4] = 9;          // data type of the one attribute: DT_FLOAT32
    EncoderBuffer q;
    q.Encode(hd.data(), hd.size());
    q.Encode((uint8_t)0);
    q.Encode((uint8_t)level);
    q.Encode(neg ? (uint32_t)0x80000000u : (uint32_t)(row["hop"].n ? (1u << 27) : (uint32_t)op));
    std::vector<Point3f> fpts;
    for (long i = 0; i < n; ++i) fpts.push_back(Point3f((float)((37 * i + 5) % 100) * 0.25f, (float)((911 * i + 3) % 100) - 50.f, (float)((i * i * 17 + 1) % 10)));
    FloatPointsTreeEncoder fe(KDTREE, 8, (uint32_t)std::min<long>(level, 6));
    fe.EncodePointCloud(fpts.begin(), fpts.end());
    std::vector<char> tree(fe.buffer()->data(), fe.buffer()->data() + fe.buffer()->size());
    const uint32_t fpv = row["hfp"].n ? (1u << 27) : (uint32_t)row["fp"].n, lv = (uint32_t)level, ipv = row["hip"].n ? (1u << 27) : (uint32_t)ip;
    if (tree.size() >= 21) { memcpy(&tree[13], &fpv, 4); memcpy(&tree[17], &lv, 4); }
    if (tree.size() >= 29) memcpy(&tree[25], &ipv, 4);
    q.Encode(tree.data(), tree.size());
    return std::vector<char>(q.data(), q.data() + q.size());
  }
  b.Encode((uint8_t)1);
  b.Encode((uint8_t)level);
  b.Encode(neg ? (uint32_t)0x80000000u : (uint32_t)(row["hop"].n ? (1u << 27) : (uint32_t)op));
  std::vector<std::array<uint32_t, 3>> pts;
  for (long i = 0; i < n; ++i) pts.push_back({(uint32_t)(37 * i + 5) % 1000, (uint32_t)(911 * i + 3) % 1000, (uint32_t)(i * i * 17 + 1) % 1000});
  const size_t at = b.size();
  switch (std::min<long>(level, 6)) {
    case 0: kd_payload<0>(pts, &b); break; case 1: kd_payload<1>(pts, &b); break; case 2: kd_payload<2>(pts, &b); break; case 3: kd_payload<3>(pts, &b); break;
    case 4: kd_payload<4>(pts, &b); break; case 5: kd_payload<5>(pts, &b); break; default: kd_payload<6>(pts, &b); break;
  }
  std::vector<char> out_bytes(b.data(), b.data() + b.size());
  const uint32_t inner = row["hip"].n ? (1u << 27) : (uint32_t)ip;      // the payload's own count sits behind its 4-byte bit length
  if (out_bytes.size() >= at + 8) memcpy(&out_bytes[at + 4], &inner, 4);
  return out_bytes;
}

// kd-tree rows (row.mode = "kd", module KdTree): a bitstream-2.3 cloud with one GENERIC uint32 attribute of D components,
//   "DRACO" 2 3 | type 0 | method 1 | flags 0 | i32 hp | u8 1 decoder | varint 1 attribute: type 4, uint32 (6), D, 0, varint id 0 | u8 level |
//   u32 bit length B | u32 n | numbers | remaining bits | axes | halves -- the four request lists of the row, written with the coder classes the level selects
template <int L>
static void kd_streams(const vrt::J &row, EncoderBuffer *b) {
  typedef DynamicIntegerPointsKdTreeEncoderCompressionPolicy<L> Policy;
  typename Policy::NumbersEncoder numbers;
  typename Policy::RemainingBitsEncoder remaining;
  typename Policy::AxisEncoder axes;
  typename Policy::HalfEncoder halves;
  numbers.StartEncoding(); remaining.StartEncoding(); axes.StartEncoding(); halves.StartEncoding();
  for (auto &q : row["nq"].a) numbers.EncodeLeastSignificantBits32((int)q[0].n, (uint32_t)q[1].n);
  for (auto &q : row["rq"].a) remaining.EncodeLeastSignificantBits32((int)q[0].n, (uint32_t)q[1].n);
  for (auto &q : row["aq"].a) axes.EncodeLeastSignificantBits32(4, (uint32_t)q.n);
  for (auto &q : row["hq"].a) halves.EncodeBit(q.n != 0);
  numbers.EndEncoding(b); remaining.EndEncoding(b); axes.EndEncoding(b); halves.EndEncoding(b);
}
template <int L>
static void kd_real(std::vector<std::vector<uint32_t>> pts, int D, uint32_t B, EncoderBuffer *b) {
  DynamicIntegerPointsKdTreeEncoder<L> enc((uint32_t)D);
  enc.EncodePoints(pts.begin(), pts.end(), B, b);
}
#define KD_LEVEL_SWITCH(level, CALL) switch (level) { case 0: CALL(0); break; case 1: CALL(1); break; case 2: CALL(2); break; case 3: CALL(3); break; \
                                                       case 4: CALL(4); break; case 5: CALL(5); break; default: CALL(6); break; }
static std::vector<char> assemble_kd(const vrt::J &row, bool *enc_same) {
  EncoderBuffer b;
  b.Encode("DRACO", 5);
  b.Encode((uint8_t)2); b.Encode((uint8_t)3); b.Encode((uint8_t)0); b.Encode((uint8_t)1); b.Encode((uint16_t)0);
  const int D = (int)row["D"].n, level = (int)row["level"].n;
  const uint32_t B = (uint32_t)row["B"].n, n = (uint32_t)row["n"].n;
  b.Encode((int32_t)row["hp"].n);
  b.Encode((uint8_t)1);
  EncodeVarint<uint32_t>(1, &b);
  b.Encode((uint8_t)4); b.Encode((uint8_t)6); b.Encode((uint8_t)D); b.Encode((uint8_t)0); EncodeVarint<uint32_t>(0, &b);
  b.Encode((uint8_t)level);
  const size_t at = b.size();
  b.Encode(B); b.Encode(n);
  if (n > 0) {
#define KD_CALL(L) kd_streams<L>(row, &b)
    KD_LEVEL_SWITCH(level, KD_CALL)
#undef KD_CALL
  }
  if (enc_same) {
    *enc_same = true;
    if (!row["in"].a.empty()) {
      // the honest rows: the library's encoder over the row's points must write the very bytes assembled from the model's request lists
      std::vector<std::vector<uint32_t>> pts;
      for (auto &p : row["in"].a) { std::vector<uint32_t> v; for (auto &x : p.a) v.push_back((uint32_t)x.n); pts.push_back(v); }
      EncoderBuffer rb;
#define KD_CALL(L) kd_real<L>(pts, D, B, &rb)
      KD_LEVEL_SWITCH(level, KD_CALL)
#undef KD_CALL
      *enc_same = rb.size() == b.size() - at && memcmp(rb.data(), b.data() + at, rb.size()) == 0;
    }
  }
  return std::vector<char>(b.data(), b.data() + b.size());
}

// integer attribute rows (row.mode = "ia", module IntAttr): a sequentially coded cloud of bitstream 2.2 with one GENERIC attribute of the row's type,
//   "DRACO" 2 2 | type 0 | method 0 | flags 0 | i32 points | u8 1 decoder | varint 1 attribute: type 4, dt, NC, 0, varint id 0 | u8 1 (integer decoder) |
//   i8 method [i8 transform] | u8 compressed | symbol block or (u8 nb, nb bytes per value) | [i32 lo, i32 hi under the wrap transform]
static std::vector<char> assemble_ia(const vrt::J &row) {
  EncoderBuffer b;
  b.Encode("DRACO", 5);
  b.Encode((uint8_t)2); b.Encode((uint8_t)2); b.Encode((uint8_t)0); b.Encode((uint8_t)0); b.Encode((uint16_t)0);
  const int NC = (int)row["NC"].n, method = (int)row["method"].n, transform = (int)row["transform"].n, nb = (int)row["nb"].n;
  std::vector<uint32_t> syms;
  for (auto &x : row["syms"].a) syms.push_back((uint32_t)x.n);
  b.Encode((int32_t)row["hp"].n);
  b.Encode((uint8_t)1);
  EncodeVarint<uint32_t>(1, &b);
  b.Encode((uint8_t)4); b.Encode((uint8_t)row["dt"].n); b.Encode((uint8_t)NC); b.Encode((uint8_t)0); EncodeVarint<uint32_t>(0, &b);
  b.Encode((uint8_t)1);
  b.Encode((int8_t)method);
  if (method != -2) b.Encode((int8_t)transform);
  b.Encode((uint8_t)row["compressed"].n);
  if (row["compressed"].n > 0) {
    EncodeSymbols(syms.data(), (int)syms.size(), NC, nullptr, &b);
  } else {
    b.Encode((uint8_t)nb);
    for (uint32_t v : syms) { const uint64_t w = v; b.Encode(&w, (size_t)nb); }
  }
  if (method != -2 && transform == 1) { b.Encode((int32_t)row["lo"].n); b.Encode((int32_t)row["hi"].n); }
  return std::vector<char>(b.data(), b.data() + b.size());
}

static std::vector<char> assemble_eb(const vrt::J &row, int natt) {
  if (row["mode"].s == "seq") return assemble_seq(row, natt);
  if (row["mode"].s == "lkd" || row["mode"].s == "lkq") return assemble_lkd(row);
  if (row["mode"].s == "ia") return assemble_ia(row);
  EncoderBuffer b;
  b.Encode("DRACO", 5);
  b.Encode((uint8_t)2); b.Encode((uint8_t)2); b.Encode((uint8_t)1); b.Encode((uint8_t)1); b.Encode((uint16_t)0);
  const bool valence = row["mode"].s == "val";
  b.Encode((uint8_t)(valence ? 2 : 0));
  const std::string &sy = row["s"].s;
  const long nv = (long)row["nv"].n, nf = (long)row["nf"].n, nss = (long)row["nss"].n;
  EncodeVarint<uint32_t>((uint32_t)nv, &b);
  EncodeVarint<uint32_t>((uint32_t)nf, &b);
  const bool seamed = natt >= 7;       // natt = 7 + k: a second attribute with its own connectivity, seam bits of pattern k (row.sm[k]); beyond: row.sm2 (two such attributes)
  const int nsm1 = (int)row["sm"].a.size();
  const bool two = seamed && natt - 7 >= nsm1;
  const bool hd = row["mode"].s == "hd";   // attribute decoder headers: nad attribute-data blocks, the row's list of decoders
  b.Encode((uint8_t)(hd ? row["nad"].n : two ? 2 : seamed ? 1 : 0));
  EncodeVarint<uint32_t>((uint32_t)sy.size(), &b);
  EncodeVarint<uint32_t>((uint32_t)nss, &b);
  const std::vector<vrt::J> &ev = row["ev"].a;
  EncodeVarint<uint32_t>((uint32_t)ev.size(), &b);
  if (!ev.empty()) {
    long last = 0;
    for (auto &e : ev) {
      const long src = (long)e[0].n, split = (long)e[1].n;
      EncodeVarint<uint32_t>((uint32_t)(src - last), &b);
      EncodeVarint<uint32_t>((uint32_t)(src - split), &b);
      last = src;
    }
    b.StartBitEncoding((int64_t)ev.size(), false);
    for (auto &e : ev) b.EncodeLeastSignificantBits32(1, (uint32_t)e[2].n);
    b.EndBitEncoding();
  }
  if (!valence) {
    b.StartBitEncoding((int64_t)sy.size() * 3 + 8, true);
    for (char c : sy) {
      const uint32_t code = c == 'C' ? 0 : c == 'S' ? 1 : c == 'L' ? 3 : c == 'R' ? 5 : 7;
      b.EncodeLeastSignificantBits32(c == 'C' ? 1 : 3, code);
    }
    b.EndBitEncoding();
  }
  RAnsBitEncoder sf;
  sf.StartEncoding();
  const std::vector<int> sb = row["sb"].ints();
  for (size_t i = 0; i < sy.size() + 2; ++i) sf.EncodeBit(i < sb.size() ? sb[i] != 0 : false);     // one bit per possible active corner: never runs dry
  sf.EndEncoding(&b);
  if (hd) {
    for (long a = 0; a < (long)row["nad"].n; ++a) {      // every block reads its own seam bits: all clear
      RAnsBitEncoder se;
      se.StartEncoding();
      for (long i = 0; i < (long)row["used"].n; ++i) se.EncodeBit(false);
      se.EndEncoding(&b);
    }
    const std::vector<vrt::J> &decs = row["decs"].a;
    b.Encode((uint8_t)decs.size());
    for (auto &dc : decs) { b.Encode((int8_t)dc[0].n); b.Encode((uint8_t)dc[1].n); b.Encode((uint8_t)dc[2].n); }
    for (size_t k = 0; k < decs.size(); ++k) {
      EncodeVarint<uint32_t>(1, &b);
      b.Encode((uint8_t)4); b.Encode((uint8_t)5); b.Encode((uint8_t)1); b.Encode((uint8_t)0); EncodeVarint<uint32_t>((uint32_t)k, &b);
      b.Encode((uint8_t)1);
    }
    for (size_t k = 0; k < decs.size(); ++k) {
      b.Encode((int8_t)-2); b.Encode((uint8_t)0); b.Encode((uint8_t)4);
      const long cnt = k < row["cnt"].a.size() ? (long)row["cnt"][k].n : 0;
      for (long i = 0; i < cnt; ++i) b.Encode((int32_t)(2 * (i + 1)));
    }
    return std::vector<char>(b.data(), b.data() + b.size());
  }
  if (two) {
    const vrt::J &sm = row["sm2"][natt - 7 - nsm1];
    for (const char *bk : {"b1", "b2"}) {
      RAnsBitEncoder se;
      se.StartEncoding();
      const std::vector<int> bits = sm[bk].ints();
      for (long i = 0; i < (long)sm["used"].n; ++i) se.EncodeBit(i < (long)bits.size() && bits[(size_t)i] != 0);
      se.EndEncoding(&b);
    }
    b.Encode((uint8_t)3);
    b.Encode((int8_t)-1); b.Encode((uint8_t)0); b.Encode((uint8_t)0);
    b.Encode((int8_t)0); b.Encode((uint8_t)1); b.Encode((uint8_t)0);
    b.Encode((int8_t)1); b.Encode((uint8_t)1); b.Encode((uint8_t)0);
    EncodeVarint<uint32_t>(1, &b);
    b.Encode((uint8_t)0); b.Encode((uint8_t)5); b.Encode((uint8_t)3); b.Encode((uint8_t)0); EncodeVarint<uint32_t>(0, &b);
    b.Encode((uint8_t)1);
    for (uint32_t uid = 1; uid <= 2; ++uid) {
      EncodeVarint<uint32_t>(1, &b);
      b.Encode((uint8_t)4); b.Encode((uint8_t)5); b.Encode((uint8_t)1); b.Encode((uint8_t)0); EncodeVarint<uint32_t>(uid, &b);
      b.Encode((uint8_t)1);
    }
    b.Encode((int8_t)-2); b.Encode((uint8_t)0); b.Encode((uint8_t)4);
    for (long i = 0; i < 3 * (long)sm["pe"].n; ++i) b.Encode((int32_t)(2 * (i + 1)));
    b.Encode((int8_t)-2); b.Encode((uint8_t)0); b.Encode((uint8_t)4);
    for (long i = 0; i < (long)sm["ae"].n; ++i) b.Encode((int32_t)(2 * (i + 1)));
    b.Encode((int8_t)-2); b.Encode((uint8_t)0); b.Encode((uint8_t)4);
    for (long i = 0; i < 3 * nf + 8; ++i) b.Encode((int32_t)(2 * (i + 1)));
    return std::vector<char>(b.data(), b.data() + b.size());
  }
  if (seamed) {
    const vrt::J &sm = row["sm"][natt - 7];
    RAnsBitEncoder se;
    se.StartEncoding();
    const std::vector<int> bits = sm["bits"].ints();
    for (long i = 0; i < (long)sm["used"].n; ++i) se.EncodeBit(i < (long)bits.size() && bits[(size_t)i] != 0);
    se.EndEncoding(&b);
    // two attribute decoders: positions per vertex (as before), then one int32 per attribute vertex of the seamed table (corner attribute, depth first)
    b.Encode((uint8_t)2);
    b.Encode((int8_t)-1); b.Encode((uint8_t)0); b.Encode((uint8_t)0);
    b.Encode((int8_t)0); b.Encode((uint8_t)1); b.Encode((uint8_t)0);
    EncodeVarint<uint32_t>(1, &b);
    b.Encode((uint8_t)0); b.Encode((uint8_t)5); b.Encode((uint8_t)3); b.Encode((uint8_t)0); EncodeVarint<uint32_t>(0, &b);
    b.Encode((uint8_t)1);
    EncodeVarint<uint32_t>(1, &b);
    b.Encode((uint8_t)4); b.Encode((uint8_t)5); b.Encode((uint8_t)1); b.Encode((uint8_t)0); EncodeVarint<uint32_t>(1, &b);
    b.Encode((uint8_t)1);
    b.Encode((int8_t)-2); b.Encode((uint8_t)0); b.Encode((uint8_t)4);
    for (long i = 0; i < 3 * (long)sm["pe"].n; ++i) b.Encode((int32_t)(2 * (i + 1)));
    b.Encode((int8_t)-2); b.Encode((uint8_t)0); b.Encode((uint8_t)4);
    for (long i = 0; i < 3 * nf + 8; ++i) b.Encode((int32_t)(2 * (i + 1)));
    return std::vector<char>(b.data(), b.data() + b.size());
  }
  if (valence) {
    // valence traversal: start faces first, then the six context vectors (storage order: the decoder pops from the back)
    for (int k = 0; k < 6; ++k) {
      std::vector<uint32_t> ids;
      for (int x : row["ctx"][k].ints()) ids.push_back((uint32_t)x);
      EncodeVarint<uint32_t>((uint32_t)ids.size(), &b);
      if (!ids.empty()) EncodeSymbols(ids.data(), (int)ids.size(), 1, nullptr, &b);
    }
  }
  // natt = 0: a stream without any attribute decoder -- nothing after the connectivity can refuse what the connectivity decoder accepted
  if (natt == 0) { b.Encode((uint8_t)0); return std::vector<char>(b.data(), b.data() + b.size()); }
  b.Encode((uint8_t)1);
  b.Encode((int8_t)-1); b.Encode((uint8_t)0); b.Encode((uint8_t)(natt == 6 ? 1 : 0));     // natt = 6: the prediction-degree traversal orders the values
  EncodeVarint<uint32_t>(1, &b);
  b.Encode((uint8_t)0); b.Encode((uint8_t)5); b.Encode((uint8_t)3); b.Encode((uint8_t)0); EncodeVarint<uint32_t>(0, &b);
  b.Encode((uint8_t)1);
  if (natt >= 3 && natt <= 5) {
    // constrained multi-parallelogram (method 4) under the wrap transform: corrections, then per parallelogram count a list of crease flags (as many as the
    // model's decoder consumes, served by pattern natt - 3: all clear / all set / alternating), then the bounds
    const int pat = natt - 3;
    const vrt::J &cm = row["cm"][pat];
    long entries = 0;
    for (int x : row["vidx"].ints()) if (x >= 0) ++entries;
    b.Encode((int8_t)4); b.Encode((int8_t)1); b.Encode((uint8_t)0); b.Encode((uint8_t)4);
    for (long i = 0; i < 3 * entries; ++i) b.Encode((int32_t)(2 * (i + 1)));
    for (int ctx = 0; ctx < 4; ++ctx) {
      const long nfl = (long)cm["nfl"][ctx].n;
      EncodeVarint<uint32_t>((uint32_t)nfl, &b);
      if (nfl > 0) {
        RAnsBitEncoder fe;
        fe.StartEncoding();
        for (long pos = 0; pos < nfl; ++pos) fe.EncodeBit(pat == 0 ? false : pat == 1 ? true : ((pos + ctx) % 2) != 0);
        fe.EndEncoding(&b);
      }
    }
    b.Encode((int32_t)-50); b.Encode((int32_t)50);
    return std::vector<char>(b.data(), b.data() + b.size());
  }
  if (natt == 2 || natt == -1) {
    // (natt = -1: the deprecated multi-parallelogram scheme, method 2)
    // the same values as corrections of the parallelogram scheme under the wrap transform: exactly one value per vertex the traversal reports (the
    // model's count), then the bounds
    long entries = 0;
    for (int x : row["vidx"].ints()) if (x >= 0) ++entries;
    b.Encode((int8_t)(natt == 2 ? 1 : 2)); b.Encode((int8_t)1); b.Encode((uint8_t)0); b.Encode((uint8_t)4);
    for (long i = 0; i < 3 * entries; ++i) b.Encode((int32_t)(2 * (i + 1)));
    b.Encode((int32_t)-50); b.Encode((int32_t)50);
    return std::vector<char>(b.data(), b.data() + b.size());
  }
  b.Encode((int8_t)-2); b.Encode((uint8_t)0); b.Encode((uint8_t)4);
  for (long i = 0; i < 3 * (3 * nf + 6); ++i) b.Encode((int32_t)(2 * (i + 1)));
  return std::vector<char>(b.data(), b.data() + b.size());
}

struct EbStats { long n, agree_rej, emitted; };
// decoded / predicted points of a kd row as [[c0, c1, ..], ..] (first attribute, at most 200 points)
static std::string kd_points(const PointCloud &pc) {
  std::string j = "[";
  if (pc.num_attributes() > 0) {
    const PointAttribute *att = pc.attribute(0);
    for (PointIndex p(0); p < std::min<uint32_t>(pc.num_points(), 200); ++p) {
      int64_t v[16] = {0};
      const int nc = std::min<int>(16, att->num_components());
      if (att->mapped_index(p).value() < att->size()) att->ConvertValue<int64_t>(att->mapped_index(p), nc, v);
      if (p.value()) j += ",";
      j += "[";
      for (int c = 0; c < nc; ++c) { if (c) j += ","; j += std::to_string(v[c]); }
      j += "]";
    }
  }
  return j + "]";
}
static std::string kd_pred(const vrt::J &row, const char *field = "pts") {
  std::string j = "[";
  size_t k = 0;
  for (auto &p : row[field].a) {
    if (k == 200) break;
    if (k++) j += ",";
    j += "[";
    for (size_t c = 0; c < p.a.size(); ++c) { if (c) j += ","; j += std::to_string(p.a[c].n); }
    j += "]";
  }
  return j + "]";
}

// Edgebreaker rows with the position attribute (natt = 1): the assembler stores the symbols 2, 4, 6, ... = the signed values 1, 2, 3, ... -- value k is (3k+1, 3k+2, 3k+3) -- so the
// first component of a point's position names the index of the value the decoder gave it
static std::vector<int> eb_vidx(const Decoded &d, int natt, bool other) {
  std::vector<int> v;
  if (other || natt != 1 || !d.ok || !d.is_mesh || d.pc->num_attributes() < 1) return v;
  const PointAttribute *att = d.pc->attribute(0);
  for (PointIndex p(0); p < std::min<uint32_t>(d.pc->num_points(), 400); ++p) {
    int32_t x[4] = {0, 0, 0, 0};
    if (att->mapped_index(p).value() < att->size()) att->ConvertValue<int32_t>(att->mapped_index(p), std::min<int>(4, att->num_components()), x);
    v.push_back((x[0] - 1) / 3);
  }
  return v;
}

// seamed rows: the second attribute holds one int32 per attribute vertex, value k = k + 1
static std::vector<int> att_vidx(const Decoded &d, int which) {
  std::vector<int> v;
  if (!d.ok || !d.is_mesh || d.pc->num_attributes() <= which) return v;
  const PointAttribute *att = d.pc->attribute(which);
  for (PointIndex p(0); p < std::min<uint32_t>(d.pc->num_points(), 400); ++p) {
    int32_t x = 0;
    if (att->mapped_index(p).value() < att->size()) att->ConvertValue<int32_t>(att->mapped_index(p), 1, &x);
    v.push_back(x - 1);
  }
  return v;
}

static void probe_eb(const vrt::J &row, long index, EbStats *st) {
  const std::string &pred0 = row["out"].s;
  // every row twice: with the position attribute (natt = 1) and without any attribute decoder (natt = 0); the header-only rows and the valence
  // rows that the oracle skipped are probed once
  const int nsm1 = row["mode"].s.empty() ? (int)row["sm"].a.size() : 0;
  const int nsm = nsm1 + (row["mode"].s.empty() ? (int)row["sm2"].a.size() : 0);
  const bool hdrow = row["mode"].s == "hd";
  for (int natt = hdrow ? 1 : 6 + nsm; natt >= (hdrow ? 1 : -1); --natt) {
    if (natt == -1 && row["mpos"].a.empty()) continue;   // the deprecated multi-parallelogram form
    const bool sm = natt >= 7;
    const vrt::J &smr = !sm ? row : (natt - 7 < nsm1 ? row["sm"][natt - 7] : row["sm2"][natt - 7 - nsm1]);
    const std::string &pred = sm ? smr["out"].s : pred0;
    if (natt == 6 && (!row.has("vidx2") || row["vidx2"].a.empty())) continue;   // raw values in the order of the prediction-degree traversal
    if (natt == 2 && row["ppos"].a.empty()) continue;   // the parallelogram form: rows for which the model predicts positions
    if (natt >= 3 && natt <= 5 && (row["cm"].a.size() != 3 || !row["cm"][natt - 3]["err"].s.empty())) continue;   // constrained multi-parallelogram, three flag patterns
    const bool kd = row["mode"].s == "kd";
    const bool ia = row["mode"].s == "ia";
    if (natt == 0 && (row["mode"].s == "lkd" || row["mode"].s == "lkq" || kd || ia)) continue;  // the kd-tree rows have one form only
    if (natt >= 1 && row["npd"].n > 1000) continue;     // index-width rows: the declared point count is the subject, not 25 MB of attribute storage
    bool enc_same = true;
    const std::vector<char> bytes = kd ? assemble_kd(row, &enc_same) : assemble_eb(row, natt);
    std::vector<char> buf(bytes);
    if (getenv("VERIF_DUMP") && natt == (getenv("VERIF_DUMP_NATT") ? atoi(getenv("VERIF_DUMP_NATT")) : 1)) { std::ofstream df(getenv("VERIF_DUMP"), std::ios::binary); df.write(bytes.data(), (std::streamsize)bytes.size()); }
    const uint64_t h0 = vrt::fnv1a(buf.data(), buf.size());
    Decoded d;
    bool tolerated_bad_alloc = false;
    try {
      d = decode(buf.data(), buf.size());
      if (d.ok) touch_everything(*d.pc, d.is_mesh);
    } catch (const std::bad_alloc &) { tolerated_bad_alloc = true; } catch (const std::length_error &) { tolerated_bad_alloc = true; }
    const bool modified = vrt::fnv1a(buf.data(), buf.size()) != h0;
    st->n++;
    if (!d.ok && !modified && !tolerated_bad_alloc && enc_same && pred.compare(0, 4, "rej:") == 0) { st->agree_rej++; continue; }
    st->emitted++;
    std::vector<int> faces;
    if (d.ok && d.is_mesh) faces = faces_of(*d.mesh());
    out.begin("EbProbe").i("row", index).s("mode", row["mode"].s.empty() ? "std" : row["mode"].s).i("natt", natt).s("s", row["s"].s).i("nv", row["nv"].n).i("nf", row["nf"].n).i("nss", row["nss"].n)
        .s("pred", pred).s("pk", pred.substr(0, pred.find(':'))).i("pred_np", sm ? smr["np"].n : row["np"].n)
        .arr("pred_faces", sm ? smr["faces"].ints() : row["faces"].ints())
        .arr("avidx", sm ? att_vidx(d, 1) : std::vector<int>{}).arr("pred_avidx", sm ? smr["avidx"].ints() : std::vector<int>{})
        .arr("avidx2", sm && natt - 7 >= nsm1 ? att_vidx(d, 2) : std::vector<int>{}).arr("pred_avidx2", sm && natt - 7 >= nsm1 ? smr["avidx2"].ints() : std::vector<int>{}).b("ok", d.ok).b("modified", modified).b("bad_alloc", tolerated_bad_alloc)
        .arr("vidx", eb_vidx(d, (natt == 6 || sm) ? 1 : natt, kd || ia)).arr("pred_vidx", sm ? smr["pvidx"].ints() : natt == 6 ? row["vidx2"].ints() : row["vidx"].ints()).s("trav", natt == 6 ? row["trav2"].s : row["trav"].s)
        .b("enc_same", enc_same).raw("pts", (kd || ia || (natt >= 2 && natt <= 5) || natt == -1) && d.ok ? kd_points(*d.pc) : "[]").raw("pred_pts", kd || ia ? kd_pred(row) : natt == 2 ? kd_pred(row, "ppos") : natt == -1 ? kd_pred(row, "mpos") : (natt >= 3 && natt <= 5) ? kd_pred(row["cm"][natt - 3], "pos") : "[]")
        .i("np", d.ok ? (long long)d.pc->num_points() : 0).arr("faces", faces).raw("sv", d.ok ? struct_json(*d.pc, d.is_mesh) : "{\"np\":0,\"nf\":0,\"maxface\":-1,\"atts\":[]}").end();
    fflush(out.f);
  }
}

static std::string first_report(const std::string &errpath, bool *oom) {
  std::string report;
  std::ifstream ef(errpath);
  std::string l;
  while (std::getline(ef, l)) {
    if (l.find("allocator is out of memory") != std::string::npos || l.find("exceeds maximum supported size") != std::string::npos ||
        l.find("std::bad_alloc") != std::string::npos || l.find("std::length_error") != std::string::npos) *oom = true;
    if (report.empty() && (l.find("ERROR: AddressSanitizer") != std::string::npos || l.find("runtime error") != std::string::npos || l.find("TERMINATE") != std::string::npos ||
                           l.find("terminate called") != std::string::npos || l.find("Assertion") != std::string::npos)) report = l.substr(0, 400);
    if (report.size() && l.find(" in draco::") != std::string::npos && report.find(" @ ") == std::string::npos) { const size_t q = l.find(" in draco::"); report += " @ " + l.substr(q + 4, 160); }
  }
  return report;
}

static int run_hostile(const std::string &rowsfile, int shard, int nshards) {
  std::vector<std::string> lines;
  {
    std::ifstream f(rowsfile);
    std::string line;
    long k = 0;
    while (std::getline(f, line)) { if (line.empty()) continue; if (k++ % nshards == shard) lines.push_back(line); }
  }
  g_sh = (Shared *)mmap(nullptr, sizeof(Shared) + sizeof(EbStats), PROT_READ | PROT_WRITE, MAP_SHARED | MAP_ANONYMOUS, -1, 0);
  EbStats *st = (EbStats *)(g_sh + 1);
  std::set_terminate(on_terminate);
  long start = 0, crashes = 0, timeouts = 0;
  const std::string errpath = std::string(getenv("VERIF_RECORDS") ? getenv("VERIF_RECORDS") : "/dev/null") + ".stderr";
  while (start < (long)lines.size()) {
    fflush(out.f); fflush(stdout); fflush(stderr);
    g_sh->idx = start;
    const pid_t pid = fork();
    if (pid == 0) {
      if (getenv("VERIF_RECORDS")) { FILE *ef = freopen(errpath.c_str(), "w", stderr); (void)ef; setvbuf(stderr, nullptr, _IONBF, 0); }
      for (long i = start; i < (long)lines.size(); ++i) {
        g_sh->idx = i;
        arm_limits(20);
        probe_eb(vrt::jparse_line(lines[i]), (long)i * nshards + shard, st);
      }
      arm_limits(0);
      fflush(out.f);
      _exit(0);
    }
    int stt = 0;
    waitpid(pid, &stt, 0);
    if (WIFEXITED(stt) && WEXITSTATUS(stt) == 0) break;
    const long at = g_sh->idx.load();
    const bool timeout = is_timeout_signal(stt);
    bool oom = false;
    const std::string report = first_report(errpath, &oom);
    if (timeout) ++timeouts; else if (!oom) ++crashes;
    const vrt::J row = vrt::jparse_line(lines[at]);
    out.begin("Abnormal").b("oom", oom).s("report", report).s("stream", "model:" + row["s"].s).s("fault", lines[at]).i("len", (long long)(row["mode"].s == "kd" ? assemble_kd(row, nullptr) : assemble_eb(row, 1)).size()).b("timeout", timeout)
        .i("signal", WIFSIGNALED(stt) ? WTERMSIG(stt) : 0).i("exit", WIFEXITED(stt) ? WEXITSTATUS(stt) : -1).s("pred", row["out"].s).end();
    st->n++;
    start = at + 1;
  }
  out.begin("EbBatch").i("shard", shard).i("rows", (long long)lines.size()).i("probed", st->n).i("agree_rej", st->agree_rej).i("emitted", st->emitted).i("crashes", crashes).i("timeouts", timeouts).end();
  fprintf(stderr, "STATS probes=%ld crashes=%ld timeouts=%ld\n", (long)lines.size(), crashes, timeouts);
  return 0;
}

static int run_hostile1(const std::string &rowjson) {
  Shared sh{}; g_sh = &sh;
  EbStats st{};
  probe_eb(vrt::jparse_line(rowjson), 0, &st);
  if (!st.emitted) printf("{\"e\":\"EbAgree\",\"pred\":\"%s\"}\n", vrt::jparse_line(rowjson)["out"].s.c_str());
  return 0;
}

// ---------------------------------------------------------------------------------------------- grammar-generated: nested metadata
// header with METADATA_FLAG, then: varint 0 attribute metadata | D x (varint 0 entries, varint 1 sub-metadata, u8 0 name length) | varint 0, varint 0 | rest of the stream
static std::vector<char> with_nesting(const std::vector<char> &b, long depth) {
  if (b.size() < 11) return b;
  std::vector<char> c(b.begin(), b.begin() + 11);
  c[10] = (char)((unsigned char)c[10] | 0x80);      // flags are little-endian u16 at offset 9: METADATA_FLAG = 0x8000
  c.push_back(0);
  for (long i = 0; i < depth; ++i) { c.push_back(0); c.push_back(1); c.push_back(0); }
  c.push_back(0); c.push_back(0);
  c.insert(c.end(), b.begin() + 11, b.end());
  return c;
}
static int run_nest(const std::string &stream) {
  const std::vector<char> b = slurp(stream);
  static const long depths[] = {0, 1, 2, 999, 1000, 1001, 1002, 5000, 60000, 300000};
  g_sh = (Shared *)mmap(nullptr, sizeof(Shared), PROT_READ | PROT_WRITE, MAP_SHARED | MAP_ANONYMOUS, -1, 0);
  std::set_terminate(on_terminate);
  const std::string errpath = std::string(getenv("VERIF_RECORDS") ? getenv("VERIF_RECORDS") : "/dev/null") + ".stderr";
  long crashes = 0, timeouts = 0, n = 0;
  for (long depth : depths) {
    ++n;
    fflush(out.f); fflush(stdout); fflush(stderr);
    const std::vector<char> bytes = with_nesting(b, depth);
    const pid_t pid = fork();
    if (pid == 0) {
      if (getenv("VERIF_RECORDS")) { FILE *ef = freopen(errpath.c_str(), "w", stderr); (void)ef; setvbuf(stderr, nullptr, _IONBF, 0); }
      alarm(60);
      int rc = 41;
      {
        std::vector<char> buf(bytes);
        Decoded d = decode(buf.data(), buf.size());
        if (d.ok) { touch_everything(*d.pc, d.is_mesh); rc = 40; }
      }   // the decoded geometry (and its metadata tree) is destroyed here
      _exit(rc);
    }
    int st = 0;
    waitpid(pid, &st, 0);
    const bool normal = WIFEXITED(st) && (WEXITSTATUS(st) == 40 || WEXITSTATUS(st) == 41);
    if (normal) {
      out.begin("Nest").s("stream", stream).i("depth", depth).i("len", (long long)bytes.size()).b("ok", WEXITSTATUS(st) == 40).end();
    } else {
      const bool timeout = is_timeout_signal(st);
      bool oom = false;
      const std::string report = first_report(errpath, &oom);
      if (timeout) ++timeouts; else ++crashes;
      out.begin("Abnormal").b("oom", false).s("report", report.empty() ? "signal / abnormal exit while decoding or destroying nested metadata" : report).s("stream", stream)
          .s("fault", "nest:" + std::to_string(depth)).i("len", (long long)bytes.size()).b("timeout", timeout).i("signal", WIFSIGNALED(st) ? WTERMSIG(st) : 0)
          .i("exit", WIFEXITED(st) ? WEXITSTATUS(st) : -1).end();
    }
  }
  fprintf(stderr, "STATS probes=%ld crashes=%ld timeouts=%ld\n", n, crashes, timeouts);
  return 0;
}

static int run_one(const std::string &stream, const std::string &desc) {
  Fault f{8, 0, 0, 0};
  sscanf(desc.c_str(), "%d:%ld:%lld:%lld", &f.kind, &f.off, &f.a, &f.b);
  const std::vector<char> b = slurp(stream);
  Shared sh{}; g_sh = &sh;
  verif::DeclareSink() = on_declare;
#ifdef VERIF_ALLOC_SHIM
  const bool want_allocs = true;
#else
  const bool want_allocs = false;
#endif
  // a splice needs the corpus; replay it from the directory of the stream
  std::vector<std::vector<char>> all;
  if (f.kind == 7) {
    const std::string dir = stream.substr(0, stream.find_last_of('/'));
    std::ifstream idx(dir + "/index.ndjson");
    std::string line;
    while (std::getline(idx, line)) if (!line.empty()) all.push_back(slurp(dir + "/" + vrt::jparse_line(line)["file"].s));
  }
  g_emitted_ok = 0;
  probe(stream, apply(b, f, &all), f, 0, want_allocs, -2);
  return 0;
}

// Valid kD-tree clouds of 4 points with A attributes of 255 uint8 components each (the encoder's own output): how much the decoder allocates for them.
static int run_widekd() {
  Shared sh{}; g_sh = &sh;
  verif::DeclareSink() = on_declare;
#ifdef VERIF_ALLOC_SHIM
  const bool want_allocs = true;
#else
  const bool want_allocs = false;
#endif
  for (int A : {1, 2, 3, 8}) {
    PointCloud pc;
    const int np = 4;
    pc.set_num_points(np);
    for (int a = 0; a < A; ++a) {
      GeometryAttribute ga;
      ga.Init(a == 0 ? GeometryAttribute::POSITION : GeometryAttribute::GENERIC, nullptr, 255, DT_UINT8, false, 255, 0);
      const int id = pc.AddAttribute(ga, true, np);
      for (int i = 0; i < np; ++i) { uint8_t v[255]; for (int c = 0; c < 255; ++c) v[c] = (uint8_t)(i * 7 + c + a); pc.attribute(id)->SetAttributeValue(AttributeValueIndex(i), v); }
    }
    Encoder enc;
    enc.SetEncodingMethod(POINT_CLOUD_KD_TREE_ENCODING);
    enc.SetSpeedOptions(5, 5);
    EncoderBuffer eb;
    if (!enc.EncodePointCloudToBuffer(pc, &eb).ok()) continue;
    g_emitted_ok = 0;
    probe("wide-kd:" + std::to_string(A) + "x255", std::vector<char>(eb.data(), eb.data() + eb.size()), Fault{8, 0, 0, 0}, 0, want_allocs, -2);
  }
  return 0;
}

// Nested metadata in which every level announces about as many sub-metadata as the stream has bytes left (each single count passes the decoder's
// "not more than the remaining input" test): header of a sequential cloud with the metadata flag, no attribute metadata, root and L levels of
// (name length 0, 0 entries, varint R sub-metadata), P zero bytes.  Probed with the allocation accounting.
static int run_fatnest() {
  Shared sh{}; g_sh = &sh;
  verif::DeclareSink() = on_declare;
#ifdef VERIF_ALLOC_SHIM
  const bool want_allocs = true;
#else
  const bool want_allocs = false;
#endif
  // first: valid sequential clouds of 4000 points whose one attribute has 120 (60, 255) uint8 / int32 components -- the encoder's own streams; what the
  // decoder allocates for them is judged against the declared points x components
  for (int comps : {60, 120, 255}) {
    for (int wide = 0; wide < 2; ++wide) {
      PointCloud pc;
      const int np = 4000;
      pc.set_num_points(np);
      GeometryAttribute ga;
      ga.Init(GeometryAttribute::GENERIC, nullptr, comps, wide ? DT_INT32 : DT_UINT8, false, comps * (wide ? 4 : 1), 0);
      const int id = pc.AddAttribute(ga, true, np);
      std::vector<int32_t> v32(comps); std::vector<uint8_t> v8(comps);
      for (int i = 0; i < np; ++i) {
        for (int c = 0; c < comps; ++c) { v8[c] = (uint8_t)((i + c) % 5); v32[c] = (i * 3 + c) % 7 - 3; }
        pc.attribute(id)->SetAttributeValue(AttributeValueIndex(i), wide ? (const void *)v32.data() : (const void *)v8.data());
      }
      Encoder enc;
      enc.SetEncodingMethod(POINT_CLOUD_SEQUENTIAL_ENCODING);
      enc.SetSpeedOptions(7, 7);
      EncoderBuffer eb;
      if (!enc.EncodePointCloudToBuffer(pc, &eb).ok()) continue;
      g_emitted_ok = 0;
      probe("wide-seq:" + std::to_string(comps) + (wide ? "xint32" : "xuint8"), std::vector<char>(eb.data(), eb.data() + eb.size()), Fault{8, 0, 0, 0}, 0, want_allocs, -2);
    }
  }
  static const long cases[][3] = {{4000, 990, 5000}, {19000, 900, 20000}, {190000, 900, 200000}, {900, 50, 1000}, {60000, 3, 61000}};
  for (auto &cs : cases) {
    EncoderBuffer b;
    b.Encode("DRACO", 5);
    b.Encode((uint8_t)2); b.Encode((uint8_t)2); b.Encode((uint8_t)0); b.Encode((uint8_t)0); b.Encode((uint16_t)0x8000);
    EncodeVarint<uint32_t>(0, &b);
    EncodeVarint<uint32_t>(0, &b); EncodeVarint<uint32_t>((uint32_t)cs[0], &b);
    for (long l = 0; l < cs[1]; ++l) { b.Encode((uint8_t)0); EncodeVarint<uint32_t>(0, &b); EncodeVarint<uint32_t>((uint32_t)cs[0], &b); }
    std::vector<char> bytes(b.data(), b.data() + b.size());
    bytes.insert(bytes.end(), (size_t)cs[2], (char)0);
    g_emitted_ok = 0;
    probe("fat-nest:" + std::to_string(cs[0]) + "x" + std::to_string(cs[1]), bytes, Fault{8, 0, 0, 0}, 0, want_allocs, -2);
  }
  return 0;
}

int main(int argc, char **argv) {
  if (getenv("VERIF_RECORDS")) { out.f = fopen(getenv("VERIF_RECORDS"), "w"); if (!out.f) return 2; }
  if (argc >= 7 && !strcmp(argv[1], "sweep")) return run_sweep(argv[2], atoi(argv[3]), atoi(argv[4]), atoi(argv[5]), strtoull(argv[6], 0, 10));
  if (argc >= 4 && !strcmp(argv[1], "one")) return run_one(argv[2], argv[3]);
  if (argc >= 2 && !strcmp(argv[1], "widekd")) return run_widekd();
  if (argc >= 2 && !strcmp(argv[1], "fatnest")) return run_fatnest();
  if (argc >= 5 && !strcmp(argv[1], "hostile")) return run_hostile(argv[2], atoi(argv[3]), atoi(argv[4]));
  if (argc >= 3 && !strcmp(argv[1], "hostile1")) return run_hostile1(argv[2]);
  if (argc >= 3 && !strcmp(argv[1], "nest")) return run_nest(argv[2]);
  fprintf(stderr, "usage: drv_fault sweep <corpus> <shard> <nshards> <level> <seed> | one <stream> <fault>\n");
  return 2;
}
