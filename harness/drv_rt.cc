// Round-trip driver (C01 / C03 / C06 / C09 / C10): encodes geometries with the real encoder, decodes them normally,
// a second time, with trailing bytes and with the attribute transform skipped, and writes one "RT" record per case
// with the projections the Level-A relations of spec/Geometry.tla need.   BUILD-KINDS: plain
//   drv_rt random <seed> <n> [flags]       seeded random meshes / point clouds x random option sets
//   drv_rt small  <maxfaces> <seed> <stride>   every canonical triangle list of <= maxfaces faces over 5 position ids, without and with a
//                                          per-corner attribute over 2 values (seam masks), x a covering set of option rows;
//                                          every stride-th case (seeded) is emitted, all are run
//   flags: handles (wrapped grids with holes: handles + boundary loops, see GenParams), nodedup (keep duplicate points: finding F10), intnormals (integer NORMAL attributes: finding F9), big
#include <fstream>
#include "geom.h"
using namespace draco;
using namespace vg;
static vrt::Out out;
static long long n_cases = 0, n_emit = 0, n_enc_fail = 0;

struct Proj { std::string atts, pt; std::vector<int> faces; int np = 0; };

// attributes sorted by unique id; ids from the shared dictionaries
static std::vector<int> order_by_uid(const PointCloud &pc) {
  std::vector<int> idx(pc.num_attributes());
  for (int a = 0; a < pc.num_attributes(); ++a) idx[a] = a;
  std::sort(idx.begin(), idx.end(), [&](int a, int b) { return pc.attribute(a)->unique_id() < pc.attribute(b)->unique_id(); });
  return idx;
}

// ---------------------------------------------------------------------------------------------- the skip-transform view (C10)
// d1: the ordinary decode of a stream, ds: the decode of the same stream with the transforms of the types in `skip` skipped.
struct SkipView { std::string sk; int skip_missing = 0; bool rest_same = true; std::string rest_why; };
static long long n_views = 0;
template <class QuantisedFn>
static SkipView skip_view(const Decoded &d1, const Decoded &ds, const std::vector<GeometryAttribute::Type> &skip, QuantisedFn quantised_by_encoder) {
  ++n_views;
  SkipView v;
  std::string &sk = v.sk;
  int &skip_missing = v.skip_missing;
  bool &rest_same = v.rest_same;
  std::string &rest_why = v.rest_why;
  sk = "[";
  if (d1.ok && ds.ok && !skip.empty()) {
    const PointCloud &np_ = *d1.pc, &sp = *ds.pc;
    rest_same = np_.num_points() == sp.num_points() && np_.num_attributes() == sp.num_attributes();
    if (!rest_same) rest_why += "counts ";
    if (d1.is_mesh && faces_of(*d1.mesh()) != faces_of(*ds.mesh())) { rest_same = false; rest_why += "faces "; }
    bool first = true;
    for (int a = 0; a < np_.num_attributes() && a < sp.num_attributes(); ++a) {
      const PointAttribute *na = np_.attribute(a);
      const bool skipped_type = std::find(skip.begin(), skip.end(), na->attribute_type()) != skip.end();
      const PointAttribute *sa_pos = sp.attribute(a);
      const bool has_transform = sa_pos->GetAttributeTransformData() != nullptr;
      // an attribute that the ENCODER quantised (float32 with quantisation bits in effect) and whose type is skipped must come back as integers
      // with a transform description: "it decoded to the same floats" is not what the option promises
      if (skipped_type && !has_transform && quantised_by_encoder(na->unique_id())) ++skip_missing;
      if (!has_transform) {
        // Attribute without transform data.  If its type is not skipped it must be identical in both decodes.  If its type IS skipped and it
        // is an integer attribute, the decoder by design hands out its portable (int32) form: same unique id, same components, numerically
        // equal values (there is no transform to describe).
        bool same = na->unique_id() == sa_pos->unique_id() && na->num_components() == sa_pos->num_components();
        if (!skipped_type) same = same && na->data_type() == sa_pos->data_type();
        for (PointIndex p(0); p < np_.num_points() && same; ++p) {
          if (na->data_type() == sa_pos->data_type()) same = raw_key(na, p) == raw_key(sa_pos, p);
          else {
            int64_t x[8] = {0}, y[8] = {0};
            const int ncmp = std::min<int>(8, na->num_components());
            na->ConvertValue<int64_t>(na->mapped_index(p), ncmp, x);
            sa_pos->ConvertValue<int64_t>(sa_pos->mapped_index(p), ncmp, y);
            for (int c = 0; c < ncmp; ++c) same = same && x[c] == y[c];
          }
        }
        if (!same) { rest_same = false; rest_why += "att" + std::to_string(a) + " "; }
      }
      if (!has_transform) continue;
      const PointAttribute *sa = find_by_uid(sp, na->unique_id());
      // (streams older than 1.3 carry no unique ids: every attribute reads 0 in the ordinary decode as well -- there the attribute at the same
      // position with the same id is the one)
      const bool uid_found = sa != nullptr && sa_pos->unique_id() == na->unique_id() && (sa == sa_pos || find_by_uid(np_, na->unique_id()) != na);
      // rebuild the original-format values from the portable ints with the DESCRIBED transform (public API)
      std::vector<int> nids, rids;
      bool portable = true;
      Dict dict;
      std::unique_ptr<PointAttribute> rebuilt(new PointAttribute());
      const AttributeTransformData *td = sa_pos->GetAttributeTransformData();
      bool rebuilt_ok = false;
      if (td->transform_type() == ATTRIBUTE_QUANTIZATION_TRANSFORM) {
        // every second case reads the description into ONE transform object that has read all earlier descriptions (other bit counts, other
        // component counts): what it describes is the attribute at hand, not a mix with what it described before
        static AttributeQuantizationTransform reused_t;
        AttributeQuantizationTransform fresh_t;
        AttributeQuantizationTransform &t = (n_views % 2) ? reused_t : fresh_t;
        if (t.InitFromAttribute(*sa_pos)) { rebuilt->Init(na->attribute_type(), na->num_components(), DT_FLOAT32, false, sa_pos->size()); rebuilt_ok = t.InverseTransformAttribute(*sa_pos, rebuilt.get()); }
      } else if (td->transform_type() == ATTRIBUTE_OCTAHEDRON_TRANSFORM) {
        static AttributeOctahedronTransform reused_o;
        AttributeOctahedronTransform fresh_o;
        AttributeOctahedronTransform &t = (n_views % 2) ? reused_o : fresh_o;
        if (t.InitFromAttribute(*sa_pos)) { rebuilt->Init(na->attribute_type(), 3, DT_FLOAT32, false, sa_pos->size()); rebuilt_ok = t.InverseTransformAttribute(*sa_pos, rebuilt.get()); }
      }
      portable = rebuilt_ok && (sa_pos->data_type() == DT_INT32 || sa_pos->data_type() == DT_UINT32);
      for (PointIndex p(0); p < np_.num_points(); ++p) {
        nids.push_back(dict.id(raw_key(na, p)));
        if (rebuilt_ok) {
          const AttributeValueIndex avi = sa_pos->mapped_index(p);
          std::string k((size_t)rebuilt->byte_stride(), '\0');
          rebuilt->GetValue(avi, &k[0]);
          rids.push_back(dict.id(k));
        }
      }
      if (!first) sk += ",";
      first = false;
      sk += "{\"uid\":" + std::to_string(na->unique_id()) + ",\"uid_found\":" + (uid_found ? "true" : "false") + ",\"portable\":" + (portable ? "true" : "false") +
            ",\"normal\":" + jarr(nids) + ",\"rebuilt\":" + jarr(rids) + "}";
    }
  }
  sk += "]";
  return v;
}

static void run_case(const Geom &g, const Opt &o, bool emit, int big_threshold) {
  ++n_cases;
  const PointCloud &in = *g.pc;
  if (getenv("VERIF_TRACE_CASES")) fprintf(stderr, "case %lld %s %s np=%d natt=%d method=%d es=%d pred=%d builtin=%d\n", n_cases, g.is_mesh ? "mesh" : "pc", g.shape.c_str(), (int)in.num_points(), in.num_attributes(), o.method, o.es, o.pred, (int)o.builtin);
  Encoded e1 = encode(g, o);
  if (!e1.ok) ++n_enc_fail;
  if (!emit && e1.ok) {
    // still run the decode so that crashes / sanitizer reports surface, but write nothing
    Decoded d = decode(e1.bytes.data(), e1.bytes.size());
    (void)d;
    return;
  }
  ++n_emit;
  // a second, independent encode of the same input with the same settings on objects with another past: a fresh Encoder where the first one was reused
  // after Reset() (and the other way round), a buffer that has served a size-prefixed bit sequence, an Encoder that first received rejected requests
  Opt o2 = o; o2.history = true; o2.reuse_enc = !o.reuse_enc;
  Encoded e2 = encode(g, o2);
  const std::string m = !e1.ok || e1.bytes.size() < 9 ? "none" : (g.is_mesh ? (e1.bytes[8] == 1 ? "eb" : "seq") : (e1.bytes[8] == 1 ? "kd" : "seq"));
  out.begin("RT").i("case", n_cases).s("gt", g.is_mesh ? "mesh" : "pc").s("shape", g.shape).s("m", m).i("sub", o.submethod).i("es", o.es).i("ds", o.ds)
      .b("builtin", o.builtin).i("split", o.split).i("pred", o.pred).arr("qbits", o.qbits).b("expert", o.expert)
      .b("eok", e1.ok).s("err", e1.err).i("bytes", (long long)e1.bytes.size());
  {  // input class of finding F20: sequential mesh, compressed connectivity, and fewer than 3 stream bytes per face left behind the two counts
     // (facts about the options and the stream; the decoder's "faces <= remaining bytes / 3" plausibility guard assumes stored indices)
    auto vlen = [](uint64_t x) { int n = 1; while (x >= 128) { x >>= 7; ++n; } return n; };
    bool short3 = false;
    if (e1.ok && g.is_mesh && m == "seq") {
      const uint64_t nf = g.mesh()->num_faces(), np = in.num_points();
      const long long rem = (long long)e1.bytes.size() - 11 - vlen(nf) - vlen(np);
      short3 = (long long)nf > rem / 3;
    }
    out.b("cc", o.compress_conn).b("short3", short3);
  }
  {  // input class flag: two points with identical value indices in every attribute (points not deduplicated; finding F10)
    std::set<std::vector<uint32_t>> seen;
    bool dup = false;
    for (PointIndex p(0); p < in.num_points() && !dup; ++p) {
      std::vector<uint32_t> t;
      for (int a = 0; a < in.num_attributes(); ++a) t.push_back(in.attribute(a)->mapped_index(p).value());
      dup = !seen.insert(t).second;
    }
    out.b("dup_points", dup);
  }
  out.raw("h_enc1", h64(vrt::fnv1a(e1.bytes.data(), e1.bytes.size()))).raw("h_enc2", h64(vrt::fnv1a(e2.bytes.data(), e2.bytes.size())));
  Decoded d1, d2, dt, ds;
  const std::vector<char> before = e1.bytes;
  if (e1.ok) {
    d1 = decode(e1.bytes.data(), e1.bytes.size());
    d2 = decode(e1.bytes.data(), e1.bytes.size());
  }
  // bytes appended behind the stream for the trailing-data decode: a few, or (every fifth case, and for the clouds that compress to less than a byte
  // per point) more than the geometry has points and faces, so that no "declared count <= bytes left" plausibility test depends on them
  const long long elems = (long long)in.num_points() + (g.is_mesh ? (long long)g.mesh()->num_faces() * 3 : 0);
  const int trail = (n_cases % 5 == 0 || g.shape == "flat-cloud") && elems < 2000000 ? (int)(elems * 2 + 64) : 7;
  std::vector<char> tb = e1.bytes;
  for (int i = 0; i < trail; ++i) tb.push_back((char)(0xA5 ^ (i * 37)));
  if (e1.ok) dt = decode(tb.data(), tb.size());
  std::vector<GeometryAttribute::Type> skip;
  for (int a = 0; a < in.num_attributes(); ++a)
    if (o.qbits.size() > (size_t)a && o.qbits[a] > 0) skip.push_back(in.attribute(a)->attribute_type());
  std::sort(skip.begin(), skip.end()); skip.erase(std::unique(skip.begin(), skip.end()), skip.end());
  if (n_cases % 3 == 1) std::reverse(skip.begin(), skip.end());      // the order of the SetSkipAttributeTransform calls is the caller's business
  else if (n_cases % 3 == 2 && skip.size() > 2) std::swap(skip[0], skip[1]);
  if (e1.ok) ds = decode(e1.bytes.data(), e1.bytes.size(), skip);
  out.b("dok", d1.ok).s("derr", d1.err).b("input_unchanged", before == e1.bytes);
  out.raw("h_dec1", h64(d1.ok ? geom_digest(*d1.pc, d1.is_mesh) : 1)).raw("h_dec2", h64(d2.ok ? geom_digest(*d2.pc, d2.is_mesh) : 2))
      .raw("h_dec_trail", h64(dt.ok ? geom_digest(*dt.pc, dt.is_mesh) : 3)).b("trailok", dt.ok).i("trail", trail).i("remaining", dt.remaining).i("remaining0", d1.remaining);
  out.i("rp", e1.reported_points).i("rf", e1.reported_faces).i("dp", d1.ok ? d1.pc->num_points() : -1).i("df", d1.ok && d1.is_mesh ? d1.mesh()->num_faces() : (d1.ok ? 0 : -1));
  out.raw("sv", d1.ok ? struct_json(*d1.pc, d1.is_mesh) : "{\"np\":0,\"nf\":0,\"maxface\":-1,\"atts\":[]}");
  {  // a decoder on which the skip flag of every type was set and then cleared again (Decoder::options(), value false): nothing is skipped, the decode
     // is the ordinary one -- the option's VALUE decides, not its presence
    bool cleared_same = true;
    if (e1.ok && d1.ok && !skip.empty()) {
      Decoder dc;
      for (auto t : skip) dc.SetSkipAttributeTransform(t);
      for (auto t : skip) dc.options()->SetAttributeBool(t, "skip_attribute_transform", false);
      DecoderBuffer db; db.Init(e1.bytes.data(), e1.bytes.size());
      uint64_t hc = 4;
      if (d1.is_mesh) { Mesh m; if (dc.DecodeBufferToGeometry(&db, &m).ok()) hc = geom_digest(m, true); }
      else { PointCloud p; if (dc.DecodeBufferToGeometry(&db, &p).ok()) hc = geom_digest(p, false); }
      cleared_same = hc == geom_digest(*d1.pc, d1.is_mesh);
    }
    out.b("cleared_same", cleared_same);
  }
  {  // (a) two copies of the stream back to back in ONE DecoderBuffer: type query + decode, twice -- the second stream is read from where the first ended,
     // both decode to the geometry of the single stream and the buffer ends up empty.  (b) the stream cut short (by 1, 2, 5 bytes, in the middle) and decoded
     // from two allocations that differ only in what lies BEHIND the declared size: the outcome is a function of (data, size) alone.
    bool chain_ok = true, trunc_same = true;
    if (e1.ok && d1.ok) {
      std::vector<char> cat(e1.bytes);
      cat.insert(cat.end(), e1.bytes.begin(), e1.bytes.end());
      DecoderBuffer db; db.Init(cat.data(), cat.size());
      Decoder dc;
      const uint64_t want = geom_digest(*d1.pc, d1.is_mesh);
      for (int k = 0; k < 2 && chain_ok; ++k) {
        auto t = Decoder::GetEncodedGeometryType(&db);
        if (!t.ok() || (t.value() == TRIANGULAR_MESH) != d1.is_mesh) { chain_ok = false; break; }
        uint64_t h = 5;
        if (d1.is_mesh) { Mesh m; if (dc.DecodeBufferToGeometry(&db, &m).ok()) h = geom_digest(m, true); }
        else { PointCloud pc; if (dc.DecodeBufferToGeometry(&db, &pc).ok()) h = geom_digest(pc, false); }
        chain_ok = h == want;
      }
      chain_ok = chain_ok && db.remaining_size() == 0;
      const long L = (long)e1.bytes.size();
      for (long cut : {L - 1, L - 2, L - 5, L / 2}) {
        if (cut < 1) continue;
        std::vector<char> a(e1.bytes.begin(), e1.bytes.begin() + cut), b(a);
        a.insert(a.end(), 64, (char)0x00); b.insert(b.end(), 64, (char)0xFF);
        Decoded da = decode(a.data(), (size_t)cut), dbb = decode(b.data(), (size_t)cut);
        if (da.ok != dbb.ok || (da.ok && geom_digest(*da.pc, da.is_mesh) != geom_digest(*dbb.pc, dbb.is_mesh))) trunc_same = false;
      }
    }
    out.b("chain_ok", chain_ok).b("trunc_same", trunc_same);
  }
  out.b("skipok", ds.ok).raw("sv2", ds.ok ? struct_json(*ds.pc, ds.is_mesh) : "{\"np\":0,\"nf\":0,\"maxface\":-1,\"atts\":[]}");

  // ---- projection of input and output (C01)
  const bool big = (int)in.num_points() > big_threshold || (g.is_mesh && (int)g.mesh()->num_faces() > big_threshold);
  out.b("big", big);
  std::string in_atts = "[", out_atts = "[", in_pt = "[", out_pt = "[";
  std::vector<std::vector<int>> in_ids, out_ids;
  if (d1.ok) {
    const PointCloud &op = *d1.pc;
    const std::vector<int> io = order_by_uid(in), oo = order_by_uid(op);
    for (size_t j = 0; j < io.size(); ++j) {
      const PointAttribute *ia = in.attribute(io[j]);
      const PointAttribute *oa = j < oo.size() ? op.attribute(oo[j]) : nullptr;
      // the skip-transform decode of the same stream has the same attribute order as the normal decode
      const PointAttribute *sa = (ds.ok && oa && oo[j] < ds.pc->num_attributes()) ? ds.pc->attribute(oo[j]) : nullptr;
      const bool quant = sa && sa->GetAttributeTransformData() != nullptr && oa && oa->unique_id() == ia->unique_id();
      Dict dict;
      std::vector<int> a_in, a_out;
      for (PointIndex p(0); p < in.num_points(); ++p) {
        std::string k;
        if (!(quant && expected_portable_key(ia, p, sa, &k))) k = raw_key(ia, p);
        a_in.push_back(dict.id(k));
      }
      if (oa)
        for (PointIndex p(0); p < op.num_points(); ++p) a_out.push_back(dict.id(quant ? portable_key(sa, p) : raw_key(oa, p)));
      in_ids.push_back(a_in); out_ids.push_back(a_out);
      if (j) { in_atts += ","; in_pt += ","; }
      in_atts += att_desc_json(ia, quant);
      in_pt += jarr(a_in);
    }
    for (size_t j = 0; j < oo.size(); ++j) {
      const PointAttribute *oa = op.attribute(oo[j]);
      const PointAttribute *sa = (ds.ok && oo[j] < ds.pc->num_attributes()) ? ds.pc->attribute(oo[j]) : nullptr;
      const bool quant = sa && sa->GetAttributeTransformData() != nullptr && j < io.size() && in.attribute(io[j])->unique_id() == oa->unique_id();
      if (j) { out_atts += ","; out_pt += ","; }
      out_atts += att_desc_json(oa, quant);
      out_pt += j < out_ids.size() ? jarr(out_ids[j]) : "[]";
    }
  }
  in_atts += "]"; out_atts += "]"; in_pt += "]"; out_pt += "]";
  const std::vector<int> in_faces = g.is_mesh ? faces_of(*g.mesh()) : std::vector<int>{};
  const std::vector<int> out_faces = d1.ok && d1.is_mesh ? faces_of(*d1.mesh()) : std::vector<int>{};
  if (!big) {
    out.raw("in", "{\"np\":" + std::to_string(in.num_points()) + ",\"faces\":" + jarr(in_faces) + ",\"atts\":" + in_atts + ",\"pt\":" + in_pt + "}");
    out.raw("out", "{\"np\":" + std::to_string(d1.ok ? d1.pc->num_points() : 0) + ",\"faces\":" + jarr(out_faces) + ",\"atts\":" + out_atts + ",\"pt\":" + out_pt + "}");
    out.raw("in_atts", "[]").raw("out_atts", "[]").raw("in_h", "[]").raw("out_h", "[]");
  } else {
    // hash lists: per triangle (rotation-canonical over corner id tuples) for meshes, per point for clouds; in stream order for the
    // sequential methods, sorted otherwise.  Big cases are generated without position-degenerate faces.
    auto tuple_of = [&](const std::vector<std::vector<int>> &ids, int p) { std::vector<int> t; for (auto &a : ids) t.push_back(p < (int)a.size() ? a[p] : -1); return t; };
    auto tri_hash = [&](const std::vector<std::vector<int>> &ids, const std::vector<int> &faces, int f, bool canon) {
      std::vector<std::vector<int>> c = {tuple_of(ids, faces[3 * f]), tuple_of(ids, faces[3 * f + 1]), tuple_of(ids, faces[3 * f + 2])};
      int best = 0;
      if (canon) for (int r = 1; r < 3; ++r) { std::vector<std::vector<int>> a = {c[r], c[(r + 1) % 3], c[(r + 2) % 3]}, b = {c[best], c[(best + 1) % 3], c[(best + 2) % 3]}; if (a < b) best = r; }
      uint64_t h = 1469598103934665603ull;
      for (int r = 0; r < 3; ++r) { auto &t = c[(best + r) % 3]; h = vrt::fnv1a(t.data(), t.size() * sizeof(int), h); }
      return (int)(h & 0x3FFFFFFF);
    };
    std::vector<int> hi, ho, hnd;
    const bool ordered = m == "seq";
    // position id list (index of the POSITION attribute among the uid-sorted attributes)
    int pos_j = -1;
    { const std::vector<int> io2 = order_by_uid(in); for (size_t j = 0; j < io2.size(); ++j) if (in.attribute(io2[j])->attribute_type() == GeometryAttribute::POSITION && pos_j < 0) pos_j = (int)j; }
    if (g.is_mesh) {
      for (int f = 0; f < (int)in_faces.size() / 3; ++f) {
        const int hsh = tri_hash(in_ids, in_faces, f, !ordered);
        hi.push_back(hsh);
        bool deg = false;
        if (pos_j >= 0 && pos_j < (int)in_ids.size()) {
          const int a = in_ids[pos_j][in_faces[3 * f]], b = in_ids[pos_j][in_faces[3 * f + 1]], c = in_ids[pos_j][in_faces[3 * f + 2]];
          deg = a == b || a == c || b == c;
        }
        if (!deg) hnd.push_back(hsh);
      }
      for (int f = 0; f < (int)out_faces.size() / 3; ++f) ho.push_back(tri_hash(out_ids, out_faces, f, !ordered));
    }
    if (!g.is_mesh || ordered) {
      for (int p = 0; p < (int)in.num_points(); ++p) { auto t = tuple_of(in_ids, p); hi.push_back((int)(vrt::fnv1a(t.data(), t.size() * sizeof(int)) & 0x3FFFFFFF)); }
      if (d1.ok) for (int p = 0; p < (int)d1.pc->num_points(); ++p) { auto t = tuple_of(out_ids, p); ho.push_back((int)(vrt::fnv1a(t.data(), t.size() * sizeof(int)) & 0x3FFFFFFF)); }
      hnd = hi;
    }
    if (!ordered) { std::sort(hi.begin(), hi.end()); std::sort(ho.begin(), ho.end()); std::sort(hnd.begin(), hnd.end()); }
    // Edgebreaker MAY drop position-degenerate triangles: in_nd (all non-degenerate) <= out <= in (multiset inclusion).  TLC decides the
    // two exact cases (out = in_nd, out = in); for a partial omission the merge-based inclusion test below is reported as `between`.
    const bool between = !ordered && std::includes(ho.begin(), ho.end(), hnd.begin(), hnd.end()) && std::includes(hi.begin(), hi.end(), ho.begin(), ho.end());
    out.raw("in", "{}").raw("out", "{}").raw("in_atts", in_atts).raw("out_atts", out_atts).raw("in_h", jarr(hi)).raw("out_h", jarr(ho));
    out.raw("in_nd_h", jarr(hnd)).b("between", between);
  }
  if (!big) out.raw("in_nd_h", "[]").b("between", false);

  // ---- skip-transform view (C10)
  const SkipView sview = skip_view(d1, ds, skip, [&](uint32_t uid) {
    int ia = -1;
    for (int k = 0; k < in.num_attributes(); ++k) if (in.attribute(k)->unique_id() == uid) ia = k;
    if (ia < 0 || in.attribute(ia)->data_type() != DT_FLOAT32) return false;
    int eff = ia;   // the type-keyed Encoder API: the first attribute of the type decides for all of them
    if (!o.expert) for (int k = 0; k < in.num_attributes(); ++k) if (in.attribute(k)->attribute_type() == in.attribute(ia)->attribute_type()) { eff = k; break; }
    return (size_t)eff < o.qbits.size() && o.qbits[eff] > 0;
  });
  const std::string &sk = sview.sk;
  const int skip_missing = sview.skip_missing;
  const bool rest_same = sview.rest_same;
  const std::string &rest_why = sview.rest_why;
  out.raw("skip", sk).i("skip_missing", skip_missing).b("skip_rest_same", rest_same).s("skip_rest_why", rest_why);
  out.end();
}

// ---------------------------------------------------------------------------------------------- modes
static bool g_expdims = false;
static bool g_handles = false;
static int run_random(uint64_t seed, long n, bool nodedup, bool intnormals, bool bigmode) {
  vrt::Rng r(seed);
  GenParams gp;
  gp.handles = g_handles;
  gp.dedup = !nodedup;
  gp.normals_float_only = !intnormals;
  for (long i = 0; i < n; ++i) {
    GenParams p = gp;
    if (bigmode) { p.max_points = 3000; p.max_faces = 6000; }
    else if (g_expdims && r.coin(1, 6)) { p.max_points = 1500; p.max_faces = 2600; }     // determinism campaign: meshes on both sides of 1000 faces
    else if (r.coin(1, 10)) { p.max_points = 400; p.max_faces = 800; }
    const bool mesh = g_handles || r.coin(2, 3);
    Geom g = gen_geometry(r, mesh, p);
    Opt o = gen_options(r, g);
    if (g_handles && o.method == 0 && r.coin(3, 4)) o.method = 1;     // the family is about Edgebreaker traversals
    // Quantising an attribute of an EMPTY geometry crashes the encoder (AttributeQuantizationTransform::ComputeParameters reads
    // value 0 of an attribute with a null buffer): an encoder robustness issue outside the listed properties (C01 starts from
    // "encoding reports success"); recorded in DESIGN.md §7 as an observation, avoided here.
    if (g.pc->num_points() == 0) { for (auto &q : o.qbits) q = 0; if (!mesh) o.method = 0; }
    if (!mesh && o.method == 1) {   // kd-tree wants integer or quantised attributes: make that likely
      for (int a = 0; a < g.pc->num_attributes(); ++a) if (g.pc->attribute(a)->data_type() == DT_FLOAT32 && o.qbits[a] == 0) o.qbits[a] = r.range(2, 16);
    }
    if (g_expdims && o.expert) {   // explicit quantisation that names fewer dimensions than the attribute has (determinism campaign only)
      for (int a = 0; a < g.pc->num_attributes(); ++a) if (g.pc->attribute(a)->data_type() == DT_FLOAT32 && g.pc->attribute(a)->num_components() >= 2 && r.coin()) { o.explicit_att = a; o.explicit_dims = r.range(1, g.pc->attribute(a)->num_components() - 1); break; }
    }
    if (getenv("VERIF_ONLY_CASE") && atoll(getenv("VERIF_ONLY_CASE")) != n_cases + 1) { ++n_cases; continue; }
    // a process that starts in the middle of the campaign: the cases are generated (same random stream) but nothing is encoded before case N
    if (getenv("VERIF_FROM_CASE") && n_cases + 1 < atoll(getenv("VERIF_FROM_CASE"))) { ++n_cases; continue; }
    // ... or with the first LARGE mesh of the campaign (more than 1200 faces): the first geometry a process encodes is then of another size class
    static bool started = false;
    // (a large mesh that goes through Edgebreaker with the sub-method left to the encoder: that is where the encoder decides by size)
    if (getenv("VERIF_FROM_BIG") && !started) { if (g.is_mesh && g.mesh()->num_faces() > 1200 && o.method != 0 && o.submethod < 0 && o.es < 5) started = true; else { ++n_cases; continue; } }
    if (getenv("VERIF_SPLIT")) o.split = atoi(getenv("VERIF_SPLIT"));
    if (getenv("VERIF_PRED")) o.pred = atoi(getenv("VERIF_PRED"));
    if (getenv("VERIF_ES")) o.es = o.ds = atoi(getenv("VERIF_ES"));
    run_case(g, o, true, 120);
  }
  fprintf(stderr, "STATS cases=%lld emitted=%lld encfail=%lld\n", n_cases, n_emit, n_enc_fail);
  return 0;
}

static void small_rec(std::vector<int> &F, int nc, int maxid, uint64_t seed, uint64_t stride) {
  if ((int)F.size() == nc) {
    // option rows: Edgebreaker at speeds 0 / 5 / 10 (standard and valence), sequential
    static const int rows[][3] = {{1, 0, 0}, {1, 5, -1}, {1, 10, 0}, {1, 3, 2}, {0, 5, -1}};
    const uint64_t h = vrt::fnv1a(F.data(), F.size() * sizeof(int), seed);
    const int nmasks = nc <= 6 ? (1 << nc) : 8;
    for (int variant = 0; variant <= nmasks; ++variant) {
      std::vector<int> att;
      if (variant > 0) {
        const uint32_t mask = nc <= 6 ? (uint32_t)(variant - 1) : (uint32_t)((h >> (3 * variant)) & ((1u << nc) - 1));
        for (int c = 0; c < nc; ++c) att.push_back((mask >> c) & 1);
      }
      Geom g = small_mesh(F, att, 5, 2);
      g.shape = "small";
      for (auto &row : rows) {
        Opt o;
        o.method = row[0]; o.es = o.ds = row[1]; o.submethod = row[2];
        o.qbits.assign(g.pc->num_attributes(), 0);
        const bool emit = ((h + variant * 131 + row[1]) % stride) == 0;
        run_case(g, o, emit, 120);
      }
    }
    return;
  }
  for (int v = 0; v <= std::min(4, maxid + 1); ++v) {
    F.push_back(v);
    small_rec(F, nc, std::max(maxid, v), seed, stride);
    F.pop_back();
  }
}
static int run_small(int maxfaces, uint64_t seed, uint64_t stride) {
  for (int nf = 1; nf <= maxfaces; ++nf) { std::vector<int> F; small_rec(F, 3 * nf, -1, seed, stride); }
  fprintf(stderr, "STATS cases=%lld emitted=%lld encfail=%lld\n", n_cases, n_emit, n_enc_fail);
  return 0;
}


// fans: closed / open triangle fans around one vertex (plus a few extra triangles) with 2..3 per-corner attributes over 2 values and the
// POSITION attribute at a random place in the attribute list: the seam configurations that point counting and point creation depend on
static int run_fans(uint64_t seed, long n) {
  vrt::Rng r(seed);
  for (long i = 0; i < n; ++i) {
    int k = r.range(3, 7);
    bool closed = r.coin(2, 3);
    std::vector<int> pos;
    // a third of the cases: closed surfaces (tetrahedron, octahedron, cube, 3x3 torus) cut into attribute charts -- every vertex is interior,
    // the traversal starts from an interior face, seams run through start-face vertices
    const int solid = r.coin(1, 3) ? r.range(0, 3) : -1;
    const char *sname = "fan";
    if (solid == 0) { pos = {0, 1, 2, 0, 3, 1, 0, 2, 3, 1, 3, 2}; k = 1; sname = "tetrahedron"; }
    else if (solid == 1) { pos = {0, 1, 2, 0, 2, 3, 0, 3, 4, 0, 4, 1, 5, 2, 1, 5, 3, 2, 5, 4, 3, 5, 1, 4}; k = 3; sname = "octahedron"; }
    else if (solid == 2) { pos = {0, 1, 2, 0, 2, 3, 4, 6, 5, 4, 7, 6, 0, 4, 5, 0, 5, 1, 1, 5, 6, 1, 6, 2, 2, 6, 7, 2, 7, 3, 3, 7, 4, 3, 4, 0}; k = 5; sname = "cube"; }
    else if (solid == 3) {
      for (int y = 0; y < 3; ++y) for (int x = 0; x < 3; ++x) {
        const int a = y * 3 + x, b = y * 3 + (x + 1) % 3, c = ((y + 1) % 3) * 3 + x, d = ((y + 1) % 3) * 3 + (x + 1) % 3;
        pos.insert(pos.end(), {a, b, c, b, d, c});
      }
      k = 6; sname = "torus3x3";
    } else {
      for (int t = 0; t < (closed ? k : k - 1); ++t) { pos.push_back(0); pos.push_back(1 + t); pos.push_back(1 + (t + 1) % k); }
      const int extra_tris = r.range(0, 2);
      for (int t = 0; t < extra_tris; ++t) { const int a = r.range(1, k), b = r.range(1, k + 2), c = r.range(0, k + 2); pos.push_back(a); pos.push_back(b); pos.push_back(c); }
    }
    if (solid >= 0 && r.coin()) {     // shuffled face order: the start face differs from case to case
      const size_t nfc = pos.size() / 3;
      for (size_t f = nfc; f > 1; --f) { const size_t j = (size_t)r.range(0, (int)f - 1); for (int c = 0; c < 3; ++c) std::swap(pos[3 * (f - 1) + c], pos[3 * j + c]); }
    }
    if (r.coin(1, 4)) { const int rot = r.range(1, 2); for (size_t f = 0; f + 2 < pos.size(); f += 3) std::rotate(pos.begin() + f, pos.begin() + f + rot, pos.begin() + f + 3); }
    const int nextra = r.range(1, 3);
    std::vector<std::vector<int>> extra(nextra, std::vector<int>(pos.size()));
    for (auto &e : extra) {
      const int style = r.range(0, 3);
      std::vector<int> chart(pos.size() / 3);
      for (auto &ch : chart) ch = r.range(0, 1);
      for (size_t c = 0; c < pos.size(); ++c) e[c] = style == 0 ? r.range(0, 1) : style == 1 ? (int)((c / 3) % 2) : style == 2 ? (r.coin(1, 5) ? 1 : 0) : chart[c / 3];
    }
    Geom g = corner_mesh(pos, extra, k + 3, 2, r.range(0, nextra));
    g.shape = solid >= 0 ? sname : (closed ? "fan-closed" : "fan-open");
    Opt o;
    o.method = r.coin(1, 6) ? 0 : 1;
    o.es = o.ds = r.range(0, 10);
    o.submethod = r.coin() ? -1 : (r.coin() ? 0 : 2);
    o.expert = r.coin();
    o.qbits.assign(g.pc->num_attributes(), 0);
    run_case(g, o, true, 120);
  }
  fprintf(stderr, "STATS cases=%lld emitted=%lld encfail=%lld\n", n_cases, n_emit, n_enc_fail);
  return 0;
}

// tables: clouds whose attribute residuals form a large alphabet with ONE symbol holding an exact power-of-two share (1/2 .. 1/32) of all values: the
// normalised probability of that symbol lands exactly on the boundaries of the entropy coder's table serialisation (2^6, 2^14) at some precision,
// whichever speed (= table precision) is used.  zeros of every 16 points repeat their predecessor, the other steps are spread evenly over W sizes.
static int run_tables(uint64_t seed) {
  vrt::Rng r(seed);
  for (int share_log = 1; share_log <= 5; ++share_log)
    for (int W : {128, 512, -128, -512}) {
      // negative W: the sequence starts with a step instead of a hold (the first value is predicted from the clamped zero prediction, so which of the two
      // it is shifts one count in the histogram)
      const bool first_hold = W > 0;
      W = std::abs(W);
      const int total = 8192, nzero = total >> share_log, nstep = total - nzero;
      std::vector<int32_t> seq;
      int32_t x = 0;
      // interleave: the k-th value repeats its predecessor when (k * nzero) / total advances, i.e. evenly spread holds (the first value counts as a hold)
      int holds = 0, steps = 0;
      for (int k = 0; k < total; ++k) {
        const bool hold = first_hold ? ((long)k * nzero) % total < nzero : (long)(k + 1) * nzero / total > (long)k * nzero / total;
        if (!hold) { x += (steps % W) + 1; ++steps; } else ++holds;
        seq.push_back(x);
      }
      (void)nstep;
      Geom g; g.is_mesh = false; g.pc.reset(new PointCloud()); g.pc->set_num_points(total); g.shape = "tables";
      AttDesc p{GeometryAttribute::POSITION, DT_INT32, 3, false, true, total};
      const int pid = add_attribute(g.pc.get(), p, total);
      AttDesc a{GeometryAttribute::GENERIC, DT_INT32, 1, false, true, total};
      const int aid = add_attribute(g.pc.get(), a, total);
      for (int i = 0; i < total; ++i) { const int32_t q[3] = {i % 37, (i / 37) % 41, i % 5}; g.pc->attribute(pid)->SetAttributeValue(AttributeValueIndex(i), q); g.pc->attribute(aid)->SetAttributeValue(AttributeValueIndex(i), &seq[i]); }
      for (int speed = 0; speed <= 10; ++speed) {
        Opt o; o.method = 0; o.es = o.ds = speed; o.expert = r.coin(); o.qbits.assign(2, 0);
        run_case(g, o, true, 120);
      }
    }
  fprintf(stderr, "STATS cases=%lld emitted=%lld encfail=%lld\n", n_cases, n_emit, n_enc_fail);
  return 0;
}

// sizes: point / face counts at the boundaries where the sequential coders switch index widths (2^8, 2^16) and nearby
static int run_sizes(uint64_t seed) {
  vrt::Rng r(seed);
  for (int np : {255, 256, 257, 65535, 65536, 65537}) {
    for (int mesh = 0; mesh < 2; ++mesh) {
      for (int method = 0; method < 2; ++method) {
        if (np > 1000 && method == 1 && !mesh) continue;
        Geom g;
        g.is_mesh = mesh;
        g.pc.reset(mesh ? new Mesh() : new PointCloud());
        g.pc->set_num_points(np);
        AttDesc p{GeometryAttribute::POSITION, DT_INT32, 3, false, true, np};
        const int pid = add_attribute(g.pc.get(), p, np);
        for (int i = 0; i < np; ++i) { int32_t xyz[3] = {i % 300, (i / 300) % 300, i / 90000}; g.pc->attribute(pid)->SetAttributeValue(AttributeValueIndex(i), xyz); }
        if (mesh) {
          // a strip that uses every point, in particular the last one
          for (int i = 0; i + 2 < np; i += (np > 1000 ? 2 : 1)) { Mesh::Face f; f[0] = PointIndex(i); f[1] = PointIndex(i + 1); f[2] = PointIndex(i + 2); g.mesh()->AddFace(f); }
          Mesh::Face f; f[0] = PointIndex(np - 1); f[1] = PointIndex(0); f[2] = PointIndex(np / 2); g.mesh()->AddFace(f);
        }
        g.shape = "size-boundary";
        Opt o;
        o.method = method; o.es = o.ds = r.range(3, 7); o.qbits.assign(1, 0);
        run_case(g, o, true, 120);
      }
    }
  }
  // clouds that compress to far less than one byte per point (constant / two-valued attributes)
  for (int np : {3000, 20000}) {
    for (int method = 0; method < 2; ++method) {
      for (int two = 0; two < 2; ++two) {
        Geom g;
        g.is_mesh = false;
        g.pc.reset(new PointCloud());
        g.pc->set_num_points(np);
        AttDesc p{GeometryAttribute::POSITION, DT_INT32, 3, false, true, np};
        const int pid = add_attribute(g.pc.get(), p, np);
        for (int i = 0; i < np; ++i) { int32_t xyz[3] = {5, two ? (i / (np / 2)) : 9, 2}; g.pc->attribute(pid)->SetAttributeValue(AttributeValueIndex(i), xyz); }
        g.shape = "flat-cloud";
        Opt o;
        o.method = method; o.es = o.ds = 3 + two * 4; o.qbits.assign(1, 0);
        run_case(g, o, true, 120);
      }
    }
  }
  // highly repetitive connectivity: many faces over very few points (compresses to far less than 3 bytes per face)
  for (int nf : {50, 400, 3000}) {
    for (int method = 0; method < 2; ++method) {
      Geom g;
      g.is_mesh = true;
      g.pc.reset(new Mesh());
      const int np = 4;
      g.pc->set_num_points(np);
      AttDesc p{GeometryAttribute::POSITION, DT_INT32, 3, false, true, np};
      const int pid = add_attribute(g.pc.get(), p, np);
      for (int i = 0; i < np; ++i) { int32_t xyz[3] = {i, i * i, 7 - i}; g.pc->attribute(pid)->SetAttributeValue(AttributeValueIndex(i), xyz); }
      for (int f = 0; f < nf; ++f) { Mesh::Face fc; fc[0] = PointIndex(0); fc[1] = PointIndex(1); fc[2] = PointIndex(2 + (f % 2)); g.mesh()->AddFace(fc); }
      g.shape = "repetitive";
      Opt o;
      o.method = method; o.es = o.ds = 5; o.qbits.assign(1, 0);
      run_case(g, o, true, 120);
    }
  }
  fprintf(stderr, "STATS cases=%lld emitted=%lld encfail=%lld\n", n_cases, n_emit, n_enc_fail);
  return 0;
}

// Frozen streams (corpus/index.ndjson: streams of this and of every earlier bitstream version) decoded ordinarily and with transforms skipped: all types
// that carry float attributes at once, and each of them alone.  One RT record per (stream, skip set) with the fields the C10 clause reads.
static int run_streams(const char *dir) {
  std::ifstream idx(std::string(dir) + "/index.ndjson");
  std::string line;
  while (std::getline(idx, line)) {
    const size_t a = line.find("\"file\":\"");
    if (a == std::string::npos) continue;
    const std::string file = line.substr(a + 8, line.find('"', a + 8) - a - 8);
    std::ifstream f(std::string(dir) + "/" + file, std::ios::binary);
    std::vector<char> bytes((std::istreambuf_iterator<char>(f)), std::istreambuf_iterator<char>());
    if (bytes.size() < 11) continue;
    Decoded d1 = decode(bytes.data(), bytes.size());
    std::vector<GeometryAttribute::Type> types;
    if (d1.ok)
      for (int k = 0; k < d1.pc->num_attributes(); ++k) {
        const PointAttribute *att = d1.pc->attribute(k);
        if (att->data_type() == DT_FLOAT32 && std::find(types.begin(), types.end(), att->attribute_type()) == types.end()) types.push_back(att->attribute_type());
      }
    std::vector<std::vector<GeometryAttribute::Type>> sets;
    if (!types.empty()) sets.push_back(types);
    if (types.size() > 1) for (auto t : types) sets.push_back({t});
    if (sets.empty()) sets.push_back({});
    for (const auto &skip : sets) {
      ++n_cases; ++n_emit;
      Decoded ds = decode(bytes.data(), bytes.size(), skip);
      bool cleared_same = true;
      if (d1.ok && !skip.empty()) {
        Decoder dc;
        for (auto t : skip) dc.SetSkipAttributeTransform(t);
        for (auto t : skip) dc.options()->SetAttributeBool(t, "skip_attribute_transform", false);
        DecoderBuffer db; db.Init(bytes.data(), bytes.size());
        uint64_t hc = 4;
        if (d1.is_mesh) { Mesh m; if (dc.DecodeBufferToGeometry(&db, &m).ok()) hc = geom_digest(m, true); }
        else { PointCloud p; if (dc.DecodeBufferToGeometry(&db, &p).ok()) hc = geom_digest(p, false); }
        cleared_same = hc == geom_digest(*d1.pc, d1.is_mesh);
      }
      const SkipView sv = skip_view(d1, ds, skip, [](uint32_t) { return false; });
      const int ver = ((unsigned char)bytes[5] << 8) | (unsigned char)bytes[6];
      std::vector<int> st;
      for (auto t : skip) st.push_back((int)t);
      out.begin("RT").i("case", n_cases).s("gt", d1.is_mesh ? "mesh" : "pc").s("shape", "stream:" + file).s("m", bytes[8] == 1 ? (d1.is_mesh ? "eb" : "kd") : "seq")
          .i("sub", -1).i("es", -1).i("ds", -1).b("builtin", true).i("split", 0).i("pred", -100).arr("qbits", std::vector<int>{}).b("expert", false)
          .b("eok", true).s("err", "").i("bytes", (long long)bytes.size()).i("ver", ver).arr("skip_types", st).b("big", true)
          .b("dok", d1.ok).s("derr", d1.err).i("dp", d1.ok ? d1.pc->num_points() : -1).i("df", d1.ok && d1.is_mesh ? d1.mesh()->num_faces() : (d1.ok ? 0 : -1))
          .b("skipok", ds.ok).b("cleared_same", cleared_same).b("chain_ok", true).b("trunc_same", true)
          .raw("skip", sv.sk).i("skip_missing", sv.skip_missing).b("skip_rest_same", sv.rest_same).s("skip_rest_why", sv.rest_why).end();
    }
  }
  fprintf(stderr, "STATS cases=%lld emitted=%lld encfail=%lld\n", n_cases, n_emit, n_enc_fail);
  return 0;
}

int main(int argc, char **argv) {
  bool nodedup = false, intnormals = false, big = false;
  for (int i = 1; i < argc; ++i) { if (!strcmp(argv[i], "nodedup")) nodedup = true; if (!strcmp(argv[i], "intnormals")) intnormals = true; if (!strcmp(argv[i], "big")) big = true; if (!strcmp(argv[i], "expdims")) g_expdims = true; if (!strcmp(argv[i], "handles")) g_handles = true; }
  if (argc >= 4 && !strcmp(argv[1], "random")) return run_random(strtoull(argv[2], 0, 10), atol(argv[3]), nodedup, intnormals, big);
  if (argc >= 4 && !strcmp(argv[1], "fans")) return run_fans(strtoull(argv[2], 0, 10), atol(argv[3]));
  if (argc >= 3 && !strcmp(argv[1], "streams")) return run_streams(argv[2]);
  if (argc >= 3 && !strcmp(argv[1], "sizes")) return run_sizes(strtoull(argv[2], 0, 10));
  if (argc >= 3 && !strcmp(argv[1], "tables")) return run_tables(strtoull(argv[2], 0, 10));
  if (argc >= 5 && !strcmp(argv[1], "small")) return run_small(atoi(argv[2]), strtoull(argv[3], 0, 10), strtoull(argv[4], 0, 10));
  fprintf(stderr, "usage: drv_rt random <seed> <n> [nodedup] [intnormals] [big] | small <maxfaces> <seed> <stride>\n");
  return 2;
}
