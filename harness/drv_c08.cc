// C08 driver: rANS symbol entropy coding.  BUILD-KINDS: plain asan
//   drv_c08 replay  <rows.ndjson>   rows emitted by TLC (MC_RansSym): run RAnsEncoder<pb>/RAnsDecoder<pb> on the same table/sequence
//   drv_c08 symbols <seed> <n>      EncodeSymbols -> sentinel -> DecodeSymbols end to end (each case in a forked child)
//   drv_c08 short   <seed> <n>      n very short blocks in-process (final-state flush boundaries); mismatches and a sample are written
//   drv_c08 steps   <seed> <n>      step-level rans_write records at production precision (state observed through a copy + write_end)
//   drv_c08 create  <seed> <n>      RAnsSymbolEncoder<b>::Create: frequency table -> serialised probability table
//   drv_c08 wide                    values needing 32 bits / spanning >= 2^31 (F6 family), forked
#include <sys/time.h>
#include <sys/wait.h>
#include <unistd.h>
#include <algorithm>
#include "rt/rt.h"
#include "draco/compression/entropy/ans.h"
#include "draco/compression/entropy/rans_symbol_decoder.h"
#include "draco/compression/entropy/rans_symbol_encoder.h"
#include "draco/compression/entropy/symbol_decoding.h"
#include "draco/compression/entropy/symbol_encoding.h"
#include "draco/core/decoder_buffer.h"
#include "draco/core/encoder_buffer.h"
#include "draco/core/options.h"

using namespace draco;
static vrt::Out out;

// ------------------------------------------------------------------------------ replay of TLC rows at small precision
template <int PB>
static void replay_row(const vrt::J &row) {
  const std::vector<int> pr = row["pr"].ints(), syms = row["syms"].ints(), model = row["bytes"].ints();
  std::vector<rans_sym> table(pr.size());
  uint32_t cum = 0;
  for (size_t i = 0; i < pr.size(); ++i) { table[i].prob = pr[i]; table[i].cum_prob = cum; cum += pr[i]; }
  std::vector<uint8_t> buf(16 + 8 * syms.size());
  RAnsEncoder<PB> enc;
  enc.write_init(buf.data());
  for (int i = (int)syms.size() - 1; i >= 0; --i) enc.rans_write(&table[syms[i]]);
  const int len = enc.write_end();
  std::vector<int> bytes(buf.begin(), buf.begin() + len);
  RAnsDecoder<PB> dec;
  std::vector<uint32_t> probs(pr.begin(), pr.end());
  const bool lut = dec.rans_build_look_up_table(probs.data(), (uint32_t)probs.size());
  std::vector<int> got;
  bool dok = lut && dec.read_init(buf.data(), len) == 0;
  if (dok) for (size_t i = 0; i < syms.size(); ++i) got.push_back((int)dec.rans_read());
  out.begin("RansRow").i("pb", PB).arr("pr", pr).arr("syms", syms).arr("model", model).arr("bytes", bytes)
      .b("dok", dok).arr("dec", got).b("ended", dok && dec.read_end() != 0).end();
}
static int run_replay(const char *path) {
  FILE *f = fopen(path, "r");
  if (!f) return 2;
  std::string line;
  long n = 0;
  while (vrt::read_line(f, line)) {
    if (line.empty()) continue;
    vrt::J row = vrt::jparse_line(line);
    switch ((int)row["pb"].n) {
      case 2: replay_row<2>(row); break;
      case 3: replay_row<3>(row); break;
      case 4: replay_row<4>(row); break;
      case 5: replay_row<5>(row); break;
      default: continue;
    }
    ++n;
  }
  fclose(f);
  fprintf(stderr, "STATS rows=%ld\n", n);
  return 0;
}

// ------------------------------------------------------------------------------ end-to-end EncodeSymbols / DecodeSymbols
struct SymCase { std::vector<uint32_t> v; int nc; int level; int method; std::string dist; };

static void emit_sym(const SymCase &c) {
  Options opt;
  if (c.level >= 0) SetSymbolEncodingCompressionLevel(&opt, c.level);
  if (c.method >= 0) SetSymbolEncodingMethod(&opt, (SymbolCodingMethod)c.method);
  EncoderBuffer eb;
  const uint32_t pre = 0x11223344u, sentinel = 0xC0DEFACEu;
  eb.Encode(pre);
  const bool eok = EncodeSymbols(c.v.data(), (int)c.v.size(), c.nc, &opt, &eb);
  const size_t block_end = eb.size();
  eb.Encode(sentinel);
  std::vector<uint32_t> got(c.v.size(), 0xDEADBEEFu);
  bool dok = false, sok = false;
  long pos = -1;
  int scheme = -1;
  if (eok) {
    DecoderBuffer db;
    db.Init(eb.data(), eb.size());
    db.set_bitstream_version(0x0202);
    uint32_t p2 = 0;
    db.Decode(&p2);
    if (c.v.size()) scheme = (unsigned char)eb.data()[4];
    dok = DecodeSymbols((uint32_t)c.v.size(), c.nc, &db, got.data());
    pos = db.decoded_size();
    uint32_t s2 = 0;
    sok = dok && db.Decode(&s2) && s2 == sentinel;
  }
  std::vector<int> ih, il, oh, ol;
  for (size_t i = 0; i < c.v.size(); ++i) {
    ih.push_back(c.v[i] >> 16); il.push_back(c.v[i] & 0xFFFF);
    oh.push_back(got[i] >> 16); ol.push_back(got[i] & 0xFFFF);
  }
  // inside the coder's documented reach the input is representable and has to be encoded: values below 2^31 for the tagged / automatic choice; for a
  // forced raw scheme at most 2^17 distinct symbols (18 bits of alphabet) and values small enough for its histogram
  uint32_t maxv = 0;
  for (auto x : c.v) maxv = std::max(maxv, x);
  bool must = maxv < (1u << 31);
  if (c.method == 1) {
    std::vector<uint32_t> u(c.v);
    std::sort(u.begin(), u.end());
    const size_t distinct = std::unique(u.begin(), u.end()) - u.begin();
    must = maxv < (1u << 23) && distinct <= (1u << 17);
  }
  out.begin("Sym").s("dist", c.dist).i("n", c.v.size()).i("nc", c.nc).i("level", c.level).i("method", c.method).i("scheme", scheme)
      .b("must", must).b("eok", eok).b("dok", dok).b("sentinel", sok).i("pos", pos).i("blockend", (long)block_end)
      .arr("ih", ih).arr("il", il).arr("oh", oh).arr("ol", ol).end();
  fflush(stdout);
}

// run one case in a child so that a crash / abort / runaway allocation is attributed to the case
static void forked(const SymCase &c, const char *label) {
  fflush(stdout);
  pid_t pid = fork();
  if (pid == 0) {
    { struct itimerval it; memset(&it, 0, sizeof it); it.it_value.tv_sec = 60; setitimer(ITIMER_PROF, &it, nullptr); alarm(900); }   // 60 s of CPU time (load does not count), 900 s of wall time as a backstop
    emit_sym(c);
    fflush(stdout);
    _exit(0);
  }
  int st = 0;
  waitpid(pid, &st, 0);
  if (!(WIFEXITED(st) && WEXITSTATUS(st) == 0)) {
    uint32_t mx = 0;
    for (auto x : c.v) mx = std::max(mx, x);
    out.begin("SymCrash").s("dist", label).i("n", c.v.size()).i("nc", c.nc).i("level", c.level).i("method", c.method)
        .w32("max", mx).i("signal", WIFSIGNALED(st) ? WTERMSIG(st) : 0).i("exit", WIFEXITED(st) ? WEXITSTATUS(st) : -1).end();
    fflush(stdout);
  }
}

static SymCase gen_case(vrt::Rng &r, bool allow_big) {
  SymCase c;
  static const char *names[] = {"uniform", "skewed", "constant", "outlier", "fewunique", "manyunique"};
  const int d = r.range(0, 5);
  c.dist = names[d];
  c.nc = r.range(1, 4);
  c.level = r.coin(1, 4) ? -1 : r.range(0, 10);
  c.method = r.coin(2, 3) ? -1 : r.range(0, 1);
  long n = r.coin(3, 4) ? r.range(1, 60) : r.range(61, 600);
  if (allow_big && r.coin(1, 40)) n = r.range(20000, 100000);
  n = std::max<long>(c.nc, n / c.nc * c.nc);
  const int bits = r.coin(1, 6) ? r.range(19, 22) : r.range(1, 18);
  const uint32_t top = (1u << bits) - 1;
  c.v.resize(n);
  for (long i = 0; i < n; ++i) {
    uint32_t v;
    switch (d) {
      case 0: v = (uint32_t)r.below((uint64_t)top + 1); break;
      case 1: { int k = 0; while (k < bits && r.coin(2, 3)) ++k; v = (uint32_t)r.below((1ull << (bits - k))); break; }
      case 2: v = top; break;
      case 3: v = i == n / 2 ? top : (uint32_t)r.below(4); break;
      case 4: v = (uint32_t)(r.below(3) * (top / 3)); break;
      default: v = (uint32_t)((i * 2654435761u) & top); break;
    }
    c.v[i] = v;
  }
  // forced raw with more than 2^18 distinct symbols cannot be represented: the encoder must say so
  return c;
}

static int run_symbols(uint64_t seed, long n) {
  vrt::Rng r(seed);
  // boundary cases first
  for (int nc = 1; nc <= 4; ++nc) {
    SymCase c; c.nc = nc; c.level = -1; c.method = -1; c.dist = "single";
    c.v.assign(nc, 0); forked(c, "single0");
    c.v.assign(nc, 1); forked(c, "single1");
    c.v.assign(nc, (1u << 18) - 1); forked(c, "single18");
    c.v.assign(nc, (1u << 22)); forked(c, "single22");
  }
  {  // up to 2^18 distinct symbols (raw limit), and one beyond
    SymCase c; c.nc = 1; c.level = 10; c.method = 1; c.dist = "distinct2^17";
    for (uint32_t i = 0; i < (1u << 17); ++i) c.v.push_back(i);
    if (n >= 1000) forked(c, "distinct2^17");
    // the level adds up to two bits to the alphabet's bit length: 2^16 distinct symbols at the three highest levels sit on the clamp to 18 bits
    c.v.resize(1u << 16); c.dist = "distinct2^16";
    for (int level : {10, 9, 8}) { c.level = level; forked(c, "distinct2^16"); }
  }
  // one dominant symbol and a long tail of symbols that occur once in ~10^5 values (17..20 bits of precision, probabilities of a few units): writing
  // such a symbol while the coder state is in its top octaves flushes three bytes
  for (int cfg = 0; cfg < 4; ++cfg) {
    static const int levels[] = {10, 7, -1, 4}, methods[] = {1, 1, -1, 1};
    SymCase c; c.nc = 1; c.level = levels[cfg]; c.method = methods[cfg]; c.dist = "long-tail";
    const uint32_t N = 100000, T = 2100;
    c.v.assign(N + T, 0);
    for (uint32_t k = 0; k < T; ++k) c.v[(size_t)(((uint64_t)k * 2654435761u + 12345u + cfg) % (N + T))] = 1 + k;   // collisions just lose a few tail symbols
    forked(c, "long-tail");
  }
  // forced raw scheme with wide values and thousands of distinct symbols (the histogram pass must not be skipped)
  for (int rep = 0; rep < 2; ++rep) {
    SymCase c; c.nc = 1; c.level = rep ? 0 : 7; c.method = 1; c.dist = "raw-wide-manyunique";
    for (uint32_t i = 0; i < 6000; ++i) c.v.push_back((1u << 18) + i * 3 + (i % 7));
    forked(c, "raw-wide-manyunique");
  }
  // tables whose normalised probabilities sit exactly on the serialisation boundaries 2^6 / 2^14 (raw scheme, >= 15 bits of precision)
  for (int edge : {64, 16384}) {
    SymCase c; c.nc = 1; c.level = 7; c.method = 1; c.dist = "raw-prob-boundary";
    // 512 other symbols twice each + one dominant symbol so that its probability is edge / 2^15 .. after normalisation
    const int others = 600;
    const long P = 1L << 15;                      // bit length 10 -> precision 15
    const long total = P;                         // total == precision: probabilities equal counts
    for (int k = 0; k < others; ++k) c.v.push_back(1 + k);
    long rest = total - others - edge;
    for (long k = 0; k < edge; ++k) c.v.push_back(0);
    for (long k = 0; k < rest; ++k) c.v.push_back(1 + (uint32_t)(k % others));
    forked(c, "raw-prob-boundary");
  }
  // two equally frequent dominant symbols plus a handful of singletons: the precision taken back from over-allocated probabilities has to be
  // spread over the two dominant entries (odd and even surpluses)
  for (int N : {7, 50, 500, 5000, 50000}) {
    if (N > 5000 && n < 1000) continue;
    for (int k = 1; k <= 6; ++k) {
      SymCase c; c.nc = 1; c.dist = "two-dominant";
      for (int i = 0; i < N; ++i) { c.v.push_back(0); c.v.push_back(1); }
      for (int i = 0; i < k; ++i) c.v.push_back(2 + i);
      for (int cfg = 0; cfg < (N >= 5000 ? 3 : 6); ++cfg) {
        static const int levels[] = {7, 0, 10, 5, -1, -1}, methods[] = {1, 1, 1, 1, 0, -1};
        c.level = levels[cfg]; c.method = methods[cfg];
        forked(c, "two-dominant");
      }
    }
  }
  for (long i = 0; i < n; ++i) forked(gen_case(r, true), "random");
  return 0;
}

// very many very short blocks, in-process: the final coder state sweeps its whole range, including the exact boundaries between the 1 / 2 / 3 / 4-byte
// forms in which it is flushed (one block in a few hundred thousand ends on such a boundary).  Mismatches and every 5000th block are written out.
static int run_short(uint64_t seed, long n) {
  vrt::Rng r(seed);
  long bad = 0;
  for (long i = 0; i < n; ++i) {
    SymCase c; c.nc = 1; c.dist = "short";
    const int alpha = r.range(2, 6), len = r.range(2, 14);
    const int skew = r.range(0, 3);
    for (int k = 0; k < len; ++k) { int v = r.range(0, alpha - 1); if (skew && r.coin(skew, 4)) v = 0; c.v.push_back((uint32_t)v); }
    c.level = r.range(0, 10); c.method = r.coin(3, 4) ? 1 : (r.coin() ? 0 : -1);
    Options opt;
    SetSymbolEncodingCompressionLevel(&opt, c.level);
    if (c.method >= 0) SetSymbolEncodingMethod(&opt, (SymbolCodingMethod)c.method);
    EncoderBuffer eb;
    const bool eok = EncodeSymbols(c.v.data(), (int)c.v.size(), 1, &opt, &eb);
    bool same = false;
    if (eok) {
      DecoderBuffer db; db.Init(eb.data(), eb.size()); db.set_bitstream_version(0x0202);
      std::vector<uint32_t> got(c.v.size(), 0xDEADBEEFu);
      same = DecodeSymbols((uint32_t)c.v.size(), 1, &db, got.data()) && got == c.v && db.remaining_size() == 0;
    }
    if (!eok || !same) ++bad;
    if (!eok || !same || i % 5000 == 0) { if (bad <= 200 || (eok && same)) emit_sym(c); }
  }
  fprintf(stderr, "STATS short=%ld bad=%ld\n", n, bad);
  return 0;
}

static int run_wide() {
  // F6 family: symbol values at and beyond 2^31 (reachable through the public encoder with int32 attributes whose
  // corrections span >= 2^31); every case in a child under an address-space limit set by the caller
  const uint32_t tops[] = {(1u << 23), (1u << 26), (1u << 30) + 5, 0x7FFFFFFFu, 0x80000000u, 0xFFFFFFFEu, 0xFFFFFFFFu};
  for (uint32_t t : tops)
    for (int method = -1; method <= 0; ++method) {
      SymCase c; c.nc = 1; c.level = -1; c.method = method; c.dist = "wide";
      c.v = {1, 2, t, 3, t, 0};
      forked(c, "wide");
    }
  return 0;
}

// ------------------------------------------------------------------------------ step level, production precision
template <int PB>
static void steps_case(vrt::Rng &r) {
  const int P = 1 << PB;
  const int nsym = r.range(2, 24);
  std::vector<uint32_t> pr(nsym, 1);
  int rest = P - nsym;
  while (rest > 0) { const int k = (int)r.below(nsym), a = 1 + (int)r.below(std::max(1, rest / 2)); pr[k] += std::min(a, rest); rest -= std::min(a, rest); }
  std::vector<rans_sym> table(nsym);
  uint32_t cum = 0;
  for (int i = 0; i < nsym; ++i) { table[i].prob = pr[i]; table[i].cum_prob = cum; cum += pr[i]; }
  const int n = r.range(1, 120);
  std::vector<uint8_t> buf(64 + 4 * n);
  RAnsEncoder<PB> enc;
  enc.write_init(buf.data());
  auto state_of = [&](int *len_out) {
    RAnsEncoder<PB> cp = enc;   // write_end on a copy: appends the state bytes behind the current offset, which later writes overwrite
    const int len = cp.write_end();
    *len_out = len;
    // decode the state class from the tail
    const int x = buf[len - 1] >> 6;
    uint32_t s = 0;
    for (int k = 0; k <= x; ++k) s |= (uint32_t)buf[len - 1 - x + k] << (8 * k);
    s &= (1u << (8 * (x + 1) - 2)) - 1;
    return s + 4u * P;
  };
  int len0;
  uint32_t x0 = state_of(&len0);
  std::vector<int> syms(n);
  for (int i = 0; i < n; ++i) syms[i] = (int)r.below(nsym);
  int off_prev = 0;
  {
    int l; (void)state_of(&l);
    const int x = buf[l - 1] >> 6; off_prev = l - (x + 1);
  }
  for (int i = n - 1; i >= 0; --i) {
    enc.rans_write(&table[syms[i]]);
    int l;
    const uint32_t x1 = state_of(&l);
    const int cls = buf[l - 1] >> 6;
    const int off = l - (cls + 1);
    std::vector<int> em;
    {
      RAnsEncoder<PB> cp = enc; (void)cp;
    }
    // emitted units are buf[off_prev .. off)
    // (they were written by rans_write before the copy's write_end touched the tail)
    for (int k = off_prev; k < off; ++k) em.push_back(buf[k]);
    out.begin("RansW").i("pb", PB).i("x0", x0).i("prob", table[syms[i]].prob).i("cum", table[syms[i]].cum_prob).i("x1", x1).arr("emit", em).end();
    x0 = x1; off_prev = off;
  }
}
static int run_steps(uint64_t seed, long n) {
  vrt::Rng r(seed);
  for (long i = 0; i < n; ++i) {
    switch (r.range(0, 3)) {
      case 0: steps_case<12>(r); break;
      case 1: steps_case<15>(r); break;
      case 2: steps_case<18>(r); break;
      default: steps_case<20>(r); break;
    }
  }
  return 0;
}

// ------------------------------------------------------------------------------ Create
template <int B>
static void create_case(const std::vector<uint64_t> &f) {
  EncoderBuffer eb;
  RAnsSymbolEncoder<B> enc;
  const bool ok = enc.Create(f.data(), (int)f.size(), &eb);
  std::vector<int> fi(f.begin(), f.end()), bytes;
  for (size_t k = 0; k < eb.size(); ++k) bytes.push_back((unsigned char)eb.data()[k]);
  // table round trip through the real decoder
  DecoderBuffer db;
  db.Init(eb.data(), eb.size());
  db.set_bitstream_version(0x0202);
  RAnsSymbolDecoder<B> dec;
  const bool dok = ok && dec.Create(&db);
  out.begin("Create").i("pb", ComputeRAnsPrecisionFromUniqueSymbolsBitLength(B)).arr("freq", fi).b("ok", ok).b("dok", dok).arr("bytes", bytes).end();
}
static void create_dispatch(int b, const std::vector<uint64_t> &f) {
  switch (b) {
    case 5: create_case<5>(f); break;
    case 10: create_case<10>(f); break;
    case 12: create_case<12>(f); break;
    default: create_case<14>(f); break;   // precision 20 (clamped)
  }
}
static int run_create(uint64_t seed, long n) {
  vrt::Rng r(seed);
  // (a) totals equal to the precision: the normalised probabilities are the frequencies themselves, so the serialised
  //     table is exercised exactly at its size-class boundaries 2^6 and 2^14 (and just around them)
  static const int bs[] = {5, 10, 12, 14};
  for (int b : bs) {
    const long P = 1L << ComputeRAnsPrecisionFromUniqueSymbolsBitLength(b);
    for (long edge : {63L, 64L, 65L, 16383L, 16384L, 16385L}) {
      if (edge + 2 > P) continue;
      for (int variant = 0; variant < 3; ++variant) {
        std::vector<uint64_t> f;
        f.push_back(edge);
        long rest = P - edge;
        if (variant == 1) { f.push_back(0); f.push_back(0); }
        const int others = variant == 2 ? 40 : 3;
        for (int k = 0; k < others - 1 && rest > 1; ++k) { const long x = std::max(1L, rest / (others - k) - (k % 2)); f.push_back(x); rest -= x; }
        f.push_back(rest);
        create_dispatch(b, f);
      }
    }
  }
  // (b) random tables
  for (long i = 0; i < n; ++i) {
    const int ns = r.range(1, 32);
    std::vector<uint64_t> f(ns, 0);
    const int cls = r.range(0, 4);
    for (int k = 0; k < ns; ++k) {
      switch (cls) {
        case 0: f[k] = r.below(20); break;
        case 1: f[k] = r.coin(1, 3) ? 0 : 1 + r.below(5000); break;
        case 2: f[k] = k == 0 ? 100000 + r.below(1000) : r.below(3); break;   // one dominant symbol, many rare ones
        case 3: f[k] = 1; break;                                              // all equal
        default: f[k] = 1 + r.below(4095);                                    // forces the over-allocation repair loop
      }
    }
    if (std::all_of(f.begin(), f.end(), [](uint64_t x) { return x == 0; })) f[r.below(ns)] = 1 + r.below(9);
    create_dispatch(bs[r.range(0, 3)], f);
  }
  return 0;
}

int main(int argc, char **argv) {
  if (argc >= 3 && !strcmp(argv[1], "replay")) return run_replay(argv[2]);
  if (argc >= 4 && !strcmp(argv[1], "symbols")) return run_symbols(strtoull(argv[2], 0, 10), atol(argv[3]));
  if (argc >= 4 && !strcmp(argv[1], "short")) return run_short(strtoull(argv[2], 0, 10), atol(argv[3]));
  if (argc >= 4 && !strcmp(argv[1], "steps")) return run_steps(strtoull(argv[2], 0, 10), atol(argv[3]));
  if (argc >= 4 && !strcmp(argv[1], "create")) return run_create(strtoull(argv[2], 0, 10), atol(argv[3]));
  if (argc >= 2 && !strcmp(argv[1], "wide")) return run_wide();
  fprintf(stderr, "usage: drv_c08 replay <rows> | symbols|steps|create <seed> <n> | wide\n");
  return 2;
}
