// C05 driver: frozen corpus.
//   drv_c05 freeze <dir> <seed> <n>     (run ONCE, by hand, to create /verif/corpus; never part of a check)
//   drv_c05 freeze-big <dir> <seed>     (run ONCE, by hand, to create /verif/corpus_big: size-covering streams, see run_freeze_big)
//   drv_c05 freeze-bounds <dir> <seed>  (run ONCE, by hand: streams on the representation boundaries, appended to /verif/corpus_big)
//   drv_c05 freeze-handles <dir> <seed> <n>  (run ONCE, by hand: Edgebreaker streams with two topology-split events at one symbol, appended to /verif/corpus_big)
//   drv_c05 freeze-mp <dir> <seed>      (run ONCE, by hand: streams of the deprecated multi-parallelogram prediction, appended to /verif/corpus_big)
//   drv_c05 freeze-cmp <dir> <seed>     (run ONCE, by hand: Edgebreaker grids coded with the constrained multi-parallelogram scheme, appended to /verif/corpus)
//   drv_c05 freeze-lkq <dir> <seed>     (run ONCE, by hand: bitstream-2.2 kd-tree clouds of the float tree method, appended to /verif/corpus)
//   drv_c05 freeze-kd <dir> <seed>      (run ONCE, by hand: small kD-tree clouds at the highest tree level, appended to /verif/corpus)
//   drv_c05 freeze-skip <dir>           (run ONCE per corpus directory, by hand: digests of the decodes with the attribute transform skipped)
//   drv_c05 freeze-wide-charts <dir> <seed>  (run ONCE, by hand: 5-byte varints, textured grids cut into UV charts; appended to /verif/corpus_big)
//   drv_c05 freeze-islands <dir> <seed> <n>  (run ONCE, by hand: textured grids with a UV chart per triangle; appended to /verif/corpus_big)
//   drv_c05 check  <dir> <testdata>     decode every frozen stream and every testdata/*.drc; one "Frozen" record per stream
//   drv_c05 versions <dir>              rewrite the header version of a subset of streams to every (major, minor) in 0..3 x 0..5
#include <dirent.h>
#include <fstream>
#include "geom.h"
#include "draco/core/varint_decoding.h"
#include "draco/core/varint_encoding.h"
#include "draco/compression/point_cloud/algorithms/float_points_tree_encoder.h"
using namespace draco;
using namespace vg;
static vrt::Out out;

static std::vector<char> slurp(const std::string &p) { std::ifstream f(p, std::ios::binary); return std::vector<char>((std::istreambuf_iterator<char>(f)), std::istreambuf_iterator<char>()); }
static std::vector<std::string> list(const std::string &dir, const char *ext) {
  std::vector<std::string> r;
  DIR *d = opendir(dir.c_str());
  if (!d) return r;
  while (dirent *e = readdir(d)) { std::string n = e->d_name; if (n.size() > strlen(ext) && n.substr(n.size() - strlen(ext)) == ext) r.push_back(n); }
  closedir(d);
  std::sort(r.begin(), r.end());
  return r;
}

static int run_freeze(const std::string &dir, uint64_t seed, long n, const char *prefix, int force_sub) {
  vrt::Rng r(seed);
  std::ofstream idx(dir + "/index.ndjson", std::ios::app);   // the corpus only ever grows
  GenParams gp; gp.max_points = 30; gp.max_faces = 40;
  long k = 0;
  for (long i = 0; k < n && i < 20 * n; ++i) {
    // force_sub: -1 none, 0 / 2 Edgebreaker sub-method, -3 sequential meshes with compressed connectivity
    const bool mesh = force_sub >= 0 || force_sub == -3 ? true : r.coin(2, 3);
    Geom g = gen_geometry(r, mesh, gp);
    Opt o = gen_options(r, g);
    if (force_sub >= 0) o.submethod = force_sub;
    o.compress_conn = force_sub == -3;
    // cover every method / speed systematically over the corpus
    o.method = force_sub >= 0 ? 1 : (force_sub == -3 ? 0 : (int)(i % 2)); o.es = o.ds = (int)(i % 11); o.expert = true;
    if (!mesh && o.method == 1) for (int a = 0; a < g.pc->num_attributes(); ++a) if (g.pc->attribute(a)->data_type() == DT_FLOAT32 && o.qbits[a] == 0) o.qbits[a] = 11;
    Encoded e = encode(g, o);
    if (!e.ok || e.bytes.size() > 4000) continue;
    Decoded d = decode(e.bytes.data(), e.bytes.size());
    if (!d.ok) continue;
    char name[64]; snprintf(name, sizeof name, "%s%04ld.drc", prefix, k++);
    std::ofstream f(dir + "/" + name, std::ios::binary); f.write(e.bytes.data(), e.bytes.size());
    idx << "{\"file\":\"" << name << "\",\"digest\":" << h64(geom_digest(*d.pc, d.is_mesh)) << ",\"np\":" << d.pc->num_points() << ",\"nf\":" << (d.is_mesh ? d.mesh()->num_faces() : 0)
        << ",\"gt\":\"" << (mesh ? "mesh" : "pc") << "\",\"method\":" << (int)(unsigned char)e.bytes[8] << ",\"es\":" << o.es << ",\"pred\":" << o.pred << ",\"builtin\":" << (o.builtin ? "true" : "false") << "}\n";
  }
  fprintf(stderr, "froze %ld streams\n", k);
  return 0;
}

// Size-covering streams: the small geometries of run_freeze only ever produce small entropy-coding alphabets.  The bitstream-defining constants of the
// symbol coders (rANS precision per alphabet bit length 1..18, tagged vs raw scheme, kd-tree levels) are reached by large alphabets only:
//   point clouds with one int32 attribute uniform below 2^k, k = 1..17, 3*2^k+50 points (at most 70000), every second speed, sequential and kd-tree;
//   grid meshes with quantised positions / normals / tex-coords, Edgebreaker (standard and valence) and sequential.
static int run_freeze_big(const std::string &dir, uint64_t seed) {
  vrt::Rng r(seed);
  std::ofstream idx(dir + "/index.ndjson", std::ios::app);
  long k = 0;
  auto emit = [&](const Geom &g, const Opt &o, const char *what) {
    Encoded e = encode(g, o);
    if (!e.ok) { fprintf(stderr, "skip %s: %s\n", what, e.err.c_str()); return; }
    Decoded d = decode(e.bytes.data(), e.bytes.size());
    if (!d.ok) { fprintf(stderr, "skip %s: does not decode (%s)\n", what, d.err.c_str()); return; }
    char name[64]; snprintf(name, sizeof name, "b%04ld.drc", k++);
    std::ofstream f(dir + "/" + name, std::ios::binary); f.write(e.bytes.data(), e.bytes.size());
    idx << "{\"file\":\"" << name << "\",\"digest\":" << h64(geom_digest(*d.pc, d.is_mesh)) << ",\"np\":" << d.pc->num_points() << ",\"nf\":" << (d.is_mesh ? d.mesh()->num_faces() : 0)
        << ",\"gt\":\"" << (g.is_mesh ? "mesh" : "pc") << "\",\"method\":" << (int)(unsigned char)e.bytes[8] << ",\"es\":" << o.es << ",\"pred\":" << o.pred << ",\"builtin\":" << (o.builtin ? "true" : "false")
        << ",\"what\":\"" << what << "\",\"bytes\":" << e.bytes.size() << "}\n";
  };
  for (int kb = 1; kb <= 17; ++kb) {
    for (int variant = 0; variant < 3; ++variant) {
      const int np = std::min(3 * (1 << kb) + 50, 70000);
      Geom g; g.is_mesh = false; g.pc.reset(new PointCloud()); g.pc->set_num_points(np);
      const int nc = variant == 2 ? 3 : 1;
      AttDesc d{variant == 2 ? GeometryAttribute::POSITION : GeometryAttribute::GENERIC, DT_INT32, nc, false, true, np};
      const int id = add_attribute(g.pc.get(), d, np);
      for (int v = 0; v < np; ++v) { int32_t x[3]; for (int c = 0; c < nc; ++c) x[c] = (int32_t)r.below(1ull << kb); g.pc->attribute(id)->SetAttributeValue(AttributeValueIndex(v), x); }
      Opt o; o.expert = true; o.qbits.assign(1, 0);
      o.method = variant == 2 ? 1 : 0;                 // variant 2: kd-tree over 3 integer components
      o.es = o.ds = (kb * 3 + variant * 4) % 11;
      if (variant == 1) o.pred = PREDICTION_NONE;      // raw values instead of differences
      char what[64]; snprintf(what, sizeof what, "pc int32 k=%d variant=%d", kb, variant);
      emit(g, o, what);
    }
  }
  for (int side : {12, 30, 55}) {
    for (int variant = 0; variant < 6; ++variant) {
      Geom g; g.is_mesh = true; g.pc.reset(new Mesh());
      const int np = side * side;
      g.pc->set_num_points(np);
      AttDesc dp{GeometryAttribute::POSITION, DT_FLOAT32, 3, false, true, np};
      const int ip = add_attribute(g.pc.get(), dp, np);
      AttDesc dn{GeometryAttribute::NORMAL, DT_FLOAT32, 3, false, true, np};
      const int in = add_attribute(g.pc.get(), dn, np);
      AttDesc dt{GeometryAttribute::TEX_COORD, DT_FLOAT32, 2, false, true, np};
      const int it = add_attribute(g.pc.get(), dt, np);
      for (int y = 0; y < side; ++y) for (int x = 0; x < side; ++x) {
        const int v = y * side + x;
        const float z = (float)(std::sin(x * 0.37) * std::cos(y * 0.23) * 3.0 + r.unit() * 0.2);
        const float p[3] = {(float)x + (float)(r.unit() * 0.3), (float)y + (float)(r.unit() * 0.3), z};
        float nn[3] = {(float)(-0.37 * std::cos(x * 0.37)), (float)(0.23 * std::sin(y * 0.23)), 1.f};
        const float l = std::sqrt(nn[0] * nn[0] + nn[1] * nn[1] + nn[2] * nn[2]); for (float &q : nn) q /= l;
        const float t[2] = {(float)x / side, (float)y / side};
        g.pc->attribute(ip)->SetAttributeValue(AttributeValueIndex(v), p);
        g.pc->attribute(in)->SetAttributeValue(AttributeValueIndex(v), nn);
        g.pc->attribute(it)->SetAttributeValue(AttributeValueIndex(v), t);
      }
      for (int y = 0; y + 1 < side; ++y) for (int x = 0; x + 1 < side; ++x) {
        if ((x * 7 + y * 3) % 41 == 0) continue;      // holes
        const int a = y * side + x;
        Mesh::Face f1, f2;
        f1[0] = PointIndex(a); f1[1] = PointIndex(a + 1); f1[2] = PointIndex(a + side);
        f2[0] = PointIndex(a + 1); f2[1] = PointIndex(a + side + 1); f2[2] = PointIndex(a + side);
        g.mesh()->AddFace(f1); g.mesh()->AddFace(f2);
      }
      Opt o; o.expert = true;
      o.qbits = {variant % 2 ? 11 : 14, variant % 3 ? 8 : 10, 12};
      o.method = variant == 5 ? 0 : 1;
      o.submethod = variant == 5 ? -1 : (variant % 2 ? 2 : 0);
      o.es = o.ds = (variant * 2 + side) % 11;
      char what[64]; snprintf(what, sizeof what, "grid mesh side=%d variant=%d", side, variant);
      emit(g, o, what);
    }
  }
  fprintf(stderr, "froze %ld size-covering streams\n", k);
  return 0;
}


// Boundary streams: every size at which the format switches representation -- index widths of the sequential mesh coder (256, 65536 points;
// stored directly and compressed), the same point counts through Edgebreaker and both point-cloud coders, face counts around 1000 (valence
// coder selection).  A change applied to encoder and decoder alike is invisible to round trips; frozen bytes at the boundary pin it.
static int run_freeze_bounds(const std::string &dir, uint64_t seed) {
  vrt::Rng r(seed);
  std::ofstream idx(dir + "/index.ndjson", std::ios::app);
  long k = 0;
  auto emit = [&](const Geom &g, const Opt &o, const std::string &what) {
    Encoded e = encode(g, o);
    if (!e.ok) { fprintf(stderr, "skip %s: %s\n", what.c_str(), e.err.c_str()); return; }
    Decoded d = decode(e.bytes.data(), e.bytes.size());
    if (!d.ok) { fprintf(stderr, "skip %s: does not decode (%s)\n", what.c_str(), d.err.c_str()); return; }
    char name[64]; snprintf(name, sizeof name, "n%04ld.drc", k++);
    std::ofstream f(dir + "/" + name, std::ios::binary); f.write(e.bytes.data(), e.bytes.size());
    idx << "{\"file\":\"" << name << "\",\"digest\":" << h64(geom_digest(*d.pc, d.is_mesh)) << ",\"np\":" << d.pc->num_points() << ",\"nf\":" << (d.is_mesh ? d.mesh()->num_faces() : 0)
        << ",\"gt\":\"" << (g.is_mesh ? "mesh" : "pc") << "\",\"method\":" << (int)(unsigned char)e.bytes[8] << ",\"es\":" << o.es << ",\"pred\":" << o.pred << ",\"builtin\":" << (o.builtin ? "true" : "false")
        << ",\"what\":\"" << what << "\",\"bytes\":" << e.bytes.size() << "}\n";
  };
  for (int np : {255, 256, 257, 65535, 65536, 65537}) {
    for (int variant = 0; variant < 5; ++variant) {
      // a strip mesh over np distinct int16 / int32 positions: every point used, the last face names the highest index
      const bool mesh = variant < 4;
      Geom g; g.is_mesh = mesh; g.pc.reset(mesh ? new Mesh() : new PointCloud()); g.pc->set_num_points(np);
      AttDesc d{GeometryAttribute::POSITION, DT_INT32, 3, false, true, np};
      const int id = add_attribute(g.pc.get(), d, np);
      for (int v = 0; v < np; ++v) { int32_t x[3] = {v % 301, (v / 301) % 301, (int32_t)r.below(7) + 5 * (v / 90601)}; g.pc->attribute(id)->SetAttributeValue(AttributeValueIndex(v), x); }
      if (mesh) for (int f = 0; f + 2 < np; f += (np > 1000 ? 7 : 1)) { Mesh::Face fc; fc[0] = PointIndex(f); fc[1] = PointIndex(f + 1); fc[2] = PointIndex(f + 2); g.mesh()->AddFace(fc); }
      if (mesh) { Mesh::Face fc; fc[0] = PointIndex(np - 1); fc[1] = PointIndex(0); fc[2] = PointIndex(np / 2); g.mesh()->AddFace(fc); }
      Opt o; o.expert = true; o.qbits.assign(1, 0);
      // 0: sequential, indices stored directly (speed 10)   1: sequential, compressed indices   2: Edgebreaker standard   3: Edgebreaker valence   4: clouds, both coders by parity
      o.method = variant <= 1 ? 0 : 1;
      if (!mesh) o.method = (np % 2);
      o.es = o.ds = variant == 0 ? 10 : (variant == 1 ? 3 : 5);
      if (variant == 2) o.submethod = 0;
      if (variant == 3) o.submethod = 2;
      emit(g, o, "bound np=" + std::to_string(np) + " variant=" + std::to_string(variant));
    }
  }
  fprintf(stderr, "froze %ld boundary streams\n", k);
  return 0;
}

// kD-tree clouds of 64..100 points at the highest tree level (speeds 0..4: the split axis of every node with 64 or more points is a 4-bit number
// in the stream), 3..6 dimensions in total, few quantisation bits (streams of 100..300 bytes: the fault sweep visits every offset).  Appended to <dir>.
static int run_freeze_kd(const std::string &dir, uint64_t seed) {
  vrt::Rng r(seed);
  std::ofstream idx(dir + "/index.ndjson", std::ios::app);
  long k = 0;
  for (int np : {64, 65, 80, 100}) {
    for (int extra = 0; extra < 4; ++extra) {          // components of the second attribute (0: positions only)
      Geom g; g.is_mesh = false; g.pc.reset(new PointCloud()); g.pc->set_num_points(np);
      AttDesc d{GeometryAttribute::POSITION, DT_INT32, 3, false, true, np};
      const int id = add_attribute(g.pc.get(), d, np);
      for (int v = 0; v < np; ++v) { int32_t x[3] = {(int32_t)r.below(32), (int32_t)r.below(32), (int32_t)r.below(16)}; g.pc->attribute(id)->SetAttributeValue(AttributeValueIndex(v), x); }
      if (extra) {
        AttDesc e{GeometryAttribute::GENERIC, DT_UINT8, extra, false, true, np};
        const int eid = add_attribute(g.pc.get(), e, np);
        for (int v = 0; v < np; ++v) { uint8_t x[4] = {(uint8_t)r.below(8), (uint8_t)r.below(8), (uint8_t)r.below(4), 0}; g.pc->attribute(eid)->SetAttributeValue(AttributeValueIndex(v), x); }
      }
      Opt o; o.expert = true; o.method = 1; o.qbits.assign(extra ? 2 : 1, 0);
      o.es = o.ds = (int)((k * 3) % 5);
      Encoded e = encode(g, o);
      if (!e.ok) { fprintf(stderr, "skip: %s\n", e.err.c_str()); continue; }
      Decoded dd = decode(e.bytes.data(), e.bytes.size());
      if (!dd.ok) { fprintf(stderr, "skip: does not decode (%s)\n", dd.err.c_str()); continue; }
      char name[64]; snprintf(name, sizeof name, "k%04ld.drc", k++);
      std::ofstream f(dir + "/" + name, std::ios::binary); f.write(e.bytes.data(), e.bytes.size());
      idx << "{\"file\":\"" << name << "\",\"digest\":" << h64(geom_digest(*dd.pc, dd.is_mesh)) << ",\"np\":" << dd.pc->num_points() << ",\"nf\":0,\"gt\":\"pc\",\"method\":" << (int)(unsigned char)e.bytes[8]
          << ",\"es\":" << o.es << ",\"pred\":" << o.pred << ",\"builtin\":" << (o.builtin ? "true" : "false") << ",\"what\":\"kd level 6, " << 3 + extra << " dimensions\",\"bytes\":" << e.bytes.size() << "}\n";
    }
  }
  fprintf(stderr, "froze %ld kd streams\n", k);
  return 0;
}

// Point clouds of bitstream 2.2 whose kd-tree attribute data uses the float ("quantization") method: the path FloatPointsTreeDecoder serves.  No
// encoder of this library version writes the container any more, the decoder still reads it: the tree data comes from the library's own
// FloatPointsTreeEncoder, the container around it is written by hand.  The stream names its number of points four times (geometry header, attribute
// data, float tree header, integer kd-tree payload).  Appended to <dir>.
static int run_freeze_lkq(const std::string &dir, uint64_t seed) {
  vrt::Rng r(seed);
  std::ofstream idx(dir + "/index.ndjson", std::ios::app);
  long k = 0;
  for (int np : {1, 5, 20, 70}) {
    for (int level : {0, 3, 6}) {
      std::vector<Point3f> pts;
      for (int i = 0; i < np; ++i) pts.push_back(Point3f((float)r.unit() * 10.f - 5.f, (float)r.unit() * 4.f, (float)(i % 7)));
      FloatPointsTreeEncoder enc(KDTREE, 6 + (uint32_t)level, (uint32_t)level);
      if (!enc.EncodePointCloud(pts.begin(), pts.end())) continue;
      EncoderBuffer b;
      b.Encode("DRACO", 5);
      b.Encode((uint8_t)2); b.Encode((uint8_t)2); b.Encode((uint8_t)0); b.Encode((uint8_t)1); b.Encode((uint16_t)0);
      b.Encode((uint32_t)np);
      b.Encode((uint8_t)1);
      EncodeVarint<uint32_t>(1, &b);
      b.Encode((uint8_t)0); b.Encode((uint8_t)9); b.Encode((uint8_t)3); b.Encode((uint8_t)0); EncodeVarint<uint32_t>(0, &b);
      b.Encode((uint8_t)0);            // kKdTreeQuantizationEncoding
      b.Encode((uint8_t)level);
      b.Encode((uint32_t)np);
      b.Encode(enc.buffer()->data(), enc.buffer()->size());
      Decoded dd = decode(b.data(), b.size());
      if (!dd.ok) { fprintf(stderr, "skip: does not decode (%s)\n", dd.err.c_str()); continue; }
      char name[64]; snprintf(name, sizeof name, "q%04ld.drc", k++);
      std::ofstream f(dir + "/" + name, std::ios::binary); f.write(b.data(), b.size());
      idx << "{\"file\":\"" << name << "\",\"digest\":" << h64(geom_digest(*dd.pc, dd.is_mesh)) << ",\"np\":" << dd.pc->num_points() << ",\"nf\":0,\"gt\":\"legacy\",\"ver\":514"
          << ",\"what\":\"2.2 kd-tree cloud, float tree method, level " << level << "\",\"bytes\":" << b.size() << "}\n";
    }
  }
  fprintf(stderr, "froze %ld legacy float-tree streams\n", k);
  return 0;
}

// Edgebreaker meshes coded with the constrained multi-parallelogram scheme (speeds 0 and 1, 40 or more points): grids with pseudo-random diagonals, so
// that every parallelogram-count context carries dozens of crease flags.  The fault sweep visits every offset of the streams named c* with the values
// 64, 128 and 192 (flag counts that end on a word boundary of the flag vectors).  Appended to <dir>.
static int run_freeze_cmp(const std::string &dir, uint64_t seed) {
  vrt::Rng r(seed);
  std::ofstream idx(dir + "/index.ndjson", std::ios::app);
  long k = 0;
  for (int side : {9, 13, 17}) {
    for (int speed = 0; speed < 2; ++speed) {
      Geom g; g.is_mesh = true; g.pc.reset(new Mesh()); g.shape = "grid-diag";
      const int np = side * side;
      g.pc->set_num_points(np);
      AttDesc d{GeometryAttribute::POSITION, DT_INT32, 3, false, true, np};
      const int id = add_attribute(g.pc.get(), d, np);
      for (int y = 0; y < side; ++y) for (int x = 0; x < side; ++x) { const int32_t p[3] = {x * 8 + (int32_t)r.below(5), y * 8 + (int32_t)r.below(5), (int32_t)r.below(9)}; g.pc->attribute(id)->SetAttributeValue(AttributeValueIndex(y * side + x), p); }
      for (int y = 0; y + 1 < side; ++y) for (int x = 0; x + 1 < side; ++x) {
        const int a = y * side + x, b = a + 1, c = a + side, e = c + 1;
        Mesh::Face f1, f2;
        if (r.coin()) { f1[0] = PointIndex(a); f1[1] = PointIndex(b); f1[2] = PointIndex(c); f2[0] = PointIndex(b); f2[1] = PointIndex(e); f2[2] = PointIndex(c); }
        else { f1[0] = PointIndex(a); f1[1] = PointIndex(b); f1[2] = PointIndex(e); f2[0] = PointIndex(a); f2[1] = PointIndex(e); f2[2] = PointIndex(c); }
        g.mesh()->AddFace(f1); g.mesh()->AddFace(f2);
      }
      Opt o; o.expert = true; o.method = 1; o.es = o.ds = speed; o.qbits.assign(1, 0);
      Encoded e = encode(g, o);
      if (!e.ok) { fprintf(stderr, "skip: %s\n", e.err.c_str()); continue; }
      Decoded dd = decode(e.bytes.data(), e.bytes.size());
      if (!dd.ok) { fprintf(stderr, "skip: does not decode (%s)\n", dd.err.c_str()); continue; }
      char name[64]; snprintf(name, sizeof name, "c%04ld.drc", k++);
      std::ofstream f(dir + "/" + name, std::ios::binary); f.write(e.bytes.data(), e.bytes.size());
      idx << "{\"file\":\"" << name << "\",\"digest\":" << h64(geom_digest(*dd.pc, dd.is_mesh)) << ",\"np\":" << dd.pc->num_points() << ",\"nf\":" << dd.mesh()->num_faces() << ",\"gt\":\"mesh\",\"method\":1"
          << ",\"es\":" << o.es << ",\"pred\":" << o.pred << ",\"builtin\":true,\"what\":\"constrained multi-parallelogram, " << side << "x" << side << " grid\",\"bytes\":" << e.bytes.size() << "}\n";
    }
  }
  fprintf(stderr, "froze %ld constrained multi-parallelogram streams\n", k);
  return 0;
}

// Streams that use the deprecated multi-parallelogram prediction (method 2): no encoder of this library version writes it, the decoder still reads it.
// Made from Edgebreaker grids coded with the parallelogram scheme by rewriting the method byte of the position attribute (1 -> 2; the corrections are
// then read by the other predictor: the decoded values are whatever the unchanged decoder makes of them, which is what gets frozen).  Appended to <dir>.
static int run_freeze_mp(const std::string &dir, uint64_t seed) {
  vrt::Rng r(seed);
  std::ofstream idx(dir + "/index.ndjson", std::ios::app);
  long k = 0;
  for (int side : {8, 11, 14}) {
    for (int speed : {3, 5}) {
      Geom g; g.is_mesh = true; g.pc.reset(new Mesh()); g.shape = "grid-diag";
      const int np = side * side;
      g.pc->set_num_points(np);
      AttDesc d{GeometryAttribute::POSITION, DT_INT32, 3, false, true, np};
      const int id = add_attribute(g.pc.get(), d, np);
      for (int y = 0; y < side; ++y) for (int x = 0; x < side; ++x) { const int32_t p[3] = {x * 8 + (int32_t)r.below(5), y * 8 + (int32_t)r.below(5), (int32_t)r.below(9)}; g.pc->attribute(id)->SetAttributeValue(AttributeValueIndex(y * side + x), p); }
      for (int y = 0; y + 1 < side; ++y) for (int x = 0; x + 1 < side; ++x) {
        const int a = y * side + x, b = a + 1, c = a + side, e = c + 1;
        Mesh::Face f1, f2;
        if (r.coin()) { f1[0] = PointIndex(a); f1[1] = PointIndex(b); f1[2] = PointIndex(c); f2[0] = PointIndex(b); f2[1] = PointIndex(e); f2[2] = PointIndex(c); }
        else { f1[0] = PointIndex(a); f1[1] = PointIndex(b); f1[2] = PointIndex(e); f2[0] = PointIndex(a); f2[1] = PointIndex(e); f2[2] = PointIndex(c); }
        g.mesh()->AddFace(f1); g.mesh()->AddFace(f2);
      }
      Opt o; o.expert = true; o.method = 1; o.es = o.ds = speed; o.qbits.assign(1, 0); o.pred = MESH_PREDICTION_PARALLELOGRAM;
      Encoded e = encode(g, o);
      if (!e.ok) { fprintf(stderr, "skip: %s\n", e.err.c_str()); continue; }
      Decoded d0 = decode(e.bytes.data(), e.bytes.size());
      if (!d0.ok) continue;
      const uint64_t h0 = geom_digest(*d0.pc, d0.is_mesh);
      bool done = false;
      for (size_t off = 11; off + 1 < e.bytes.size() && !done; ++off) {
        if (e.bytes[off] != 1 || e.bytes[off + 1] != 1) continue;
        std::vector<char> b2 = e.bytes;
        b2[off] = 2;
        Decoded dd = decode(b2.data(), b2.size());
        if (!dd.ok || dd.pc->num_points() != d0.pc->num_points() || geom_digest(*dd.pc, dd.is_mesh) == h0) continue;
        char name[64]; snprintf(name, sizeof name, "p%04ld.drc", k++);
        std::ofstream f(dir + "/" + name, std::ios::binary); f.write(b2.data(), b2.size());
        idx << "{\"file\":\"" << name << "\",\"digest\":" << h64(geom_digest(*dd.pc, dd.is_mesh)) << ",\"np\":" << dd.pc->num_points() << ",\"nf\":" << dd.mesh()->num_faces() << ",\"gt\":\"legacy\",\"ver\":514"
            << ",\"what\":\"multi-parallelogram prediction (method byte at " << off << " rewritten 1 -> 2), " << side << "x" << side << " grid\",\"bytes\":" << b2.size() << "}\n";
        done = true;
      }
      if (!done) fprintf(stderr, "no method byte found for side %d speed %d\n", side, speed);
    }
  }
  fprintf(stderr, "froze %ld multi-parallelogram streams\n", k);
  return 0;
}

// Streams whose Edgebreaker traversal closes several handle / hole loops: wrapped grids with removed quads (GenParams::handles).  Kept: streams
// in which ONE symbol is the source of two topology-split events (read from the stream's own event table), and a few with three or more events.
static int run_freeze_handles(const std::string &dir, uint64_t seed, long want) {
  vrt::Rng r(seed);
  std::ofstream idx(dir + "/index.ndjson", std::ios::app);
  GenParams gp; gp.handles = true; gp.max_points = 40; gp.max_faces = 80;
  long k = 0, doubles = 0, many = 0;
  for (long i = 0; i < 400000 && doubles < want; ++i) {
    Geom g = gen_geometry(r, true, gp);
    Opt o = gen_options(r, g);
    o.method = 1; o.expert = true; o.es = o.ds = (int)(i % 10);
    Encoded e = encode(g, o);
    if (!e.ok || e.bytes.size() > 6000 || e.bytes.size() < 20 || e.bytes[8] != 1) continue;
    DecoderBuffer db; db.Init(e.bytes.data(), e.bytes.size()); db.set_bitstream_version(0x0202);
    db.Advance(11);
    uint8_t trav = 0, nattr = 0; uint32_t nv = 0, nf = 0, nsym = 0, nss = 0, nev = 0;
    db.Decode(&trav); DecodeVarint(&nv, &db); DecodeVarint(&nf, &db); db.Decode(&nattr); DecodeVarint(&nsym, &db); DecodeVarint(&nss, &db); DecodeVarint(&nev, &db);
    if (nev < 2 || nev > 64) continue;
    bool dbl = false; uint32_t last = 0;
    for (uint32_t j = 0; j < nev; ++j) { uint32_t d1 = 0, d2 = 0; DecodeVarint(&d1, &db); DecodeVarint(&d2, &db); if (j > 0 && d1 == 0) dbl = true; last += d1; }
    if (!dbl && !(nev >= 3 && many < want / 3)) continue;
    Decoded d = decode(e.bytes.data(), e.bytes.size());
    if (!d.ok) continue;
    if (dbl) ++doubles; else ++many;
    char name[64]; snprintf(name, sizeof name, "h%04ld.drc", k++);
    std::ofstream f(dir + "/" + name, std::ios::binary); f.write(e.bytes.data(), e.bytes.size());
    idx << "{\"file\":\"" << name << "\",\"digest\":" << h64(geom_digest(*d.pc, d.is_mesh)) << ",\"np\":" << d.pc->num_points() << ",\"nf\":" << d.mesh()->num_faces()
        << ",\"gt\":\"mesh\",\"method\":1,\"es\":" << o.es << ",\"pred\":" << o.pred << ",\"builtin\":" << (o.builtin ? "true" : "false")
        << ",\"what\":\"handles: " << nev << " split events" << (dbl ? ", two at one symbol" : "") << "\",\"bytes\":" << e.bytes.size() << "}\n";
  }
  fprintf(stderr, "froze %ld streams (%ld with two events at one symbol)\n", k, doubles);
  return 0;
}

// Streams with 5-byte varints (values from 2^28 up: attribute unique ids, signed kd-tree minima) and textured grids cut into UV charts (seams
// inside the surface; the tex-coord predictor's fallback paths), both frozen into /verif/corpus_big.
static int run_freeze_wide_charts(const std::string &dir, uint64_t seed) {
  vrt::Rng r(seed);
  std::ofstream idx(dir + "/index.ndjson", std::ios::app);
  long k = 0;
  auto emit = [&](const Geom &g, const Opt &o, const std::string &what, const char *prefix) {
    Encoded e = encode(g, o);
    if (!e.ok) { fprintf(stderr, "skip %s: %s\n", what.c_str(), e.err.c_str()); return; }
    Decoded d = decode(e.bytes.data(), e.bytes.size());
    if (!d.ok) { fprintf(stderr, "skip %s: does not decode (%s)\n", what.c_str(), d.err.c_str()); return; }
    char name[64]; snprintf(name, sizeof name, "%s%04ld.drc", prefix, k++);
    std::ofstream f(dir + "/" + name, std::ios::binary); f.write(e.bytes.data(), e.bytes.size());
    idx << "{\"file\":\"" << name << "\",\"digest\":" << h64(geom_digest(*d.pc, d.is_mesh)) << ",\"np\":" << d.pc->num_points() << ",\"nf\":" << (d.is_mesh ? d.mesh()->num_faces() : 0)
        << ",\"gt\":\"" << (g.is_mesh ? "mesh" : "pc") << "\",\"method\":" << (int)(unsigned char)e.bytes[8] << ",\"es\":" << o.es << ",\"pred\":" << o.pred << ",\"builtin\":" << (o.builtin ? "true" : "false")
        << ",\"what\":\"" << what << "\",\"bytes\":" << e.bytes.size() << "}\n";
  };
  // (a) wide integers: int32 attributes around +-2^30 through kd-tree and sequential coding; unique ids above 2^28
  for (int i = 0; i < 16; ++i) {
    const int np = 40;
    Geom g; g.is_mesh = false; g.pc.reset(new PointCloud()); g.pc->set_num_points(np);
    AttDesc d{GeometryAttribute::POSITION, DT_INT32, 3, false, true, np};
    const int id = add_attribute(g.pc.get(), d, np);
    const int32_t base = (i % 4 == 0) ? -(1 << 30) : (i % 4 == 1) ? (1 << 30) - 100000 : (i % 4 == 2) ? -(1 << 28) - 77 : (1 << 29);
    for (int v = 0; v < np; ++v) { int32_t x[3]; for (int c = 0; c < 3; ++c) x[c] = base + (int32_t)r.below(90000); g.pc->attribute(id)->SetAttributeValue(AttributeValueIndex(v), x); }
    g.pc->attribute(id)->set_unique_id((i % 2) ? (1u << 28) + 5u + (uint32_t)i : (uint32_t)i);
    Opt o; o.expert = true; o.qbits.assign(1, 0); o.method = (i / 4) % 2; o.es = o.ds = (i * 3) % 11;
    emit(g, o, "wide int32 cloud base=" + std::to_string(base) + " uid=" + std::to_string(g.pc->attribute(id)->unique_id()), "w");
  }
  // (b) textured grids with UV charts
  k = 0;
  for (int i = 0; i < 40; ++i) {
    const int w = r.range(2, 5), h = r.range(2, 5), ncharts = r.range(2, 3);
    std::vector<int> chart((size_t)w * h);
    const int style = r.range(0, 2);
    for (int y = 0; y < h; ++y) for (int x = 0; x < w; ++x) chart[(size_t)y * w + x] = style == 0 ? (x * ncharts / w) : style == 1 ? (y * ncharts / h) : r.range(0, ncharts - 1);
    Geom g; g.is_mesh = true; g.pc.reset(new Mesh());
    Mesh *m = g.mesh();
    const int nf = 2 * w * h, nc = 3 * nf;
    m->set_num_points(nc);
    const int nv = (w + 1) * (h + 1);
    AttDesc dp{GeometryAttribute::POSITION, DT_FLOAT32, 3, false, false, nv};
    const int ip = add_attribute(m, dp, nc);
    for (int y = 0; y <= h; ++y) for (int x = 0; x <= w; ++x) { const float p[3] = {(float)x, (float)y, (float)((x * 3 + y * 5) % 4) * 0.3f}; m->attribute(ip)->SetAttributeValue(AttributeValueIndex(y * (w + 1) + x), p); }
    AttDesc dt{GeometryAttribute::TEX_COORD, DT_FLOAT32, 2, false, false, nv * ncharts};
    const int it = add_attribute(m, dt, nc);
    for (int c = 0; c < ncharts; ++c) for (int v = 0; v < nv; ++v) { const float t[2] = {(float)(v % (w + 1)) / (w + 1) * 0.3f + 0.33f * c, (float)(v / (w + 1)) / (h + 1) * (c % 2 ? 0.5f : 0.9f)}; m->attribute(it)->SetAttributeValue(AttributeValueIndex(c * nv + v), t); }
    int corner = 0;
    for (int y = 0; y < h; ++y) for (int x = 0; x < w; ++x) {
      const int a = y * (w + 1) + x, b = a + 1, cc = a + (w + 1), d = cc + 1, ch = chart[(size_t)y * w + x];
      const int tri[6] = {a, b, cc, b, d, cc};
      for (int t6 = 0; t6 < 6; ++t6) { m->attribute(ip)->SetPointMapEntry(PointIndex(corner), AttributeValueIndex(tri[t6])); m->attribute(it)->SetPointMapEntry(PointIndex(corner), AttributeValueIndex(ch * nv + tri[t6])); ++corner; }
    }
    for (int f = 0; f < nf; ++f) { Mesh::Face fc; for (int q = 0; q < 3; ++q) fc[q] = PointIndex(3 * f + q); m->AddFace(fc); }
    m->DeduplicatePointIds();
    Opt o; o.expert = true; o.method = 1; o.es = o.ds = i % 4; o.submethod = (i % 3 == 0) ? 2 : -1;
    o.qbits = {r.range(9, 14), r.range(8, 12)};
    emit(g, o, "uv charts " + std::to_string(w) + "x" + std::to_string(h) + " charts=" + std::to_string(ncharts) + " style=" + std::to_string(style), "u");
  }
  fprintf(stderr, "froze wide / chart streams\n");
  return 0;
}

// More textured grids, this time with a chart id per TRIANGLE (random, or in runs), random diagonals and a shuffled face order: UV islands of every
// shape, so that the attribute traversal enters a new island through a face with one, two or no corners coded before.
// extra = true (freeze-islands-att, appended to /verif/corpus as j*): small grids (2..3 quads a side) that also carry a seam-free int attribute per position
// vertex -- three attribute decoders, at least twice as many points as vertices
static int run_freeze_islands(const std::string &dir, uint64_t seed, long n, bool extra = false) {
  vrt::Rng r(seed);
  std::ofstream idx(dir + "/index.ndjson", std::ios::app);
  long k = 0;
  for (long i = 0; i < n; ++i) {
    const int w = r.range(2, extra ? 3 : 6), h = r.range(2, extra ? 3 : 6), ncharts = r.range(2, 3);
    std::vector<std::array<int, 3>> tris;
    for (int y = 0; y < h; ++y) for (int x = 0; x < w; ++x) {
      const int a = y * (w + 1) + x, b = a + 1, c = a + (w + 1), d = c + 1;
      if (r.coin()) { tris.push_back({a, b, c}); tris.push_back({b, d, c}); } else { tris.push_back({a, b, d}); tris.push_back({a, d, c}); }
    }
    if (r.coin()) for (size_t t = tris.size(); t > 1; --t) std::swap(tris[t - 1], tris[(size_t)r.range(0, (int)t - 1)]);
    std::vector<int> chart(tris.size());
    int cur = 0;
    const int style = r.range(0, 2);
    for (size_t t = 0; t < tris.size(); ++t) { if (style == 0) cur = r.range(0, ncharts - 1); else if (r.coin(1, style == 1 ? 3 : 6)) cur = (cur + 1) % ncharts; chart[t] = cur; }
    Geom g; g.is_mesh = true; g.pc.reset(new Mesh());
    Mesh *m = g.mesh();
    const int nf = (int)tris.size(), nc = 3 * nf, nv = (w + 1) * (h + 1);
    m->set_num_points(nc);
    AttDesc dp{GeometryAttribute::POSITION, DT_FLOAT32, 3, false, false, nv};
    const int ip = add_attribute(m, dp, nc);
    for (int v = 0; v < nv; ++v) { const float p[3] = {(float)(v % (w + 1)), (float)(v / (w + 1)), (float)((v * 7) % 5) * 0.21f}; m->attribute(ip)->SetAttributeValue(AttributeValueIndex(v), p); }
    AttDesc dt{GeometryAttribute::TEX_COORD, DT_FLOAT32, 2, false, false, nv * ncharts};
    const int it = add_attribute(m, dt, nc);
    for (int c = 0; c < ncharts; ++c) for (int v = 0; v < nv; ++v) { const float t[2] = {(float)(v % (w + 1)) / (w + 1) * 0.3f + 0.33f * c, (float)(v / (w + 1)) / (h + 1) * (0.4f + 0.25f * c)}; m->attribute(it)->SetAttributeValue(AttributeValueIndex(c * nv + v), t); }
    for (int t = 0; t < nf; ++t) for (int q = 0; q < 3; ++q) { m->attribute(ip)->SetPointMapEntry(PointIndex(3 * t + q), AttributeValueIndex(tris[t][q])); m->attribute(it)->SetPointMapEntry(PointIndex(3 * t + q), AttributeValueIndex(chart[t] * nv + tris[t][q])); }
    if (extra) {
      AttDesc dg{GeometryAttribute::GENERIC, DT_INT32, 1, false, false, nv};
      const int ig = add_attribute(m, dg, nc);
      for (int v = 0; v < nv; ++v) { const int32_t x = 3 * v + 1; m->attribute(ig)->SetAttributeValue(AttributeValueIndex(v), &x); }
      for (int t = 0; t < nf; ++t) for (int q = 0; q < 3; ++q) m->attribute(ig)->SetPointMapEntry(PointIndex(3 * t + q), AttributeValueIndex(tris[t][q]));
    }
    for (int f = 0; f < nf; ++f) { Mesh::Face fc; for (int q = 0; q < 3; ++q) fc[q] = PointIndex(3 * f + q); m->AddFace(fc); }
    m->DeduplicatePointIds();
    Opt o; o.expert = true; o.method = 1; o.es = o.ds = (int)(i % 4) + (extra ? 2 : 0); o.submethod = (i % 5 == 0) ? 2 : -1;
    o.qbits = {r.range(9, 14), r.range(8, 12)};
    if (extra) o.qbits.push_back(0);
    Encoded e = encode(g, o);
    if (!e.ok) continue;
    Decoded d = decode(e.bytes.data(), e.bytes.size());
    if (!d.ok) continue;
    char name[64]; snprintf(name, sizeof name, extra ? "j%04ld.drc" : "i%04ld.drc", k++);
    std::ofstream f(dir + "/" + name, std::ios::binary); f.write(e.bytes.data(), e.bytes.size());
    idx << "{\"file\":\"" << name << "\",\"digest\":" << h64(geom_digest(*d.pc, d.is_mesh)) << ",\"np\":" << d.pc->num_points() << ",\"nf\":" << d.mesh()->num_faces()
        << ",\"gt\":\"mesh\",\"method\":1,\"es\":" << o.es << ",\"pred\":" << o.pred << ",\"builtin\":true,\"what\":\"uv islands " << w << "x" << h << " charts=" << ncharts << " style=" << style
        << "\",\"bytes\":" << e.bytes.size() << "}\n";
  }
  fprintf(stderr, "froze %ld island streams\n", k);
  return 0;
}

static void check_one(const std::string &label, const std::vector<char> &bytes, const vrt::J *frozen) {
  Decoded d = decode(bytes.data(), bytes.size());
  const uint64_t h = d.ok ? geom_digest(*d.pc, d.is_mesh) : 0;
  out.begin("Frozen").s("file", label).i("ver", bytes.size() > 6 ? ((unsigned char)bytes[5]) * 256 + (unsigned char)bytes[6] : -1).b("ok", d.ok).i("code", d.code).raw("now", h64(h));
  if (frozen) out.arr("frozen", (*frozen)["digest"].ints()).i("np_frozen", (*frozen)["np"].n).i("nf_frozen", (*frozen)["nf"].n).b("has_frozen", true);
  else out.raw("frozen", "[]").i("np_frozen", -1).i("nf_frozen", -1).b("has_frozen", false);
  out.i("np", d.ok ? d.pc->num_points() : -1).i("nf", d.ok && d.is_mesh ? d.mesh()->num_faces() : (d.ok ? 0 : -1)).end();
}

// second pass: the same streams through ONE Decoder and ONE DecoderBuffer object, re-initialised for every stream, in corpus order (versions 1.1 .. 2.3
// interleaved): what a stream decodes to does not depend on which stream the objects decoded before
static void check_reused(const std::string &label, const std::vector<char> &bytes, const vrt::J &frozen, Decoder *dec, DecoderBuffer *db) {
  db->Init(bytes.data(), bytes.size());
  auto t = Decoder::GetEncodedGeometryType(db);
  bool ok = false; uint64_t h = 0; long np = -1, nf = -1; int code = 0;
  if (t.ok()) {
    db->Init(bytes.data(), bytes.size());
    if (t.value() == TRIANGULAR_MESH) { Mesh m; Status st = dec->DecodeBufferToGeometry(db, &m); ok = st.ok(); code = st.code(); if (ok) { h = geom_digest(m, true); np = m.num_points(); nf = m.num_faces(); } }
    else { PointCloud p; Status st = dec->DecodeBufferToGeometry(db, &p); ok = st.ok(); code = st.code(); if (ok) { h = geom_digest(p, false); np = p.num_points(); nf = 0; } }
  }
  out.begin("Frozen").s("file", label + " (reused objects)").i("ver", bytes.size() > 6 ? ((unsigned char)bytes[5]) * 256 + (unsigned char)bytes[6] : -1).b("ok", ok).i("code", code).raw("now", h64(h))
      .arr("frozen", frozen["digest"].ints()).i("np_frozen", frozen["np"].n).i("nf_frozen", frozen["nf"].n).b("has_frozen", true).i("np", np).i("nf", nf).end();
}
// Decodes under decoder options: every stream also with the attribute transform skipped for POSITION only and for every type; the ordered digests of
// these decodes are frozen in index_skip.ndjson (written once by freeze-skip, never by a check).
static const std::vector<std::vector<GeometryAttribute::Type>> kSkipSets = {
    {GeometryAttribute::POSITION}, {GeometryAttribute::POSITION, GeometryAttribute::NORMAL, GeometryAttribute::COLOR, GeometryAttribute::TEX_COORD, GeometryAttribute::GENERIC}};
static int run_freeze_skip(const std::string &dir) {
  std::ifstream idx(dir + "/index.ndjson");
  std::set<std::string> have;     // append-only: streams that already have their digests are left alone
  { std::ifstream old(dir + "/index_skip.ndjson"); std::string l; while (std::getline(old, l)) if (!l.empty()) have.insert(vrt::jparse_line(l)["file"].s); }
  std::ofstream os(dir + "/index_skip.ndjson", std::ios::app);
  std::string line; long n = 0;
  while (std::getline(idx, line)) {
    if (line.empty()) continue;
    vrt::J j = vrt::jparse_line(line);
    if (have.count(j["file"].s)) continue;
    const std::vector<char> b = slurp(dir + "/" + j["file"].s);
    for (size_t k = 0; k < kSkipSets.size(); ++k) {
      Decoded d = decode(b.data(), b.size(), kSkipSets[k]);
      os << "{\"file\":\"" << j["file"].s << "\",\"skipset\":" << k << ",\"ok\":" << (d.ok ? "true" : "false") << ",\"digest\":" << h64(d.ok ? geom_digest(*d.pc, d.is_mesh) : 0)
         << ",\"np\":" << (d.ok ? (long)d.pc->num_points() : -1) << ",\"nf\":" << (d.ok && d.is_mesh ? (long)d.mesh()->num_faces() : (d.ok ? 0 : -1)) << "}\n";
      ++n;
    }
  }
  fprintf(stderr, "froze %ld skip-transform digests\n", n);
  return 0;
}
static void check_skip(const std::string &dir) {
  std::ifstream idx(dir + "/index_skip.ndjson");
  std::string line;
  while (std::getline(idx, line)) {
    if (line.empty()) continue;
    vrt::J j = vrt::jparse_line(line);
    const std::vector<char> b = slurp(dir + "/" + j["file"].s);
    const size_t k = (size_t)j["skipset"].n;
    if (k >= kSkipSets.size()) continue;
    Decoded d = decode(b.data(), b.size(), kSkipSets[k]);
    const uint64_t h = d.ok ? geom_digest(*d.pc, d.is_mesh) : 0;
    // a stream that did not decode under the option when it was frozen must still not decode (ok = frozen ok is part of the digest comparison: 0 digest)
    out.begin("Frozen").s("file", j["file"].s + (k == 0 ? " (skip POSITION)" : " (skip all)")).i("ver", b.size() > 6 ? ((unsigned char)b[5]) * 256 + (unsigned char)b[6] : -1)
        .b("ok", d.ok || !j["ok"].n).i("code", d.code).raw("now", h64(h)).arr("frozen", j["digest"].ints()).i("np_frozen", j["np"].n).i("nf_frozen", j["nf"].n).b("has_frozen", true)
        .i("np", d.ok ? (long)d.pc->num_points() : -1).i("nf", d.ok && d.is_mesh ? (long)d.mesh()->num_faces() : (d.ok ? 0 : -1)).end();
  }
}

static int run_check(const std::string &dir) {
  std::ifstream idx(dir + "/index.ndjson");
  std::string line;
  Decoder reused_dec; DecoderBuffer reused_db;
  while (std::getline(idx, line)) {
    if (line.empty()) continue;
    vrt::J j = vrt::jparse_line(line);
    const std::vector<char> bytes = slurp(dir + "/" + j["file"].s);
    check_one(j["file"].s, bytes, &j);
    check_reused(j["file"].s, bytes, j, &reused_dec, &reused_db);
  }
  check_skip(dir);
  return 0;
}

static int run_versions(const std::string &dir) {
  std::ifstream idx(dir + "/index.ndjson");
  std::string line;
  long k = 0;
  while (std::getline(idx, line)) {
    if (line.empty()) continue;
    if (k++ % 7 != 0) continue;
    vrt::J j = vrt::jparse_line(line);
    std::vector<char> b = slurp(dir + "/" + j["file"].s);
    if (b.size() < 11) continue;
    const int type = (unsigned char)b[7];
    for (int maj = 0; maj <= 3; ++maj)
      for (int mn = 0; mn <= 5; ++mn) {
        std::vector<char> c = b;
        c[5] = (char)maj; c[6] = (char)mn;
        Decoded d = decode(c.data(), c.size());
        out.begin("Ver").s("file", j["file"].s).i("type", type).i("maj", maj).i("min", mn).b("ok", d.ok).i("code", d.code).end();
      }
    // high version bytes
    for (int maj : {4, 9, 128, 255}) {
      std::vector<char> c = b; c[5] = (char)maj; c[6] = 0;
      Decoded d = decode(c.data(), c.size());
      out.begin("Ver").s("file", j["file"].s).i("type", type).i("maj", maj).i("min", 0).b("ok", d.ok).i("code", d.code).end();
    }
  }
  return 0;
}

int main(int argc, char **argv) {
  if (argc >= 5 && !strcmp(argv[1], "freeze")) return run_freeze(argv[2], strtoull(argv[3], 0, 10), atol(argv[4]), argc >= 6 ? argv[5] : "g", argc >= 7 ? atoi(argv[6]) : -1);
  if (argc >= 4 && !strcmp(argv[1], "freeze-big")) return run_freeze_big(argv[2], strtoull(argv[3], 0, 10));
  if (argc >= 5 && !strcmp(argv[1], "freeze-handles")) return run_freeze_handles(argv[2], strtoull(argv[3], 0, 10), atol(argv[4]));
  if (argc >= 4 && !strcmp(argv[1], "freeze-wide-charts")) return run_freeze_wide_charts(argv[2], strtoull(argv[3], 0, 10));
  if (argc >= 5 && !strcmp(argv[1], "freeze-islands")) return run_freeze_islands(argv[2], strtoull(argv[3], 0, 10), atol(argv[4]));
  if (argc >= 5 && !strcmp(argv[1], "freeze-islands-att")) return run_freeze_islands(argv[2], strtoull(argv[3], 0, 10), atol(argv[4]), true);
  if (argc >= 4 && !strcmp(argv[1], "freeze-bounds")) return run_freeze_bounds(argv[2], strtoull(argv[3], 0, 10));
  if (argc >= 4 && !strcmp(argv[1], "freeze-mp")) return run_freeze_mp(argv[2], strtoull(argv[3], 0, 10));
  if (argc >= 4 && !strcmp(argv[1], "freeze-cmp")) return run_freeze_cmp(argv[2], strtoull(argv[3], 0, 10));
  if (argc >= 4 && !strcmp(argv[1], "freeze-lkq")) return run_freeze_lkq(argv[2], strtoull(argv[3], 0, 10));
  if (argc >= 4 && !strcmp(argv[1], "freeze-kd")) return run_freeze_kd(argv[2], strtoull(argv[3], 0, 10));
  if (argc >= 3 && !strcmp(argv[1], "freeze-skip")) return run_freeze_skip(argv[2]);
  if (argc >= 3 && !strcmp(argv[1], "check")) return run_check(argv[2]);
  if (argc >= 3 && !strcmp(argv[1], "digest")) { check_one(argv[2], slurp(argv[2]), nullptr); return 0; }
  if (argc >= 3 && !strcmp(argv[1], "versions")) return run_versions(argv[2]);
  fprintf(stderr, "usage: drv_c05 freeze <dir> <seed> <n> | check <dir> | versions <dir>\n");
  return 2;
}
