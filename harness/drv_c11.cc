// C11 driver: metadata round trips.  BUILD-KINDS: plain
//   drv_c11 replay <rows.ndjson> <codec_mod>   rows emitted by TLC (MC_Metadata): direct MetadataEncoder/Decoder on every row, full codec on every codec_mod-th
//   drv_c11 random <seed> <n>                  random large trees (depth <= 8, names to 255 bytes incl. non-ASCII, values to 64 KiB) through the full codec
// Trees are written as {"e":[[name bytes,value bytes]..],"s":[[name bytes,tree]..]} in std::map order; values longer
// than 48 bytes are abstracted to [256, len%65536, len/65536, h1, h2] (256 cannot be a byte).
#include <algorithm>
#include <functional>
#include <thread>
#include <atomic>
#include "rt/rt.h"
#include "draco/compression/decode.h"
#include "draco/compression/encode.h"
#include "draco/compression/expert_encode.h"
#include "draco/core/decoder_buffer.h"
#include "draco/core/encoder_buffer.h"
#include "draco/mesh/mesh.h"
#include "draco/metadata/geometry_metadata.h"
#include "draco/metadata/metadata_decoder.h"
#include "draco/metadata/metadata_encoder.h"
#include "draco/point_cloud/point_cloud.h"
using namespace draco;
static vrt::Out out;
typedef std::vector<uint8_t> Bytes;
struct Tree { std::vector<std::pair<Bytes, Bytes>> e; std::vector<std::pair<Bytes, Tree>> s; };
struct Att { int id; Tree t; };

static std::string jbytes(const Bytes &b, bool abstract_long) {
  std::string s = "[";
  if (abstract_long && b.size() > 48) {
    const uint64_t h = vrt::fnv1a(b.data(), b.size());
    s += "256," + std::to_string(b.size() % 65536) + "," + std::to_string(b.size() / 65536) + "," + std::to_string(h & 0xFFFF) + "," + std::to_string((h >> 16) & 0xFFFF);
  } else {
    for (size_t i = 0; i < b.size(); ++i) { if (i) s += ","; s += std::to_string((int)b[i]); }
  }
  return s + "]";
}
static std::string jtree(const Tree &t) {
  std::string s = "{\"e\":[";
  for (size_t i = 0; i < t.e.size(); ++i) { if (i) s += ","; s += "[" + jbytes(t.e[i].first, false) + "," + jbytes(t.e[i].second, true) + "]"; }
  s += "],\"s\":[";
  for (size_t i = 0; i < t.s.size(); ++i) { if (i) s += ","; s += "[" + jbytes(t.s[i].first, false) + "," + jtree(t.s[i].second) + "]"; }
  return s + "]}";
}
static std::string jatts(const std::vector<Att> &a) {
  std::string s = "[";
  for (size_t i = 0; i < a.size(); ++i) { if (i) s += ","; s += "[" + std::to_string(a[i].id) + "," + jtree(a[i].t) + "]"; }
  return s + "]";
}
static Bytes to_bytes(const vrt::J &j) { Bytes b; for (auto &x : j.a) b.push_back((uint8_t)x.n); return b; }
// the model's over-long name (MaxNameLen = 2 there) stands for a 256-byte name here
static Bytes map_name(const Bytes &b) { if (b.size() > 2) return Bytes(256, 'x'); return b; }
static Tree parse_tree(const vrt::J &j) {
  Tree t;
  for (auto &e : j["e"].a) t.e.push_back({map_name(to_bytes(e[0])), to_bytes(e[1])});
  for (auto &s : j["s"].a) t.s.push_back({map_name(to_bytes(s[0])), parse_tree(s[1])});
  return t;
}
static void fill(Metadata *m, const Tree &t) {
  for (auto &e : t.e) m->AddEntryBinary(std::string(e.first.begin(), e.first.end()), e.second);
  for (auto &s : t.s) {
    std::unique_ptr<Metadata> sub(new Metadata());
    fill(sub.get(), s.second);
    m->AddSubMetadata(std::string(s.first.begin(), s.first.end()), std::move(sub));
  }
}
static Tree read_back(const Metadata *m) {
  Tree t;
  for (auto &e : m->entries()) t.e.push_back({Bytes(e.first.begin(), e.first.end()), e.second.data()});
  for (auto &s : m->sub_metadatas()) t.s.push_back({Bytes(s.first.begin(), s.first.end()), read_back(s.second.get())});
  return t;
}
static std::unique_ptr<GeometryMetadata> make_gm(const Tree &t, const std::vector<Att> &atts) {
  std::unique_ptr<GeometryMetadata> gm(new GeometryMetadata());
  fill(gm.get(), t);
  for (auto &a : atts) {
    std::unique_ptr<AttributeMetadata> am(new AttributeMetadata());
    am->set_att_unique_id(a.id);
    fill(am.get(), a.t);
    gm->AddAttributeMetadata(std::move(am));
  }
  return gm;
}
static std::vector<int> g_in_uids, g_out_uids;   // attribute unique ids of the geometry (full codec path only)
static void emit(const char *via, const Tree &t, const std::vector<Att> &atts, bool eok, bool dok, const Tree &o, const std::vector<Att> &oa,
                 const Bytes *bytes, bool has_model, bool model_eok, const std::vector<int> &model_bytes, bool has_long) {
  out.begin("Meta").s("via", via).raw("tree", jtree(t)).raw("atts", jatts(atts)).b("eok", eok).b("dok", dok).raw("out", jtree(o)).raw("outatts", jatts(oa));
  out.b("hasbytes", bytes != nullptr && !has_long && has_model);
  out.raw("bytes", (bytes && !has_long && has_model) ? jbytes(*bytes, false) : "[]");
  out.arr("in_uids", g_in_uids).arr("out_uids", g_out_uids);
  out.b("hasmodel", has_model).b("model_eok", model_eok).arr("model_bytes", (has_long || !has_model) ? std::vector<int>{} : model_bytes).end();
}
static void read_gm(const GeometryMetadata *gm, Tree *o, std::vector<Att> *oa) {
  *o = read_back(gm);
  for (auto &am : gm->attribute_metadatas()) oa->push_back({(int)am->att_unique_id(), read_back(am.get())});
}
static bool tree_has_long(const Tree &t) {
  for (auto &e : t.e) if (e.first.size() > 255) return true;
  for (auto &s : t.s) if (s.first.size() > 255 || tree_has_long(s.second)) return true;
  return false;
}

static void direct_case(const Tree &t, const std::vector<Att> &atts, bool has_model, bool model_eok, const std::vector<int> &model_bytes) {
  auto gm = make_gm(t, atts);
  EncoderBuffer eb;
  MetadataEncoder me;
  const bool eok = me.EncodeGeometryMetadata(&eb, gm.get());
  Bytes bytes(eb.data(), eb.data() + eb.size());
  Tree o; std::vector<Att> oa; bool dok = false;
  if (eok) {
    DecoderBuffer db;
    db.Init(eb.data(), eb.size());
    GeometryMetadata gout;
    MetadataDecoder md;
    dok = md.DecodeGeometryMetadata(&db, &gout) && db.remaining_size() == 0;
    if (dok) read_gm(&gout, &o, &oa);
  }
  bool has_long = tree_has_long(t);
  for (auto &a : atts) has_long = has_long || tree_has_long(a.t);
  g_in_uids.clear(); g_out_uids.clear();
  emit("direct", t, atts, eok, dok, o, oa, &bytes, has_model, model_eok, model_bytes, has_long);
}

// full codec: geometry with one int32 position attribute whose unique id is the attribute-metadata id (if any)
// streams kept for the concurrent phase: bytes, whether a mesh, and the serialised tree + attribute metadata a decode on its own returned
struct Kept { std::vector<char> bytes; bool is_mesh; std::string solo; };
static std::vector<Kept> g_kept;
static void codec_case(int via, const Tree &t, const std::vector<Att> &atts) {
  static const char *names[] = {"pc_seq", "pc_kd", "mesh_eb", "mesh_seq"};
  const bool is_mesh = via >= 2;
  std::unique_ptr<PointCloud> pc(is_mesh ? new Mesh() : new PointCloud());
  const int np = 4;
  pc->set_num_points(np);
  GeometryAttribute ga;
  ga.Init(GeometryAttribute::POSITION, nullptr, 3, DT_INT32, false, 12, 0);
  const int aid = pc->AddAttribute(ga, true, np);
  for (int i = 0; i < np; ++i) { int32_t p[3] = {i, i * i, 7 - i}; pc->attribute(aid)->SetAttributeValue(AttributeValueIndex(i), p); }
  // a second attribute so that unique ids and attribute order differ
  GeometryAttribute gb;
  gb.Init(GeometryAttribute::GENERIC, nullptr, 1, DT_UINT8, false, 1, 0);
  const int bid = pc->AddAttribute(gb, true, np);
  for (int i = 0; i < np; ++i) { uint8_t x = (uint8_t)(3 * i); pc->attribute(bid)->SetAttributeValue(AttributeValueIndex(i), &x); }
  pc->attribute(bid)->set_unique_id(77);
  if (!atts.empty()) pc->attribute(aid)->set_unique_id(atts[0].id); else pc->attribute(aid)->set_unique_id(9);
  g_in_uids.clear(); g_out_uids.clear();
  for (int a = 0; a < pc->num_attributes(); ++a) g_in_uids.push_back((int)pc->attribute(a)->unique_id());
  std::sort(g_in_uids.begin(), g_in_uids.end());
  if (is_mesh) {
    Mesh *m = static_cast<Mesh *>(pc.get());
    Mesh::Face f; f[0] = PointIndex(0); f[1] = PointIndex(1); f[2] = PointIndex(2); m->AddFace(f);
    f[0] = PointIndex(2); f[1] = PointIndex(1); f[2] = PointIndex(3); m->AddFace(f);
  }
  pc->AddMetadata(make_gm(t, atts));
  EncoderBuffer eb;
  Encoder enc;
  enc.SetSpeedOptions(via == 1 ? 5 : 7, 7);
  Status st;
  if (is_mesh) { enc.SetEncodingMethod(via == 2 ? MESH_EDGEBREAKER_ENCODING : MESH_SEQUENTIAL_ENCODING); st = enc.EncodeMeshToBuffer(*static_cast<Mesh *>(pc.get()), &eb); }
  else { enc.SetEncodingMethod(via == 1 ? POINT_CLOUD_KD_TREE_ENCODING : POINT_CLOUD_SEQUENTIAL_ENCODING); st = enc.EncodePointCloudToBuffer(*pc, &eb); }
  Tree o; std::vector<Att> oa; bool dok = false;
  if (st.ok()) {
    DecoderBuffer db;
    db.Init(eb.data(), eb.size());
    Decoder dec;
    std::unique_ptr<PointCloud> res;
    if (is_mesh) { auto r = dec.DecodeMeshFromBuffer(&db); if (r.ok()) res = std::move(r).value(); }
    else { auto r = dec.DecodePointCloudFromBuffer(&db); if (r.ok()) res = std::move(r).value(); }
    if (res && res->GetMetadata()) { dok = true; read_gm(res->GetMetadata(), &o, &oa); }
    if (dok && g_kept.size() < 24 && eb.size() > 60 && eb.size() < 20000) g_kept.push_back({std::vector<char>(eb.data(), eb.data() + eb.size()), is_mesh, jtree(o) + jatts(oa)});
    if (res) { for (int a = 0; a < res->num_attributes(); ++a) g_out_uids.push_back((int)res->attribute(a)->unique_id()); std::sort(g_out_uids.begin(), g_out_uids.end()); }
  }
  emit(names[via], t, atts, st.ok(), dok, o, oa, nullptr, false, false, {}, true);
}

static int run_replay(const char *path, int codec_mod) {
  FILE *f = fopen(path, "r");
  if (!f) return 2;
  std::string line;
  long k = 0;
  while (vrt::read_line(f, line)) {
    if (line.empty()) continue;
    vrt::J row = vrt::jparse_line(line);
    Tree t = parse_tree(row["tree"]);
    std::vector<Att> atts;
    for (auto &a : row["atts"].a) atts.push_back({(int)a[0].n, parse_tree(a[1])});
    direct_case(t, atts, true, row["eok"].n != 0, row["bytes"].ints());
    if (k % codec_mod == 0) codec_case((int)((k / codec_mod) % 4), t, atts);
    ++k;
  }
  fclose(f);
  fprintf(stderr, "STATS rows=%ld\n", k);
  return 0;
}

static Bytes rnd_name(vrt::Rng &r) {
  int n;
  switch (r.range(0, 9)) { case 0: n = 0; break; case 1: n = 255; break; case 2: n = 254; break; case 3: n = r.coin(1, 6) ? 256 : 128; break; default: n = r.range(1, 12); }
  Bytes b(n);
  for (auto &x : b) x = r.coin(1, 5) ? (uint8_t)r.range(128, 255) : (uint8_t)r.range(0, 127);
  return b;
}
static Bytes rnd_val(vrt::Rng &r) {
  int n;
  switch (r.range(0, 9)) { case 0: n = 0; break; case 1: n = 65536; break; case 2: n = r.range(127, 129); break; case 3: n = r.range(16383, 16385); break; default: n = r.range(1, 40); }
  Bytes b(n);
  for (auto &x : b) x = (uint8_t)r.range(0, 255);
  return b;
}
static Tree rnd_tree(vrt::Rng &r, int depth) {
  Tree t;
  std::vector<std::pair<Bytes, Bytes>> es;
  const int ne = r.coin(1, 5) ? 0 : r.range(1, depth == 0 ? 6 : 3);
  for (int i = 0; i < ne; ++i) es.push_back({rnd_name(r), rnd_val(r)});
  std::sort(es.begin(), es.end(), [](auto &a, auto &b) { return a.first < b.first; });
  for (auto &e : es) if (t.e.empty() || t.e.back().first != e.first) t.e.push_back(e);
  if (depth > 0) {
    const int ns = r.range(0, 2);
    std::vector<std::pair<Bytes, Tree>> ss;
    for (int i = 0; i < ns; ++i) ss.push_back({rnd_name(r), rnd_tree(r, r.coin(1, 3) ? depth - 1 : 0)});
    std::sort(ss.begin(), ss.end(), [](auto &a, auto &b) { return a.first < b.first; });
    for (auto &s : ss) if (t.s.empty() || t.s.back().first != s.first) t.s.push_back(s);
  }
  return t;
}
static int run_random(uint64_t seed, long n) {
  vrt::Rng r(seed);
  for (long i = 0; i < n; ++i) {
    Tree t = rnd_tree(r, r.range(0, 8));
    if (i % 60 == 7) {
      // a WIDE tree: one node with 1002 .. 1600 sub-metadata (the decoder's depth limit of 1000 is about nesting, not about siblings)
      Tree *node = &t;
      if (!t.s.empty() && r.coin()) node = &t.s[0].second;
      node->s.clear();
      const int w = r.range(1002, 1600);
      for (int k = 0; k < w; ++k) { Tree c; if (k % 97 == 0) c.e.push_back({Bytes{(uint8_t)'k'}, Bytes{(uint8_t)(k & 0xFF)}}); node->s.push_back({Bytes{(uint8_t)(k >> 8), (uint8_t)(k & 0xFF)}, c}); }
    }
    std::vector<Att> atts;
    // attribute metadata: none, one (unique ids up to 2^31 - 1: five-byte varints from 2^28 on), or 13 .. 40 of them
    if (r.coin(1, 2)) atts.push_back({r.coin(1, 4) ? r.range(0x10000000, 0x7fffffff) : r.range(0, 70000), rnd_tree(r, r.range(0, 2))});
    if (i % 25 == 3) { atts.clear(); const int na = r.range(13, 40); for (int k = 0; k < na; ++k) atts.push_back({1000 + 7 * k, rnd_tree(r, k % 5 == 0 ? 1 : 0)}); }
    if (r.coin(1, 3)) direct_case(t, atts, false, false, {});
    codec_case((int)(i % 4), t, atts);
  }
  // concurrent phase: four threads decode the kept streams over and over, each with its own Decoder / DecoderBuffer / output geometry; every decode must
  // return what the decode on its own returned (one thread's metadata never shows up in another's)
  if (g_kept.size() >= 2) {
    std::atomic<long> mismatches(0), decodes(0);
    auto work = [&](int tid) {
      for (int round = 0; round < 150; ++round)
        for (size_t k = 0; k < g_kept.size(); ++k) {
          const Kept &kp = g_kept[(k + (size_t)tid * 5) % g_kept.size()];
          DecoderBuffer db; db.Init(kp.bytes.data(), kp.bytes.size());
          Decoder dec;
          std::unique_ptr<PointCloud> res;
          if (kp.is_mesh) { auto rr = dec.DecodeMeshFromBuffer(&db); if (rr.ok()) res = std::move(rr).value(); }
          else { auto rr = dec.DecodePointCloudFromBuffer(&db); if (rr.ok()) res = std::move(rr).value(); }
          std::string got = "none";
          if (res && res->GetMetadata()) { Tree o; std::vector<Att> oa; read_gm(res->GetMetadata(), &o, &oa); got = jtree(o) + jatts(oa); }
          ++decodes;
          if (got != kp.solo) ++mismatches;
        }
    };
    std::vector<std::thread> th;
    for (int tid = 0; tid < 4; ++tid) th.emplace_back(work, tid);
    for (auto &x : th) x.join();
    out.begin("Conc").i("streams", (long long)g_kept.size()).i("decodes", decodes.load()).i("mismatches", mismatches.load()).end();
  }
  return 0;
}
int main(int argc, char **argv) {
  if (argc >= 4 && !strcmp(argv[1], "replay")) return run_replay(argv[2], atoi(argv[3]));
  if (argc >= 4 && !strcmp(argv[1], "random")) return run_random(strtoull(argv[2], 0, 10), atol(argv[3]));
  fprintf(stderr, "usage: drv_c11 replay <rows> <codec_mod> | random <seed> <n>\n");
  return 2;
}
