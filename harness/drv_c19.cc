// C19 driver: independent encoder / decoder instances on concurrent threads.   BUILD-KINDS: plain tsan
//   drv_c19 sched  <schedules.ndjson> <seed>     every TLC schedule enforced on real threads by a cooperative scheduler: the DRACO_VERIF_SCHED sites of the
//                                                 library are the schedule points; "run thread s_i up to its next schedule point" for every entry s_i
//   drv_c19 events <seed> <n>                     single-threaded: the schedule points every encode / decode call passes, in order (module Pipeline)
//   drv_c19 stress <nthreads> <rounds> <seed>     free-running threads (hooks off), each with its own geometries, option sets, Encoder / Decoder objects and buffers
// Every thread's results (hash of the encoded bytes, ordered digest of the decoded geometry, reported counts) are compared with the results of the same
// jobs run alone in a sequential pre-pass; one "Thread" record per thread and execution.  Under TSan the same stress exposes data races inside draco::.
#include <atomic>
#include <condition_variable>
#include <map>
#include <mutex>
#include <thread>
#include <sys/wait.h>
#include <unistd.h>
#include "geom.h"
#include "draco/metadata/geometry_metadata.h"
#include "draco/core/verif_hooks.h"
#include "draco/io/file_reader_factory.h"
#include "draco/io/file_reader_interface.h"
#include "draco/io/file_utils.h"
using namespace draco;
using namespace vg;
static vrt::Out out;

struct Job { Geom g; Opt o; };

// Two in-memory "file systems" plugged into the process-wide reader registry (FileReaderFactory::RegisterReader, public): names "mem:a:<k>" and
// "mem:b:<k>".  Every job stores its stream under a fresh name and reads it back through draco::ReadFileToBuffer: what one thread opens is no
// business of another's.
static std::mutex g_store_mu;
static std::map<std::string, std::vector<char>> g_store;
static std::atomic<long> g_store_seq(0);
template <char TAG>
class MemReader : public FileReaderInterface {
 public:
  static std::unique_ptr<FileReaderInterface> Open(const std::string &name) {
    const std::string prefix = std::string("mem:") + TAG + ":";
    if (name.compare(0, prefix.size(), prefix) != 0) return nullptr;
    std::lock_guard<std::mutex> lk(g_store_mu);
    auto it = g_store.find(name);
    if (it == g_store.end()) return nullptr;
    std::unique_ptr<MemReader> r(new MemReader());
    r->data_ = it->second;
    return std::unique_ptr<FileReaderInterface>(r.release());
  }
  bool ReadFileToBuffer(std::vector<char> *b) override { b->assign(data_.begin(), data_.end()); return true; }
  bool ReadFileToBuffer(std::vector<uint8_t> *b) override { b->assign(data_.begin(), data_.end()); return true; }
  size_t GetFileSize() override { return data_.size(); }
 private:
  std::vector<char> data_;
};
static void register_readers() {
  static bool done = false;
  if (done) return;
  done = true;
  FileReaderFactory::RegisterReader(MemReader<'a'>::Open);
  FileReaderFactory::RegisterReader(MemReader<'b'>::Open);
}
static std::vector<int> limbs(uint64_t h) { return {(int)((h >> 48) & 0xFFFF), (int)((h >> 32) & 0xFFFF), (int)((h >> 16) & 0xFFFF), (int)(h & 0xFFFF)}; }

static std::vector<int> run_job(const Job &j) {
  std::vector<int> res;
  Encoded e = encode(j.g, j.o);
  const uint64_t hb = vrt::fnv1a(e.bytes.data(), e.bytes.size());
  for (int x : limbs(hb)) res.push_back(x);
  res.push_back(e.ok ? 1 : 0);
  res.push_back(e.ok ? (int)(e.reported_points & 0xFFFFFF) : 0);     // what a failed encode leaves in the counters is not a result
  {  // the stream through the reader registry: stored under a fresh name in one of the two in-memory file systems, read back whole
    const long k = g_store_seq.fetch_add(1);
    const std::string name = std::string(hb & 1 ? "mem:a:" : "mem:b:") + std::to_string(k);
    { std::lock_guard<std::mutex> lk(g_store_mu); g_store[name] = e.bytes; }
    std::vector<char> back;
    const bool rok = ReadFileToBuffer(name, &back);
    res.push_back(rok && back == e.bytes ? 1 : 0);
    { std::lock_guard<std::mutex> lk(g_store_mu); g_store.erase(name); }
  }
  if (e.ok) {
    Decoded d = decode(e.bytes.data(), e.bytes.size());
    for (int x : limbs(d.ok ? geom_digest(*d.pc, d.is_mesh) : 7)) res.push_back(x);
    res.push_back(d.ok ? 1 : 0);
  }
  return res;
}

static std::vector<Job> make_jobs(vrt::Rng &r, int n) {
  std::vector<Job> jobs;
  GenParams gp; gp.max_points = 60; gp.max_faces = 90;
  for (int i = 0; i < n; ++i) {
    Job j;
    j.g = gen_geometry(r, r.coin(2, 3), gp);
    j.o = gen_options(r, j.g);
    if (r.coin(1, 6)) {
      // a grid mesh of more than 1000 faces, Edgebreaker with the sub-method left to the encoder, half of them with the predictive (valence) coder
      // switched off through EncoderOptions::SetSupportedFeature: the encoder's choice depends on ITS options and ITS mesh only
      const int side = 24 + r.range(0, 6);
      j.g = grid_mesh(side);
      j.o = Opt(); j.o.method = 1; j.o.submethod = -1; j.o.es = j.o.ds = r.range(0, 4); j.o.expert = true; j.o.qbits.assign(j.g.pc->num_attributes(), 0);
      j.o.no_predictive = r.coin();
    }
    else if (r.coin(1, 5)) {
      // a small grid with quantised float positions AND quantised float normals through Edgebreaker at speeds 0..3: the geometric normal predictor,
      // the tex-coord predictor's sibling, runs in encoder and decoder (per-corner data of a neighbour face is looked up for every value)
      const int side = r.range(4, 9);
      j.g = grid_mesh(side);
      const int np = side * side;
      AttDesc dn{GeometryAttribute::NORMAL, DT_FLOAT32, 3, false, true, np};
      const int in = add_attribute(j.g.pc.get(), dn, np);
      for (int v = 0; v < np; ++v) { float nn[3] = {(float)(r.unit() - 0.5), (float)(r.unit() - 0.5), 1.f}; const float l = std::sqrt(nn[0] * nn[0] + nn[1] * nn[1] + 1.f); for (float &q : nn) q /= l; j.g.pc->attribute(in)->SetAttributeValue(AttributeValueIndex(v), nn); }
      j.o = Opt(); j.o.method = 1; j.o.es = j.o.ds = r.range(0, 3); j.o.expert = r.coin(); j.o.qbits = {r.range(8, 14), r.range(6, 12)};
    }
    if (r.coin(1, 4)) {
      // nested metadata on the geometry (three levels)
      std::unique_ptr<GeometryMetadata> md(new GeometryMetadata());
      md->AddEntryInt("job", i);
      std::unique_ptr<Metadata> l1(new Metadata()), l2(new Metadata());
      l2->AddEntryString("leaf", "x");
      l1->AddSubMetadata("l2", std::move(l2));
      md->AddSubMetadata("l1", std::move(l1));
      j.g.pc->AddMetadata(std::move(md));
    }
    // float-valued options (explicit quantisation origin / range) travel through Options' string store: every job has its own values
    if (r.coin()) {
      for (int a = 0; a < j.g.pc->num_attributes(); ++a) {
        const PointAttribute *att = j.g.pc->attribute(a);
        if (att->data_type() != DT_FLOAT32 || att->attribute_type() == GeometryAttribute::NORMAL) continue;
        j.o.expert = true;
        j.o.explicit_att = a;
        j.o.explicit_dims = std::min<int>(att->num_components(), 16);
        j.o.explicit_origin = (float)(-1000.0 - 5000.0 * r.unit());
        j.o.explicit_range = (float)(20000.0 + 30000.0 * r.unit());
        if (j.o.qbits[a] == 0) j.o.qbits[a] = 12;
        break;
      }
    }
    jobs.push_back(std::move(j));
  }
  return jobs;
}

// ------------------------------------------------------------------------------------------------ cooperative scheduler
static std::mutex g_mu;
static std::condition_variable g_cv;
static std::vector<int> g_sched;
static size_t g_pos = 0;
static int g_turn = 0;
static std::vector<bool> g_done;
static thread_local int t_id = -1;

static void advance_locked() {
  // pick the next thread that may run: next schedule entry naming an unfinished thread, else the lowest unfinished thread
  while (g_pos < g_sched.size() && g_done[g_sched[g_pos]]) ++g_pos;
  if (g_pos < g_sched.size()) { g_turn = g_sched[g_pos]; return; }
  for (size_t t = 0; t < g_done.size(); ++t) if (!g_done[t]) { g_turn = (int)t; return; }
  g_turn = -1;
}
static void sched_point(const char *) {
  if (t_id < 0) return;
  std::unique_lock<std::mutex> lk(g_mu);
  // this thread has just reached a schedule point: consume its schedule entry and hand over
  if (g_pos < g_sched.size() && g_sched[g_pos] == t_id) ++g_pos;
  advance_locked();
  g_cv.notify_all();
  g_cv.wait(lk, [] { return g_turn == t_id; });
}
static void thread_begin(int id) {
  t_id = id;
  std::unique_lock<std::mutex> lk(g_mu);
  g_cv.wait(lk, [] { return g_turn == t_id; });
}
static void thread_end() {
  std::unique_lock<std::mutex> lk(g_mu);
  g_done[t_id] = true;
  advance_locked();
  g_cv.notify_all();
  t_id = -1;
}

static int run_sched(const char *path, uint64_t seed) {
  FILE *f = fopen(path, "r");
  if (!f) return 2;
  vrt::Rng r(seed);
  std::string line;
  long n = 0;
  while (vrt::read_line(f, line)) {
    if (line.empty()) continue;
    vrt::J row = vrt::jparse_line(line);
    const std::vector<int> sched = row["sched"].ints();
    const int nt = 1 + *std::max_element(sched.begin(), sched.end());
    // jobs per thread and their solo results (hooks off)
    verif::SchedSink() = nullptr;
    std::vector<std::vector<Job>> jobs(nt);
    std::vector<std::vector<int>> solo(nt), got(nt);
    for (int t = 0; t < nt; ++t) { jobs[t] = make_jobs(r, 2); for (auto &j : jobs[t]) { auto x = run_job(j); solo[t].insert(solo[t].end(), x.begin(), x.end()); } }
    // enforced schedule
    g_sched = sched; g_pos = 0; g_done.assign(nt, false);
    { std::unique_lock<std::mutex> lk(g_mu); advance_locked(); }
    verif::SchedSink() = sched_point;
    std::vector<std::thread> th;
    for (int t = 0; t < nt; ++t)
      th.emplace_back([&, t] {
        thread_begin(t);
        for (auto &j : jobs[t]) { auto x = run_job(j); got[t].insert(got[t].end(), x.begin(), x.end()); }
        thread_end();
      });
    for (auto &x : th) x.join();
    verif::SchedSink() = nullptr;
    for (int t = 0; t < nt; ++t) out.begin("Thread").s("mode", "sched").arr("sched", sched).i("thread", t).arr("solo", solo[t]).arr("got", got[t]).end();
    ++n;
  }
  fclose(f);
  fprintf(stderr, "STATS executions=%ld\n", n);
  return 0;
}

static int run_stress(int nthreads, int rounds, uint64_t seed) {
  vrt::Rng r(seed);
  verif::SchedSink() = nullptr;
  long n = 0;
  for (int round = 0; round < rounds; ++round) {
    std::vector<std::vector<Job>> jobs(nthreads);
    std::vector<std::vector<int>> solo(nthreads), got(nthreads);
    // the first round of a process runs the threads BEFORE the solo pass: anything the library initialises lazily (a table built on first use, a
    // registry filled on demand) is then initialised under concurrency, which is where an unsynchronised initialisation shows
    const bool threads_first = round == 0;
    auto solo_pass = [&] { for (int t = 0; t < nthreads; ++t) for (auto &j : jobs[t]) { auto x = run_job(j); solo[t].insert(solo[t].end(), x.begin(), x.end()); } };
    for (int t = 0; t < nthreads; ++t) jobs[t] = make_jobs(r, 6);
    if (!threads_first) solo_pass();
    // round 0: the "run alone" reference comes from a freshly forked child (forked before this process has encoded anything or started a thread):
    // whatever the library fixes per process on first use is fixed there by a single caller, here by whichever thread comes first
    bool solo_from_child = false;
    if (threads_first) {
      int fd[2];
      if (pipe(fd) == 0) {
        fflush(nullptr);
        const pid_t pid = fork();
        if (pid == 0) {
          close(fd[0]);
          solo_pass();
          for (int t = 0; t < nthreads; ++t) { const int n = (int)solo[t].size(); if (write(fd[1], &n, sizeof n) != sizeof n) _exit(3); if (n && write(fd[1], solo[t].data(), sizeof(int) * n) != (ssize_t)(sizeof(int) * n)) _exit(3); }
          _exit(0);
        }
        close(fd[1]);
        bool ok = pid > 0;
        for (int t = 0; t < nthreads && ok; ++t) {
          int n = 0;
          ok = read(fd[0], &n, sizeof n) == sizeof n && n >= 0 && n < (1 << 24);
          if (ok) { solo[t].resize(n); size_t got_b = 0; while (ok && got_b < sizeof(int) * n) { const ssize_t k = read(fd[0], (char *)solo[t].data() + got_b, sizeof(int) * n - got_b); if (k <= 0) ok = false; else got_b += (size_t)k; } }
        }
        close(fd[0]);
        int st = 0; if (pid > 0) waitpid(pid, &st, 0);
        solo_from_child = ok && WIFEXITED(st) && WEXITSTATUS(st) == 0;
        if (!solo_from_child) for (auto &x : solo) x.clear();
      }
    }
    std::vector<std::thread> th;
    std::atomic<int> go{0};
    for (int t = 0; t < nthreads; ++t)
      th.emplace_back([&, t] {
        while (!go.load()) {}
        for (int rep = 0; rep < 3; ++rep) {
          std::vector<int> mine;
          for (auto &j : jobs[t]) { auto x = run_job(j); mine.insert(mine.end(), x.begin(), x.end()); }
          if (rep == 0) got[t] = mine; else if (mine != got[t]) got[t].push_back(-1);   // a later repetition differing from the first one shows up too
        }
      });
    go = 1;
    for (auto &x : th) x.join();
    if (threads_first && !solo_from_child) solo_pass();
    for (int t = 0; t < nthreads; ++t) out.begin("Thread").s("mode", "stress").arr("sched", std::vector<int>{nthreads}).i("thread", t).arr("solo", solo[t]).arr("got", got[t]).end();
    ++n;
  }
  fprintf(stderr, "STATS executions=%ld\n", n);
  return 0;
}

// ------------------------------------------------------------------------------------------------ stage order of single calls (module Pipeline)
static std::vector<std::string> g_events;
static void record_point(const char *site) { g_events.push_back(site); }
static int run_events(uint64_t seed, long n) {
  vrt::Rng r(seed);
  verif::SchedSink() = record_point;
  for (long i = 0; i < n; ++i) {
    std::vector<Job> jobs = make_jobs(r, 1);
    const Job &j = jobs[0];
    g_events.clear();
    Encoded e = encode(j.g, j.o);
    auto emit = [&](const char *op, bool ok) {
      std::string ev = "[";
      for (size_t k = 0; k < g_events.size(); ++k) ev += std::string(k ? "," : "") + "\"" + g_events[k] + "\"";
      out.begin("Pipe").s("op", op).b("ok", ok).raw("ev", ev + "]").end();
    };
    emit("enc", e.ok);
    if (!e.ok) continue;
    // decode the stream, and a truncated copy of it (a failed call stops on the way)
    for (int cut = 0; cut < 2; ++cut) {
      std::vector<char> b = e.bytes;
      if (cut) b.resize(b.size() * (size_t)r.range(1, 9) / 10);
      g_events.clear();
      Decoded d = decode(b.data(), b.size());
      emit("dec", d.ok);
    }
  }
  verif::SchedSink() = nullptr;
  fprintf(stderr, "STATS executions=%ld\n", n);
  return 0;
}

int main(int argc, char **argv) {
  if (getenv("VERIF_RECORDS")) { out.f = fopen(getenv("VERIF_RECORDS"), "w"); if (!out.f) return 2; }
  register_readers();
  if (argc >= 4 && !strcmp(argv[1], "sched")) return run_sched(argv[2], strtoull(argv[3], 0, 10));
  if (argc >= 4 && !strcmp(argv[1], "events")) return run_events(strtoull(argv[2], 0, 10), atol(argv[3]));
  if (argc >= 5 && !strcmp(argv[1], "stress")) return run_stress(atoi(argv[2]), atoi(argv[3]), strtoull(argv[4], 0, 10));
  fprintf(stderr, "usage: drv_c19 sched <rows> <seed> | stress <nthreads> <rounds> <seed>\n");
  return 2;
}
