// C20 driver: keyframe animations.
//   drv_c20 replay <rows.ndjson>   call histories emitted by TLC (MC_Keyframe) replayed on the real KeyframeAnimation class
//   drv_c20 random <seed> <n>      random animations (1..200 frames, some up to 10^4; 0..8 tracks of 1..16 components, int / float data,
//                                  optional per-track quantisation, speeds 0..10, timestamps before or after the tracks) round-tripped
//                                  through KeyframeAnimationEncoder / KeyframeAnimationDecoder; quantised tracks are also written as
//                                  QRow records for tools/project.py (C04's half-step bound)
#include "geom.h"
#include "draco/animation/keyframe_animation.h"
#include "draco/animation/keyframe_animation_decoder.h"
#include "draco/animation/keyframe_animation_encoder.h"
#include "draco/compression/config/decoder_options.h"
#include "draco/compression/config/encoder_options.h"
using namespace draco;
using namespace vg;
static vrt::Out out;
static uint32_t fbits(float f) { uint32_t u; memcpy(&u, &f, 4); return u; }

static int run_replay(const char *path) {
  FILE *f = fopen(path, "r");
  if (!f) return 2;
  std::string line;
  while (vrt::read_line(f, line)) {
    if (line.empty()) continue;
    vrt::J row = vrt::jparse_line(line);
    KeyframeAnimation anim;
    std::vector<int> rets, model;
    bool retrievable = true;
    std::vector<std::pair<int, std::vector<float>>> added;
    for (auto &c : row["calls"].a) {
      const int n = (int)c["n"].n, comps = (int)c["comps"].n;
      model.push_back((int)c["ret"].n);
      if (c["c"].s == "ts") {
        std::vector<float> ts(n);
        for (int i = 0; i < n; ++i) ts[i] = 0.5f * i;
        rets.push_back(anim.SetTimestamps(ts) ? 1 : 0);
      } else {
        std::vector<float> data((size_t)n * comps);
        for (size_t i = 0; i < data.size(); ++i) data[i] = (float)(rets.size() * 100 + i);
        const int id = anim.AddKeyframes(DT_FLOAT32, comps, data);
        rets.push_back(id);
        if (id >= 0) added.push_back({id, data});
      }
    }
    for (auto &t : added) {
      const PointAttribute *a = anim.keyframes(t.first);
      if (!a || a->size() * a->num_components() != t.second.size()) { retrievable = false; continue; }
      for (size_t i = 0; i < t.second.size() && retrievable; ++i) {
        float v;
        memcpy(&v, a->GetAddress(AttributeValueIndex(i / a->num_components())) + 4 * (i % a->num_components()), 4);
        retrievable = v == t.second[i];
      }
    }
    const bool has_atts = anim.num_attributes() > 0;
    out.begin("Hist").arr("rets", rets).arr("model_rets", model).i("frames", has_atts ? anim.num_frames() : -1).i("model_frames", (int)row["frames"].n)
        .b("retrievable", retrievable).end();
  }
  fclose(f);
  return 0;
}

static int run_random(uint64_t seed, long n) {
  vrt::Rng r(seed);
  for (long i = 0; i < n; ++i) {
    // i % 300 == 149: 10000 frames x 16 components whose frame-to-frame differences take more than 65536 distinct values, coded at speed 0 (the largest
    // alphabet class of the raw symbol coder plus the speed-dependent adjustment of its bit length)
    const bool manyd = i % 300 == 149;
    const int frames = manyd ? 10000 : (i % 100 == 99) ? r.range(2000, 10000) : (i % 100 == 49 ? 4096 : r.range(1, 200));
    const int ntracks = (frames == 4096 || manyd) ? r.range(1, 3) : r.range(0, 8);
    const bool ts_first = r.coin();
    KeyframeAnimation anim;
    std::vector<float> ts(frames);
    float t0 = 0;
    for (int k = 0; k < frames; ++k) { t0 += (float)r.unit(); ts[k] = t0; }
    if (r.coin(1, 10)) std::reverse(ts.begin(), ts.end());   // order is data, not sorted by the codec
    struct Track { int id; int comps; DataType dt; int q; std::vector<float> f; std::vector<int32_t> iv; bool deleted = false; std::vector<char> bytes; int es = 4; };
    std::vector<Track> tracks;
    if (ts_first) anim.SetTimestamps(ts);
    for (int t = 0; t < ntracks; ++t) {
      Track tr;
      tr.comps = r.coin(1, 4) ? 16 : r.range(1, 4);
      tr.dt = r.coin(3, 4) ? DT_FLOAT32 : DT_INT32;
      if ((frames == 4096 || manyd) && t == 0) { tr.comps = 16; tr.dt = DT_INT32; }
      tr.q = (tr.dt == DT_FLOAT32 && r.coin(1, 3)) ? r.range(4, 20) : 0;
      if (tr.dt == DT_FLOAT32) {
        tr.f.resize((size_t)frames * tr.comps);
        const float mag = (float)std::pow(10.0, r.range(-3, 3));
        for (auto &x : tr.f) x = (float)((r.unit() - 0.5) * mag);
        tr.id = anim.AddKeyframes(DT_FLOAT32, tr.comps, tr.f);
      } else {
        tr.iv.resize((size_t)frames * tr.comps);
        // value classes: moderate, hugging INT32_MAX, hugging INT32_MIN, the whole int32 range, constant
        if (manyd && t == 0) {
          // 7 components change in every frame by a difference nobody else uses (values wrapped into [0, 2^17)), 9 components are constant: more than
          // 65536 distinct residual symbols AND a dominant symbol, so that one big table (raw scheme) beats tagging every value with its bit length
          std::vector<int32_t> cur(tr.comps, 0);
          uint32_t kk = 0;
          const int32_t R = 1 << 17;
          for (int k = 0; k < frames; ++k) for (int c = 0; c < tr.comps; ++c) {
            int32_t v;
            if (c < 7) {
              const uint32_t sy = 1 + (uint32_t)(((uint64_t)kk++ * 48271u) % 131071u);     // 131071 is prime: distinct values of [1, 131071]
              const int32_t dlt = (sy & 1) ? -(int32_t)(sy >> 1) - 1 : (int32_t)(sy >> 1);
              v = ((cur[c] + dlt) % R + R) % R;
            } else v = c == 7 ? 0 : c == 8 ? R - 1 : 5;
            cur[c] = v;
            tr.iv[(size_t)k * tr.comps + c] = v;
          }
          tr.id = anim.AddKeyframes(DT_INT32, tr.comps, tr.iv);
          tracks.push_back(tr);
          continue;
        }
        // integer tracks of the narrow types (8 and 16 bits, signed and unsigned): a fifth of the integer tracks, values over the whole type
        if (!(frames == 4096 && t == 0) && r.coin(1, 5)) {
          // (64-bit integers are stored as they are -- no integer coding path takes them)
          static const DataType nts[] = {DT_INT8, DT_UINT8, DT_INT16, DT_UINT16, DT_INT64, DT_UINT64};
          tr.dt = nts[r.range(0, 5)];
          tr.es = (tr.dt == DT_INT8 || tr.dt == DT_UINT8) ? 1 : (tr.dt == DT_INT64 || tr.dt == DT_UINT64) ? 8 : 2;
          const bool narrow_span = r.coin(1, 3);
          auto fill = [&](auto proto) {
            typedef decltype(proto) T;
            std::vector<T> data((size_t)frames * tr.comps);
            const int64_t lo = std::numeric_limits<T>::min(), hi = std::numeric_limits<T>::max();
            for (auto &x : data) x = sizeof(T) == 8 ? (T)(narrow_span ? (uint64_t)hi - r.below(9) : r.next()) : (T)(narrow_span ? (hi - (int64_t)r.below(9)) : (lo + (int64_t)r.below((uint64_t)(hi - lo + 1))));
            tr.bytes.assign((const char *)data.data(), (const char *)data.data() + data.size() * sizeof(T));
            tr.id = anim.AddKeyframes(tr.dt, tr.comps, data);
          };
          if (tr.dt == DT_INT8) fill((int8_t)0); else if (tr.dt == DT_UINT8) fill((uint8_t)0); else if (tr.dt == DT_INT16) fill((int16_t)0); else if (tr.dt == DT_UINT16) fill((uint16_t)0);
          else if (tr.dt == DT_INT64) fill((int64_t)0); else fill((uint64_t)0);
          tr.iv.clear();
          tracks.push_back(tr);
          continue;
        }
        const bool forced = frames == 4096 && t == 0;     // the 4096-frame animations always carry one 16-component hold-or-step track with 1025 residual symbols
        const int cls = forced ? 6 : r.range(0, 6);
        const int32_t konst = (int32_t)r.u32();
        if (cls == 6) {
          // "hold or step": per component exactly half of the frame-to-frame deltas are 0, the other half spread evenly over +-1..+-W (W = 2^k): with
          // enough frames the residual alphabet is large and one symbol holds probability exactly 1/2 -- the table-precision boundaries of the entropy coder
          const int W = forced ? 512 : 1 << r.range(3, 9);
          // even components step on odd frames, odd components on even frames, every component walks the steps from another start: no frame is all
          // holds, so coding every value with the raw scheme (one big table) beats tagging whole frames with their bit length
          for (int c = 0; c < tr.comps; ++c) {
            int32_t cur = 0; int n = 37 * c;
            for (int k = 0; k < frames; ++k) {
              if ((k % 2) == (c % 2 ? 0 : 1)) { cur += (int32_t)((n % W) + 1) * ((n / W) % 2 ? -1 : 1); ++n; }
              tr.iv[(size_t)k * tr.comps + c] = cur;
            }
          }
        } else
        for (auto &x : tr.iv)
          x = cls <= 1 ? r.range(-100000, 100000) : cls == 2 ? INT32_MAX - r.range(0, 200) : cls == 3 ? INT32_MIN + r.range(0, 200) : cls == 4 ? (int32_t)r.u32() : konst;
        tr.id = anim.AddKeyframes(DT_INT32, tr.comps, tr.iv);
      }
      tracks.push_back(tr);
    }
    if (!ts_first) anim.SetTimestamps(ts);
    // a track may be removed again before encoding (PointCloud::DeleteAttribute, public): the remaining ids are then not contiguous
    int ndeleted = 0;
    if (tracks.size() >= 2 && r.coin(1, 3))
      for (int k = r.range(1, 2); k > 0; --k) {
        Track &tr = tracks[r.range(0, (int)tracks.size() - 2)];     // never the last one only: keep a hole in the id sequence
        if (tr.deleted || tr.id < 0) continue;
        const int idx = anim.GetAttributeIdByUniqueId(tr.id);
        if (idx < 0) continue;
        anim.DeleteAttribute(idx);
        tr.deleted = true; ++ndeleted;
      }
    EncoderOptions eo = EncoderOptions::CreateDefaultOptions();
    // the forced hold-or-step track reaches the 2-byte / 3-byte boundary of the probability table (probability exactly 2^14) at the speeds whose table precision is 15 bits
    const int speed = manyd ? 0 : frames == 4096 ? 5 + (int)(i / 100) % 2 : r.range(0, 10);
    eo.SetSpeed(speed, speed);
    const bool builtin = !r.coin(1, 5);
    if (!builtin) eo.SetGlobalBool("use_built_in_attribute_compression", false);    // values stored with the smallest sufficient byte width instead of entropy coded
    // per-track options in ascending or (odd cases) descending track order: the order of the calls is the caller's business
    for (size_t tk = 0; tk < tracks.size(); ++tk) {
      auto &tr = tracks[(i % 2) ? tracks.size() - 1 - tk : tk];
      if (tr.q > 0 && tr.id >= 0 && !tr.deleted) eo.SetAttributeInt(anim.GetAttributeIdByUniqueId(tr.id), "quantization_bits", tr.q);
    }
    EncoderBuffer eb;
    // every second case runs on ONE encoder object that has encoded all earlier ones; every tenth of those first hands it an animation it has to
    // refuse (a NaN in a track that is to be quantised): neither leaves anything behind
    static KeyframeAnimationEncoder reused_enc;
    KeyframeAnimationEncoder fresh_enc;
    KeyframeAnimationEncoder &enc = (i % 2) ? reused_enc : fresh_enc;
    if (i % 20 == 1) {
      KeyframeAnimation bad;
      std::vector<float> bts = {0.f, 1.f, 2.f}, bv = {0.5f, std::numeric_limits<float>::quiet_NaN(), 1.5f};
      bad.SetTimestamps(bts);
      const int bid = bad.AddKeyframes(DT_FLOAT32, 1, bv);
      EncoderOptions beo = EncoderOptions::CreateDefaultOptions();
      beo.SetAttributeInt(bad.GetAttributeIdByUniqueId(bid), "quantization_bits", 10);
      EncoderBuffer beb;
      (void)enc.EncodeKeyframeAnimation(bad, beo, &beb);
    }
    const Status st = enc.EncodeKeyframeAnimation(anim, eo, &eb);
    KeyframeAnimation outa;
    bool dok = false;
    if (st.ok()) {
      DecoderBuffer db;
      db.Init(eb.data(), eb.size());
      // every second animation is decoded by ONE decoder object that has decoded all earlier ones (other frame counts, other tracks)
      static KeyframeAnimationDecoder reused_dec;
      KeyframeAnimationDecoder fresh_dec;
      KeyframeAnimationDecoder &dec = (i % 2) ? reused_dec : fresh_dec;
      DecoderOptions dopt;
      dok = dec.Decode(dopt, &db, &outa).ok();
    }
    // the codec's documented reach: integer tracks whose value range stays below 2^30 (the wrap transform and the symbol coders handle ranges below 2^31 - 1;
    // the band up to there is left undecided).  Inside it a valid animation must encode -- a refusal is a failure of "encoding ... and decoding it returns"
    bool must_encode = true;
    for (const Track &tr : tracks) {
      if (tr.deleted || tr.dt != DT_INT32 || tr.iv.empty()) continue;
      const auto mm = std::minmax_element(tr.iv.begin(), tr.iv.end());
      if ((int64_t)*mm.second - (int64_t)*mm.first >= (1ll << 30)) must_encode = false;
    }
    out.begin("Anim").i("case", i).i("frames", frames).i("speed", speed).b("builtin", builtin).b("must_encode", must_encode).b("ts_first", ts_first).b("eok", st.ok()).b("dok", dok).i("out_frames", dok ? outa.num_frames() : -1);
    // timestamps: value ids per frame
    {
      Dict d; std::vector<int> a, b;
      for (int k = 0; k < frames; ++k) a.push_back(d.id(std::string((const char *)&ts[k], 4)));
      const PointAttribute *ta = dok ? outa.timestamps() : nullptr;
      const bool found = ta && ta->data_type() == DT_FLOAT32 && ta->num_components() == 1;
      if (found) for (PointIndex p(0); p < outa.num_points(); ++p) b.push_back(d.id(raw_key(ta, p)));
      out.b("ts_found", found).arr("ts_in", a).arr("ts_out", b);
    }
    out.i("deleted", ndeleted);
    std::string tj = "[";
    bool firstt = true;
    for (size_t t = 0; t < tracks.size(); ++t) {
      const Track &tr = tracks[t];
      if (tr.deleted) continue;
      const PointAttribute *ka = (dok && tr.id >= 0) ? outa.keyframes(tr.id) : nullptr;
      Dict d; std::vector<int> a, b;
      const size_t vs = (size_t)tr.es * tr.comps;
      for (int k = 0; k < frames; ++k) {
        const char *src = !tr.bytes.empty() ? &tr.bytes[(size_t)k * vs] : tr.dt == DT_FLOAT32 ? (const char *)&tr.f[(size_t)k * tr.comps] : (const char *)&tr.iv[(size_t)k * tr.comps];
        a.push_back(d.id(std::string(src, vs)));
      }
      if (ka) for (PointIndex p(0); p < outa.num_points(); ++p) b.push_back(d.id(raw_key(ka, p)));
      if (!firstt) tj += ",";
      firstt = false;
      tj += "{\"id\":" + std::to_string(tr.id) + ",\"comps\":" + std::to_string(tr.comps) + ",\"dt\":" + std::to_string((int)tr.dt) + ",\"q\":" + std::to_string(tr.q) +
            ",\"found\":" + (ka ? "true" : "false") + ",\"comps_out\":" + std::to_string(ka ? (int)ka->num_components() : -1) + ",\"dt_out\":" + std::to_string(ka ? (int)ka->data_type() : -1) +
            ",\"inp\":" + jarr(a) + ",\"out\":" + jarr(b) + "}";
    }
    out.raw("tracks", tj + "]").end();
    // quantised tracks in the raw format of the numeric projector (one QRow per track)
    for (const Track &tr : tracks) {
      if (tr.q == 0 || !dok || tr.id < 0 || tr.deleted) continue;
      const PointAttribute *ka = outa.keyframes(tr.id);
      if (!ka || ka->data_type() != DT_FLOAT32) continue;
      std::string xs = "[", xd = "[";
      for (int k = 0; k < frames && k < 400; ++k) {
        if (k) { xs += ","; xd += ","; }
        std::vector<float> o(tr.comps);
        ka->GetValue(ka->mapped_index(PointIndex(k)), o.data());
        xs += "["; xd += "[";
        for (int c = 0; c < tr.comps; ++c) { if (c) { xs += ","; xd += ","; } xs += std::to_string(fbits(tr.f[(size_t)k * tr.comps + c])); xd += std::to_string(fbits(o[c])); }
        xs += "]"; xd += "]";
      }
      if (frames > 400) continue;   // the automatic range is the extent over ALL frames: only complete tracks are projected
      out.begin("QRow").i("row", i).i("q", tr.q).i("nc", tr.comps).s("m", "anim").i("es", speed).i("pred", -100).b("builtin", true).b("expert", true).i("type", 4)
          .b("explicit", false).raw("origin", "[]").i("erange", 0).b("eok", true).s("err", "").b("dok", true).b("skipok", false).raw("min", "[]").i("range", 0).i("bits", tr.q)
          .raw("x", xs + "]").raw("xd", xd + "]").raw("k", "[]").end();
    }
  }
  return 0;
}

// very many tiny animations (one int32 track, about 19 frames of small values) in-process: the final state of the entropy coder sweeps its range,
// including the exact boundaries between the forms in which it is flushed.  Mismatches and every 4000th animation are written out as Anim records.
static int run_tiny(uint64_t seed, long n) {
  vrt::Rng r(seed);
  long bad = 0;
  for (long i = 0; i < n; ++i) {
    const int frames = r.range(8, 30), top = r.range(4, 40);
    std::vector<float> ts(frames);
    for (int k = 0; k < frames; ++k) ts[k] = (float)k;
    std::vector<int32_t> iv(frames);
    for (auto &x : iv) x = r.range(0, top);
    KeyframeAnimation anim;
    anim.SetTimestamps(ts);
    const int id = anim.AddKeyframes(DT_INT32, 1, iv);
    EncoderOptions eo = EncoderOptions::CreateDefaultOptions();
    const int speed = r.range(0, 10);
    eo.SetSpeed(speed, speed);
    EncoderBuffer eb;
    KeyframeAnimationEncoder enc;
    const bool eok = enc.EncodeKeyframeAnimation(anim, eo, &eb).ok();
    KeyframeAnimation outa;
    bool dok = false, same = false;
    if (eok) {
      DecoderBuffer db; db.Init(eb.data(), eb.size());
      KeyframeAnimationDecoder dec; DecoderOptions dopt;
      dok = dec.Decode(dopt, &db, &outa).ok();
      const PointAttribute *ka = dok ? outa.keyframes(id) : nullptr;
      same = ka && (int)outa.num_frames() == frames && ka->data_type() == DT_INT32;
      for (int k = 0; same && k < frames; ++k) { int32_t v = 0; ka->GetValue(ka->mapped_index(PointIndex(k)), &v); same = v == iv[k]; }
    }
    if (!(eok && dok && same)) ++bad;
    if ((!(eok && dok && same) && bad <= 50) || i % 4000 == 0) {
      std::vector<int> a, b;
      Dict d;
      for (int k = 0; k < frames; ++k) a.push_back(d.id(std::string((const char *)&iv[k], 4)));
      const PointAttribute *ka = dok ? outa.keyframes(id) : nullptr;
      if (ka) for (PointIndex p(0); p < outa.num_points(); ++p) b.push_back(d.id(raw_key(ka, p)));
      std::vector<int> tsi; for (int k = 0; k < frames; ++k) tsi.push_back(k);
      std::vector<int> tso; const PointAttribute *ta = dok ? outa.timestamps() : nullptr; bool tsf = ta != nullptr;
      if (tsf) { Dict dt; for (int k = 0; k < frames; ++k) dt.id(std::string((const char *)&ts[k], 4)); for (PointIndex p(0); p < outa.num_points(); ++p) tso.push_back(dt.id(raw_key(ta, p))); }
      out.begin("Anim").i("case", 1000000 + i).i("frames", frames).i("speed", speed).b("builtin", true).b("must_encode", true).b("ts_first", true).b("eok", eok).b("dok", dok)
          .i("out_frames", dok ? outa.num_frames() : -1).b("ts_found", tsf).arr("ts_in", tsi).arr("ts_out", tso).i("deleted", 0);
      out.raw("tracks", "[{\"id\":" + std::to_string(id) + ",\"comps\":1,\"dt\":" + std::to_string((int)DT_INT32) + ",\"q\":0,\"found\":" + (ka ? "true" : "false") +
              ",\"comps_out\":" + std::to_string(ka ? (int)ka->num_components() : -1) + ",\"dt_out\":" + std::to_string(ka ? (int)ka->data_type() : -1) + ",\"inp\":" + jarr(a) + ",\"out\":" + jarr(b) + "}]").end();
    }
  }
  fprintf(stderr, "STATS tiny=%ld bad=%ld\n", n, bad);
  return 0;
}

int main(int argc, char **argv) {
  if (argc >= 3 && !strcmp(argv[1], "replay")) return run_replay(argv[2]);
  if (argc >= 4 && !strcmp(argv[1], "tiny")) return run_tiny(strtoull(argv[2], 0, 10), atol(argv[3]));
  if (argc >= 4 && !strcmp(argv[1], "random")) return run_random(strtoull(argv[2], 0, 10), atol(argv[3]));
  fprintf(stderr, "usage: drv_c20 replay <rows> | random <seed> <n>\n");
  return 2;
}
