// C06 driver: call histories emitted by TLC (MC_Lifecycle) replayed on REAL, REUSED objects.
//   drv_c06 replay <rows.ndjson>
// Per history: one high-level Encoder whose options persist between calls, one reused ExpertEncoder per geometry, one reused low-level encoder object per geometry kind
// (MeshEdgebreakerEncoder via SetMesh + Encode, PointCloudSequentialEncoder via SetPointCloud + Encode), one EncoderBuffer that is cleared only
// when the history says so, one reused Decoder.  Geometry 1 is a mesh, geometry 2 a point cloud; option set 1 = speed 10 with 14-bit positions, 2 = speed 0 with 10-bit
// positions, 3 = invalid (31 quantisation bits: the encoder must refuse it every time).
#include "geom.h"
#include "draco/metadata/geometry_metadata.h"
#include "draco/compression/mesh/mesh_edgebreaker_encoder.h"
#include "draco/compression/point_cloud/point_cloud_sequential_encoder.h"
using namespace draco;
using namespace vg;
static vrt::Out out;

static Geom make_geom(int g) {
  vrt::Rng r(4242 + g);
  Geom x;
  x.is_mesh = g == 1;
  x.pc.reset(x.is_mesh ? new Mesh() : new PointCloud());
  const int np = 9;
  x.pc->set_num_points(np);
  AttDesc p{GeometryAttribute::POSITION, DT_FLOAT32, 3, false, true, np};
  const int pid = add_attribute(x.pc.get(), p, np);
  for (int i = 0; i < np; ++i) { float v[3] = {(float)(i % 3) + 0.25f * g, (float)(i / 3), (float)r.unit()}; x.pc->attribute(pid)->SetAttributeValue(AttributeValueIndex(i), v); }
  AttDesc c{GeometryAttribute::GENERIC, DT_UINT8, 2, false, true, np};
  const int cid = add_attribute(x.pc.get(), c, np);
  for (int i = 0; i < np; ++i) { uint8_t v[2] = {(uint8_t)(i * 7), (uint8_t)(g * 50 + i)}; x.pc->attribute(cid)->SetAttributeValue(AttributeValueIndex(i), v); }
  {  // both geometries carry metadata: the header flag and the metadata block are written relative to where the stream starts in the buffer
    std::unique_ptr<GeometryMetadata> md(new GeometryMetadata());
    md->AddEntryString("name", g == 1 ? "mesh" : "cloud");
    md->AddEntryInt("answer", 40 + g);
    x.pc->AddMetadata(std::move(md));
  }
  if (x.is_mesh)
    for (int y = 0; y < 2; ++y) for (int xx = 0; xx < 2; ++xx) {
      const int a = y * 3 + xx;
      Mesh::Face f; f[0] = PointIndex(a); f[1] = PointIndex(a + 1); f[2] = PointIndex(a + 3); x.mesh()->AddFace(f);
      f[0] = PointIndex(a + 1); f[1] = PointIndex(a + 4); f[2] = PointIndex(a + 3); x.mesh()->AddFace(f);
    }
  return x;
}

// Every option set names every option it depends on (speed and position bits), and nothing is reset between calls: what a call produces may depend
// on the options it sets, never on what an earlier call left behind.  Option set 1 uses speed 10 (sequential coding is auto-selected), 2 speed 0.
// The position grid is explicit in every option set (bits, origin, range): a second configuration of the same object has to replace all three.
static const float kOrigin[4][3] = {{0, 0, 0}, {-1.f, -1.f, -1.f}, {-2.f, -2.f, -2.f}, {-1.f, -0.5f, -1.f}};
static const float kRange[4] = {0, 8.f, 16.f, 4.f};
static const int kBits[4] = {0, 14, 10, 31}, kSpeed[4] = {0, 10, 0, 3};
static void apply_hl(Encoder *e, int o) {
  e->SetSpeedOptions(kSpeed[o], kSpeed[o]);
  e->SetAttributeExplicitQuantization(GeometryAttribute::POSITION, kBits[o], 3, kOrigin[o], kRange[o]);
}
static void apply_ex(ExpertEncoder *e, int o) {
  e->SetSpeedOptions(kSpeed[o], kSpeed[o]);
  e->SetAttributeExplicitQuantization(0, kBits[o], 3, kOrigin[o], kRange[o]);
}
static EncoderOptions ll_options(int o) {
  EncoderOptions eo = EncoderOptions::CreateDefaultOptions();
  eo.SetSpeed(kSpeed[o], kSpeed[o]);
  eo.SetAttributeInt(0, "quantization_bits", kBits[o]);
  eo.SetAttributeVector(0, "quantization_origin", 3, kOrigin[o]);
  eo.SetAttributeFloat(0, "quantization_range", kRange[o]);
  return eo;
}

static int run_replay(const char *path) {
  FILE *f = fopen(path, "r");
  if (!f) return 2;
  const Geom g1 = make_geom(1), g2 = make_geom(2);
  std::string line;
  long h = 0;
  while (vrt::read_line(f, line)) {
    if (line.empty()) continue;
    vrt::J row = vrt::jparse_line(line);
    ++h;
    out.begin("Reset").i("h", h).end();
    Encoder hl;
    ExpertEncoder ex_mesh(*g1.mesh()), ex_pc(*g2.pc);
    MeshEdgebreakerEncoder ll_mesh;
    PointCloudSequentialEncoder ll_pc;
    EncoderBuffer buf;
    // one Decoder and one DecoderBuffer object for every decode of the whole replay (mesh streams are 2.2, cloud streams 2.3: consecutive decodes switch versions)
    static Decoder dec;
    static DecoderBuffer reused_db;
    size_t last_start = 0, last_len = 0;
    int step = 0;
    for (auto &c : row["calls"].a) {
      ++step;
      const std::string a = c["a"].s;
      const int g = (int)c["g"].n, o = (int)c["o"].n;
      const Geom &geom = g == 1 ? g1 : g2;
      if (a == "hl" || a == "ll" || a == "ex") {
        const size_t before = buf.size();
        Status st;
        if (a == "hl") {
          apply_hl(&hl, o);
          st = geom.is_mesh ? hl.EncodeMeshToBuffer(*geom.mesh(), &buf) : hl.EncodePointCloudToBuffer(*geom.pc, &buf);
        } else if (a == "ex") {
          ExpertEncoder &ex = geom.is_mesh ? ex_mesh : ex_pc;
          apply_ex(&ex, o);
          st = ex.EncodeToBuffer(&buf);
        } else {
          const EncoderOptions eo = ll_options(o);
          if (geom.is_mesh) { ll_mesh.SetMesh(*geom.mesh()); st = ll_mesh.Encode(eo, &buf); }
          else { ll_pc.SetPointCloud(*geom.pc); st = ll_pc.Encode(eo, &buf); }
        }
        // a failed encode may have written a partial stream: the buffer contract of the spec is about successful encodes, so the harness
        // restores the buffer after a failure exactly as a caller would have to (it cannot know how much was written)
        size_t after = buf.size();
        if (!st.ok() && after != before) { buf.Resize((int64_t)before); after = before; }
        const uint64_t hsh = st.ok() ? vrt::fnv1a(buf.data() + before, after - before) : 0;
        if (st.ok()) { last_start = before; last_len = after - before; }
        out.begin("Enc").i("h", h).i("i", step).s("api", a).i("g", g).i("o", o).b("ok", st.ok()).raw("hash", h64(hsh)).i("before", (long long)before).i("after", (long long)after)
            .i("len", (long long)(after - before)).end();
      } else if (a == "clear") {
        buf.Clear();
        last_len = 0;
        out.begin("Clear").i("h", h).i("i", step).end();
      } else {  // dec: the last successfully encoded stream of the buffer, followed by `g` foreign bytes
        if (last_len == 0) continue;
        const int trail = g;
        std::vector<char> s(buf.data() + last_start, buf.data() + last_start + last_len);
        const uint64_t sh = vrt::fnv1a(s.data(), s.size());
        for (int k = 0; k < trail; ++k) s.push_back((char)(0x5A + k));
        DecoderBuffer db;
        db.Init(s.data(), s.size());
        auto t = Decoder::GetEncodedGeometryType(&db);
        bool ok = false; uint64_t dg = 0; long rem = -1;
        if (t.ok()) {
          DecoderBuffer &d2 = reused_db; d2.Init(s.data(), s.size());
          if (t.value() == TRIANGULAR_MESH) { Mesh m; ok = dec.DecodeBufferToGeometry(&d2, &m).ok(); if (ok) dg = geom_digest(m, true); }
          else { PointCloud p; ok = dec.DecodeBufferToGeometry(&d2, &p).ok(); if (ok) dg = geom_digest(p, false); }
          rem = (long)d2.remaining_size();
        }
        out.begin("Dec").i("h", h).i("i", step).b("ok", ok).raw("stream", h64(sh)).raw("digest", h64(dg)).i("trail", trail).i("remaining", rem).end();
      }
    }
  }
  fclose(f);
  fprintf(stderr, "STATS histories=%ld\n", h);
  return 0;
}

int main(int argc, char **argv) {
  if (argc >= 3 && !strcmp(argv[1], "replay")) return run_replay(argv[2]);
  fprintf(stderr, "usage: drv_c06 replay <rows>\n");
  return 2;
}
