// Shared geometry machinery of the conformance drivers: seeded generators of meshes / point clouds, option
// sets, encode / decode wrappers and the projection of a geometry to the abstract vocabulary of spec/Geometry.tla
// (per-point value ids per attribute, faces as point-id triples).  Uses only draco's public API.
#pragma once
#include <algorithm>
#include <map>
#include <array>
#include <set>
#include "rt/rt.h"
#include "draco/attributes/attribute_octahedron_transform.h"
#include "draco/attributes/attribute_quantization_transform.h"
#include "draco/compression/attributes/normal_compression_utils.h"
#include "draco/compression/config/encoding_features.h"
#include "draco/compression/decode.h"
#include "draco/compression/encode.h"
#include "draco/compression/expert_encode.h"
#include "draco/core/quantization_utils.h"
#include "draco/mesh/mesh.h"
#include "draco/point_cloud/point_cloud.h"

namespace vg {
using namespace draco;

// ---------------------------------------------------------------------------------------------- construction
struct AttDesc {
  GeometryAttribute::Type type;
  DataType dt;
  int nc;
  bool normalized;
  bool identity;   // identity point->value mapping
  int nvals;       // number of values when not identity
};

inline int add_attribute(PointCloud *pc, const AttDesc &d, int np) {
  GeometryAttribute ga;
  ga.Init(d.type, nullptr, d.nc, d.dt, d.normalized, (int64_t)DataTypeLength(d.dt) * d.nc, 0);
  const int id = pc->AddAttribute(ga, d.identity, d.identity ? np : d.nvals);
  if (!d.identity) pc->attribute(id)->SetExplicitMapping(np);
  return id;
}

// random value of the attribute's data type; `mag` bounds integer magnitudes, floats are finite
inline void random_value(vrt::Rng &r, DataType dt, int nc, int cls, uint8_t *dst) {
  for (int c = 0; c < nc; ++c) {
    switch (dt) {
      case DT_INT8: { int8_t v = (int8_t)r.range(-128, 127); memcpy(dst + c, &v, 1); break; }
      case DT_UINT8: { uint8_t v = (uint8_t)r.range(0, 255); memcpy(dst + c, &v, 1); break; }
      case DT_INT16: { int16_t v = (int16_t)r.range(-32768, 32767); memcpy(dst + 2 * c, &v, 2); break; }
      case DT_UINT16: { uint16_t v = (uint16_t)r.range(0, 65535); memcpy(dst + 2 * c, &v, 2); break; }
      // 32-bit classes: 0 small, 1 about 2^20, 2 the whole type, 3 hugging the limits of the type
      case DT_INT32: { int32_t v = cls == 0 ? r.range(-20, 20) : cls == 1 ? r.range(-(1 << 20), 1 << 20) : cls == 2 ? (int32_t)r.u32() : (r.coin() ? INT32_MAX - r.range(0, 50) : INT32_MIN + r.range(0, 50));
                       memcpy(dst + 4 * c, &v, 4); break; }
      case DT_UINT32: { uint32_t v = cls == 0 ? (uint32_t)r.range(0, 40) : cls == 1 ? (uint32_t)r.range(0, 1 << 21) : cls == 2 ? r.u32() : (r.coin() ? UINT32_MAX - (uint32_t)r.range(0, 50) : (uint32_t)r.range(0, 50));
                        memcpy(dst + 4 * c, &v, 4); break; }
      case DT_FLOAT64: { const double v = cls == 0 ? r.range(-8, 8) * 0.25 : (r.unit() * 2.0 - 1.0) * (cls == 2 ? 1e6 : 1.0); memcpy(dst + 8 * c, &v, 8); break; }
      default: {
        float v;
        switch (cls) {
          case 0: v = (float)r.range(-8, 8) * 0.25f; break;
          case 1: v = (float)(r.unit() * 2.0 - 1.0); break;
          case 2: v = (float)((r.unit() - 0.5) * 2000.0); break;
          default: v = r.coin(1, 8) ? -0.0f : (float)(r.unit() * 1e-3);
        }
        memcpy(dst + 4 * c, &v, 4);
      }
    }
  }
}

struct GenParams {
  int max_points = 40;
  int max_faces = 60;
  bool allow_extra_atts = true;
  bool float_positions_only = false;
  bool dedup = true;          // DeduplicatePointIds at the end (meshes whose points are not deduplicated: see finding F10)
  bool normals_float_only = false;  // integer NORMAL attributes are generated too (finding F9, fixed)
  bool handles = false;       // meshes only: n x m grids wrapped in x and / or y (handles) with a few quads removed (boundary loops), random diagonals,
                              // shuffled face order -- traversals that close several handle / hole loops, several topology-split events per symbol
};

struct Geom {
  bool is_mesh = false;
  std::unique_ptr<PointCloud> pc;   // a Mesh when is_mesh
  Mesh *mesh() const { return static_cast<Mesh *>(pc.get()); }
  std::string shape;
  bool wide32 = false;    // some int32 / uint32 attribute holds values of the whole type or on its limits (value classes 2, 3 of random_value)
};

inline Geom gen_geometry(vrt::Rng &r, bool want_mesh, const GenParams &gp) {
  Geom g;
  g.is_mesh = want_mesh;
  g.pc.reset(want_mesh ? new Mesh() : new PointCloud());
  const int shape = r.range(0, 9);
  // np >= 1: the encoder crashes on geometries without points (observation O1 in DESIGN.md §7; C01 starts from "encoding reports success")
  int np = shape == 0 ? r.range(1, 3) : r.range(1, gp.max_points);
  int nf = 0;
  std::vector<int> faces;
  if (want_mesh && gp.handles) {
    const int w = r.range(3, 6), h = r.range(3, 6);
    const bool wx = r.coin(3, 4), wy = r.coin(3, 4);
    const int vw = wx ? w : w + 1, vh = wy ? h : h + 1;
    np = vw * vh;
    std::vector<char> removed((size_t)w * h, 0);
    for (int k = r.range(0, 5); k > 0; --k) removed[r.range(0, w * h - 1)] = 1;
    std::vector<std::array<int, 3>> tris;
    for (int y = 0; y < h; ++y)
      for (int x = 0; x < w; ++x) {
        if (removed[(size_t)y * w + x]) continue;
        const int x1 = wx ? (x + 1) % w : x + 1, y1 = wy ? (y + 1) % h : y + 1;
        const int a = y * vw + x, b = y * vw + x1, c = y1 * vw + x, d = y1 * vw + x1;
        if (r.coin()) { tris.push_back({a, b, c}); tris.push_back({b, d, c}); } else { tris.push_back({a, b, d}); tris.push_back({a, d, c}); }
      }
    for (size_t i = tris.size(); i > 1; --i) std::swap(tris[i - 1], tris[(size_t)r.range(0, (int)i - 1)]);
    for (auto &t : tris) faces.insert(faces.end(), {t[0], t[1], t[2]});
    nf = (int)tris.size();
    g.shape = "handles";
  } else if (want_mesh) {
    if (shape == 0) { nf = np >= 1 ? r.range(0, 2) : 0; g.shape = "tiny"; }
    else if (shape <= 3) {  // grid patch: manifold with boundary
      const int w = r.range(2, 6), h = r.range(2, 6);
      np = w * h;
      for (int y = 0; y + 1 < h; ++y)
        for (int x = 0; x + 1 < w; ++x) {
          const int a = y * w + x, b = a + 1, c = a + w, d = c + 1;
          if (r.coin(9, 10)) { faces.insert(faces.end(), {a, b, c}); }
          if (r.coin(9, 10)) { faces.insert(faces.end(), {b, d, c}); }
        }
      nf = (int)faces.size() / 3;
      g.shape = "grid";
    } else if (shape <= 5) {  // closed-ish fan / strip structures sharing many edges (non-manifold likely)
      np = std::max(np, 4);
      nf = r.range(1, gp.max_faces);
      for (int f = 0; f < nf; ++f) {
        if (f > 0 && r.coin(2, 3)) {
          const int gfi = r.range(0, f - 1), e = r.range(0, 2);
          const int a = faces[3 * gfi + e], b = faces[3 * gfi + (e + 1) % 3];
          if (r.coin()) faces.insert(faces.end(), {b, a, r.range(0, np - 1)}); else faces.insert(faces.end(), {a, b, r.range(0, np - 1)});
        } else faces.insert(faces.end(), {r.range(0, np - 1), r.range(0, np - 1), r.range(0, np - 1)});
      }
      g.shape = "shared-edges";
    } else {  // random soup incl. degenerate / duplicated / flipped faces
      np = std::max(np, 3);
      nf = r.range(1, gp.max_faces);
      for (int f = 0; f < nf; ++f) {
        const int cls = r.range(0, 11);
        if (cls == 0 && f > 0) { const int q = r.range(0, f - 1); faces.insert(faces.end(), {faces[3 * q], faces[3 * q + 1], faces[3 * q + 2]}); }
        else if (cls == 1 && f > 0) { const int q = r.range(0, f - 1); faces.insert(faces.end(), {faces[3 * q], faces[3 * q + 2], faces[3 * q + 1]}); }
        else if (cls == 2) { const int a = r.range(0, np - 1); faces.insert(faces.end(), {a, a, r.range(0, np - 1)}); }
        else faces.insert(faces.end(), {r.range(0, np - 1), r.range(0, np - 1), r.range(0, np - 1)});
      }
      g.shape = "soup";
    }
    if (faces.empty()) nf = 0;
  } else {
    g.shape = shape == 0 ? "tiny" : "cloud";
  }
  PointCloud *pc = g.pc.get();
  pc->set_num_points(np);
  // attributes
  std::vector<AttDesc> descs;
  {
    AttDesc p;
    p.type = GeometryAttribute::POSITION;
    static const DataType pdt[] = {DT_FLOAT32, DT_FLOAT32, DT_FLOAT32, DT_INT32, DT_INT16, DT_UINT16, DT_INT8, DT_UINT32};
    p.dt = gp.float_positions_only ? DT_FLOAT32 : pdt[r.range(0, 7)];
    p.nc = 3; p.normalized = false;
    p.identity = r.coin(2, 3); p.nvals = std::max(1, r.range(1, std::max(1, np)));
    if (gp.handles) { p.dt = DT_FLOAT32; p.identity = true; }      // one distinct position per grid vertex: the topology is the grid's
    descs.push_back(p);
  }
  if (gp.allow_extra_atts) {
    const int extra = r.range(0, 3);
    for (int i = 0; i < extra; ++i) {
      AttDesc d;
      const int t = r.range(0, 3);
      d.normalized = false;
      if (t == 0) { d.type = GeometryAttribute::NORMAL; d.dt = (gp.normals_float_only || r.coin(3, 4)) ? DT_FLOAT32 : DT_INT8; d.nc = 3; }
      else if (t == 1) { d.type = GeometryAttribute::COLOR; d.dt = r.coin(3, 4) ? DT_UINT8 : DT_FLOAT32; d.nc = r.range(3, 4); d.normalized = d.dt == DT_UINT8 && r.coin(); }
      else if (t == 2) { d.type = GeometryAttribute::TEX_COORD; d.dt = r.coin(3, 4) ? DT_FLOAT32 : DT_UINT16; d.nc = 2; }
      else {
        static const DataType gdt[] = {DT_INT8, DT_UINT8, DT_INT16, DT_UINT16, DT_INT32, DT_UINT32, DT_FLOAT32, DT_FLOAT64};
        d.type = GeometryAttribute::GENERIC; d.dt = gdt[r.range(0, 7)]; d.nc = r.range(1, 5);
      }
      d.identity = r.coin(); d.nvals = std::max(1, r.range(1, std::max(1, np)));
      descs.push_back(d);
    }
  }
  // the POSITION attribute is not always the first attribute
  if (descs.size() > 1 && r.coin(1, 4)) std::swap(descs[0], descs[r.range(1, (int)descs.size() - 1)]);
  for (auto &d : descs) {
    const int id = add_attribute(pc, d, np);
    PointAttribute *att = pc->attribute(id);
    const int nv = d.identity ? np : d.nvals;
    const int cls = gp.handles && d.type == GeometryAttribute::POSITION ? 1 : r.range(0, 3);
    if (cls >= 2 && (d.dt == DT_INT32 || d.dt == DT_UINT32)) g.wide32 = true;
    std::vector<uint8_t> buf(64);
    for (int v = 0; v < nv; ++v) {
      random_value(r, d.dt, d.nc, cls, buf.data());
      if (d.type == GeometryAttribute::NORMAL && d.dt == DT_FLOAT32) {  // keep normals away from the zero vector (C07's concern)
        float n[3]; memcpy(n, buf.data(), 12);
        if (std::abs(n[0]) + std::abs(n[1]) + std::abs(n[2]) < 1e-3f) { n[r.range(0, 2)] = r.coin() ? 1.f : -1.f; memcpy(buf.data(), n, 12); }
      }
      att->SetAttributeValue(AttributeValueIndex(v), buf.data());
    }
    if (!d.identity)
      for (int p = 0; p < np; ++p) att->SetPointMapEntry(PointIndex(p), AttributeValueIndex(r.range(0, nv - 1)));
  }
  // unique ids different from attribute order, sometimes
  if (r.coin(1, 3))
    for (int a = 0; a < pc->num_attributes(); ++a) pc->attribute(a)->set_unique_id(10 + 7 * (pc->num_attributes() - a));
  if (want_mesh) {
    Mesh *m = g.mesh();
    for (int f = 0; f < nf; ++f) {
      Mesh::Face fc;
      for (int k = 0; k < 3; ++k) fc[k] = PointIndex(faces[3 * f + k]);
      m->AddFace(fc);
    }
  }
  if (gp.dedup && np > 0) {
    pc->DeduplicateAttributeValues();
    pc->DeduplicatePointIds();
  }
  return g;
}

// a side x side grid of float positions (2 * (side-1)^2 faces), no other attribute
inline Geom grid_mesh(int side) {
  Geom g; g.is_mesh = true; g.pc.reset(new Mesh()); g.shape = "grid-big";
  const int np = side * side;
  g.pc->set_num_points(np);
  AttDesc d{GeometryAttribute::POSITION, DT_FLOAT32, 3, false, true, np};
  const int id = add_attribute(g.pc.get(), d, np);
  for (int y = 0; y < side; ++y) for (int x = 0; x < side; ++x) { const float p[3] = {(float)x, (float)y, (float)((x * 7 + y * 3) % 5) * 0.25f}; g.pc->attribute(id)->SetAttributeValue(AttributeValueIndex(y * side + x), p); }
  for (int y = 0; y + 1 < side; ++y) for (int x = 0; x + 1 < side; ++x) {
    const int a = y * side + x;
    Mesh::Face f1, f2;
    f1[0] = PointIndex(a); f1[1] = PointIndex(a + 1); f1[2] = PointIndex(a + side);
    f2[0] = PointIndex(a + 1); f2[1] = PointIndex(a + side + 1); f2[2] = PointIndex(a + side);
    g.mesh()->AddFace(f1); g.mesh()->AddFace(f2);
  }
  return g;
}

// build a small mesh from explicit position ids and optional per-corner attribute value ids (exhaustive domains)
inline Geom small_mesh(const std::vector<int> &pos_ids, const std::vector<int> &att_ids /* per corner or empty */, int npos, int natt) {
  Geom g;
  g.is_mesh = true;
  g.pc.reset(new Mesh());
  Mesh *m = g.mesh();
  const int nc = (int)pos_ids.size();
  m->set_num_points(nc);   // one point per corner, deduplicated afterwards
  AttDesc p{GeometryAttribute::POSITION, DT_INT32, 3, false, false, npos};
  const int pid = add_attribute(m, p, nc);
  for (int v = 0; v < npos; ++v) { int32_t xyz[3] = {v * 7 + 1, v * v * 3, (v * 11) % 5}; m->attribute(pid)->SetAttributeValue(AttributeValueIndex(v), xyz); }
  for (int c = 0; c < nc; ++c) m->attribute(pid)->SetPointMapEntry(PointIndex(c), AttributeValueIndex(pos_ids[c]));
  if (!att_ids.empty()) {
    AttDesc a{GeometryAttribute::GENERIC, DT_INT32, 1, false, false, natt};
    const int aid = add_attribute(m, a, nc);
    for (int v = 0; v < natt; ++v) { int32_t x = 100 + v; m->attribute(aid)->SetAttributeValue(AttributeValueIndex(v), &x); }
    for (int c = 0; c < nc; ++c) m->attribute(aid)->SetPointMapEntry(PointIndex(c), AttributeValueIndex(att_ids[c]));
  }
  for (int f = 0; f < nc / 3; ++f) {
    Mesh::Face fc;
    for (int k = 0; k < 3; ++k) fc[k] = PointIndex(3 * f + k);
    m->AddFace(fc);
  }
  m->DeduplicatePointIds();
  return g;
}


// mesh given per CORNER: position ids and any number of extra per-corner attributes (value ids); one point per corner, then
// DeduplicatePointIds.  pos_slot = index at which the POSITION attribute is added among the attributes (0 = first).
inline Geom corner_mesh(const std::vector<int> &pos_ids, const std::vector<std::vector<int>> &extra, int npos, int nvals, int pos_slot) {
  Geom g;
  g.is_mesh = true;
  g.pc.reset(new Mesh());
  Mesh *m = g.mesh();
  const int nc = (int)pos_ids.size();
  m->set_num_points(nc);
  const int natt = 1 + (int)extra.size();
  int e = 0;
  for (int slot = 0; slot < natt; ++slot) {
    if (slot == std::min(pos_slot, natt - 1)) {
      AttDesc p{GeometryAttribute::POSITION, DT_INT32, 3, false, false, npos};
      const int pid = add_attribute(m, p, nc);
      for (int v = 0; v < npos; ++v) { int32_t xyz[3] = {v * 7 + 1, v * v * 3, (v * 11) % 5}; m->attribute(pid)->SetAttributeValue(AttributeValueIndex(v), xyz); }
      for (int c = 0; c < nc; ++c) m->attribute(pid)->SetPointMapEntry(PointIndex(c), AttributeValueIndex(pos_ids[c]));
    } else {
      static const GeometryAttribute::Type types[] = {GeometryAttribute::GENERIC, GeometryAttribute::TEX_COORD, GeometryAttribute::COLOR};
      AttDesc a{types[e % 3], DT_INT32, (e % 3) == 1 ? 2 : 1, false, false, nvals};
      const int aid = add_attribute(m, a, nc);
      for (int v = 0; v < nvals; ++v) { int32_t x[2] = {100 * (e + 1) + v, v}; m->attribute(aid)->SetAttributeValue(AttributeValueIndex(v), x); }
      for (int c = 0; c < nc; ++c) m->attribute(aid)->SetPointMapEntry(PointIndex(c), AttributeValueIndex(extra[e][c]));
      ++e;
    }
  }
  for (int f = 0; f < nc / 3; ++f) {
    Mesh::Face fc;
    for (int k = 0; k < 3; ++k) fc[k] = PointIndex(3 * f + k);
    m->AddFace(fc);
  }
  m->DeduplicatePointIds();
  return g;
}

// ---------------------------------------------------------------------------------------------- options
struct Opt {
  int method = -1;      // mesh: 0 sequential 1 edgebreaker; cloud: 0 sequential 1 kd-tree
  int submethod = -1;   // edgebreaker: 0 standard 2 valence
  int es = 5, ds = 5;
  bool builtin = true;
  int split = -1;       // split_mesh_on_seams: -1 unset
  int pred = -100;      // forced prediction scheme for every attribute (-100: default)
  std::vector<int> qbits;  // per attribute (0 = none)
  bool expert = true;
  int explicit_att = -1;   // attribute quantised with SetAttributeExplicitQuantization(bits, explicit_dims < components, origin, range)
  int explicit_dims = 0;
  float explicit_origin = -3000.f, explicit_range = 8000.f;
  bool no_predictive = false;   // ExpertEncoder only: EncoderOptions::SetSupportedFeature(features::kPredictiveEdgebreaker, false)
  bool desc_order = false;      // set per-attribute options from the last attribute to the first
  bool history = false;         // the objects have a past that must not matter: the buffer has served a size-prefixed bit sequence (and was cleared), the
                                // Encoder has received requests it rejected (deprecated / unsuitable prediction schemes) before the real settings
  bool reuse_enc = false;       // type-keyed Encoder API only: encode with ONE Encoder object per thread that has served every earlier case (Reset() first)
  bool compress_conn = false;   // sequential meshes: global option "compress_connectivity" (delta + entropy coded indices instead of stored indices)
};

inline Opt gen_options(vrt::Rng &r, const Geom &g) {
  Opt o;
  o.method = r.coin(1, 8) ? -1 : r.range(0, 1);
  o.submethod = r.coin(1, 2) ? -1 : (r.coin() ? 0 : 2);
  o.es = r.range(0, 10);
  o.ds = r.coin() ? o.es : r.range(0, 10);
  o.builtin = !r.coin(1, 6);
  o.split = r.coin(2, 3) ? -1 : r.range(0, 1);
  if (r.coin(1, 3)) {
    static const int preds[] = {PREDICTION_NONE, PREDICTION_DIFFERENCE, MESH_PREDICTION_PARALLELOGRAM, MESH_PREDICTION_MULTI_PARALLELOGRAM,
                                MESH_PREDICTION_CONSTRAINED_MULTI_PARALLELOGRAM, MESH_PREDICTION_TEX_COORDS_PORTABLE, MESH_PREDICTION_GEOMETRIC_NORMAL};
    o.pred = preds[r.range(0, 6)];
  }
  o.expert = r.coin(3, 4);
  o.compress_conn = r.coin(1, 3);
  o.reuse_enc = r.coin();
  o.desc_order = r.coin();
  // Observation O3: the constrained multi-parallelogram ENCODER sizes an entropy histogram by the largest residual symbol (gigabytes for 32-bit
  // wide values; the process is killed by the kernel, not by the codec).  No property speaks about encoder memory: geometries with wide 32-bit
  // attributes stay away from that one scheme (explicitly, and as the default of Edgebreaker at speeds 0 and 1).
  if (g.wide32) {
    if (o.pred == MESH_PREDICTION_CONSTRAINED_MULTI_PARALLELOGRAM) o.pred = MESH_PREDICTION_PARALLELOGRAM;
    if (o.es < 2) o.es = 2;
  }
  for (int a = 0; a < g.pc->num_attributes(); ++a) {
    const PointAttribute *att = g.pc->attribute(a);
    int q = 0;
    if (att->data_type() == DT_FLOAT32) q = r.coin(1, 4) ? 0 : r.range(1, 20);
    if (att->attribute_type() == GeometryAttribute::NORMAL && q == 1) q = 2;
    o.qbits.push_back(q);
  }
  return o;
}

struct Encoded {
  bool ok = false;
  std::string err;
  std::vector<char> bytes;
  long reported_points = -1, reported_faces = -1;
};

inline Encoded encode(const Geom &g, const Opt &o) {
  Encoded e;
  EncoderBuffer eb;
  if (o.history) { eb.StartBitEncoding(40, true); eb.EncodeLeastSignificantBits32(7, 5); eb.EndBitEncoding(); eb.Clear(); }
  Status st;
  if (o.expert) {
    std::unique_ptr<ExpertEncoder> enc(g.is_mesh ? new ExpertEncoder(*g.mesh()) : new ExpertEncoder(*g.pc));
    enc->SetSpeedOptions(o.es, o.ds);
    if (o.method >= 0) enc->SetEncodingMethod(g.is_mesh ? (o.method ? MESH_EDGEBREAKER_ENCODING : MESH_SEQUENTIAL_ENCODING)
                                                        : (o.method ? POINT_CLOUD_KD_TREE_ENCODING : POINT_CLOUD_SEQUENTIAL_ENCODING));
    // NB: ExpertEncoder::SetEncodingSubmethod stores "encoding_submethod", which no encoder reads (the Edgebreaker encoder reads the global
    // option "edgebreaker_method"): the documented call alone never selects the valence coder for meshes under 1000 faces (observation O4).
    if (o.submethod >= 0) { enc->SetEncodingSubmethod(o.submethod); enc->options().SetGlobalInt("edgebreaker_method", o.submethod); }
    enc->SetUseBuiltInAttributeCompression(o.builtin);
    if (o.split >= 0) enc->options().SetGlobalBool("split_mesh_on_seams", o.split != 0);
    if (o.compress_conn) enc->options().SetGlobalBool("compress_connectivity", true);
    if (o.no_predictive) enc->options().SetSupportedFeature(features::kPredictiveEdgebreaker, false);
    // per-attribute options are set in ascending or descending attribute order (the order of the calls is the caller's business)
    for (int ai = 0; ai < (int)o.qbits.size(); ++ai) {
      const int a = o.desc_order ? (int)o.qbits.size() - 1 - ai : ai;
      if (a == o.explicit_att) { float origin[16]; for (float &x : origin) x = o.explicit_origin; enc->SetAttributeExplicitQuantization(a, std::max(8, o.qbits[a]), o.explicit_dims, origin, o.explicit_range); }
      else if (o.qbits[a] > 0) enc->SetAttributeQuantization(a, o.qbits[a]);
      else enc->options().SetAttributeInt(a, "quantization_bits", -1);
      if (o.pred != -100) enc->SetAttributePredictionScheme(a, o.pred);
    }
    enc->SetTrackEncodedProperties(true);
    st = enc->EncodeToBuffer(&eb);
    e.reported_points = (long)enc->num_encoded_points();
    e.reported_faces = (long)enc->num_encoded_faces();
  } else {
    // a reused Encoder is Reset() and then configured exactly like a fresh one: whatever it reports or writes must not depend on what it encoded before
    static thread_local Encoder persistent;
    Encoder fresh;
    Encoder &enc = o.reuse_enc ? persistent : fresh;
    if (o.reuse_enc) enc.Reset();
    if (o.history && o.pred == -100) {   // every one of these calls returns an error: none may leave a trace in the options
      enc.SetAttributePredictionScheme(GeometryAttribute::POSITION, MESH_PREDICTION_MULTI_PARALLELOGRAM);
      enc.SetAttributePredictionScheme(GeometryAttribute::POSITION, MESH_PREDICTION_TEX_COORDS_DEPRECATED);
      enc.SetAttributePredictionScheme(GeometryAttribute::NORMAL, MESH_PREDICTION_TEX_COORDS_PORTABLE);
      enc.SetAttributePredictionScheme(GeometryAttribute::GENERIC, MESH_PREDICTION_GEOMETRIC_NORMAL);
      enc.SetAttributePredictionScheme(GeometryAttribute::TEX_COORD, 99);
    }
    enc.SetSpeedOptions(o.es, o.ds);
    if (o.method >= 0) enc.SetEncodingMethod(g.is_mesh ? (o.method ? MESH_EDGEBREAKER_ENCODING : MESH_SEQUENTIAL_ENCODING)
                                                       : (o.method ? POINT_CLOUD_KD_TREE_ENCODING : POINT_CLOUD_SEQUENTIAL_ENCODING));
    if (o.submethod >= 0) enc.options().SetGlobalInt("edgebreaker_method", o.submethod);
    if (o.compress_conn) enc.options().SetGlobalBool("compress_connectivity", true);
    // the type-keyed API: one setting per attribute type (first attribute of the type decides)
    std::set<int> seen;
    std::vector<std::pair<GeometryAttribute::Type, int>> per_type;
    for (int a = 0; a < (int)o.qbits.size(); ++a) {
      const GeometryAttribute::Type t = g.pc->attribute(a)->attribute_type();
      if (seen.count((int)t)) continue;
      seen.insert((int)t);
      per_type.push_back({t, o.qbits[a] > 0 ? o.qbits[a] : -1});
    }
    if (o.desc_order) std::reverse(per_type.begin(), per_type.end());     // same settings, calls issued in the opposite order
    for (auto &pt : per_type) {
      enc.SetAttributeQuantization(pt.first, pt.second);
      if (o.pred != -100) enc.SetAttributePredictionScheme(pt.first, o.pred);
    }
    enc.SetTrackEncodedProperties(true);
    st = g.is_mesh ? enc.EncodeMeshToBuffer(*g.mesh(), &eb) : enc.EncodePointCloudToBuffer(*g.pc, &eb);
    e.reported_points = (long)enc.num_encoded_points();
    e.reported_faces = (long)enc.num_encoded_faces();
  }
  e.ok = st.ok();
  if (!e.ok) e.err = st.error_msg();
  e.bytes.assign(eb.data(), eb.data() + eb.size());
  return e;
}

struct Decoded {
  bool ok = false;
  std::string err;
  int code = 0;
  bool is_mesh = false;
  std::unique_ptr<PointCloud> pc;
  long remaining = -1;
  Mesh *mesh() const { return static_cast<Mesh *>(pc.get()); }
};

inline Decoded decode(const char *data, size_t size, const std::vector<GeometryAttribute::Type> &skip = {}) {
  Decoded d;
  DecoderBuffer tb;
  tb.Init(data, size);
  auto t = Decoder::GetEncodedGeometryType(&tb);
  if (!t.ok()) { d.err = t.status().error_msg(); d.code = t.status().code(); return d; }
  DecoderBuffer db;
  db.Init(data, size);
  Decoder dec;
  for (auto s : skip) dec.SetSkipAttributeTransform(s);
  if (t.value() == TRIANGULAR_MESH) {
    d.is_mesh = true;
    auto r = dec.DecodeMeshFromBuffer(&db);
    if (!r.ok()) { d.err = r.status().error_msg(); d.code = r.status().code(); return d; }
    d.pc = std::move(r).value();
  } else {
    auto r = dec.DecodePointCloudFromBuffer(&db);
    if (!r.ok()) { d.err = r.status().error_msg(); d.code = r.status().code(); return d; }
    d.pc = std::move(r).value();
  }
  d.ok = true;
  d.remaining = (long)db.remaining_size();
  return d;
}

// ---------------------------------------------------------------------------------------------- projection
// value key of attribute `att` at point p: raw bytes of the (mapped) value
inline std::string raw_key(const PointAttribute *att, PointIndex p) {
  const AttributeValueIndex avi = att->mapped_index(p);
  const int64_t stride = att->byte_stride();
  std::string k((size_t)stride, '\0');
  att->GetValue(avi, &k[0]);
  return k;
}

struct Dict {
  std::map<std::string, int> ids;
  int id(const std::string &k) { auto it = ids.find(k); if (it != ids.end()) return it->second; const int n = (int)ids.size(); ids[k] = n; return n; }
};

inline const PointAttribute *find_by_uid(const PointCloud &pc, uint32_t uid) {
  for (int a = 0; a < pc.num_attributes(); ++a) if (pc.attribute(a)->unique_id() == uid) return pc.attribute(a);
  return nullptr;
}

// expected portable integers of the input value under the transform the stream declares (draco's own Quantizer /
// octahedron tool box are the definition of "the declared quantisation"; their accuracy is C04's / C07's subject)
inline bool expected_portable_key(const PointAttribute *in_att, PointIndex p, const PointAttribute *skip_att, std::string *key) {
  const AttributeTransformData *td = skip_att->GetAttributeTransformData();
  if (!td) return false;
  float v[8] = {0};
  if (in_att->num_components() > 8) return false;
  in_att->ConvertValue<float>(in_att->mapped_index(p), in_att->num_components(), v);
  std::vector<int32_t> out;
  if (td->transform_type() == ATTRIBUTE_QUANTIZATION_TRANSFORM) {
    AttributeQuantizationTransform t;
    if (!t.InitFromAttribute(*skip_att)) return false;
    Quantizer q;
    const int32_t maxq = (1u << t.quantization_bits()) - 1;
    q.Init(t.range(), maxq);
    for (int c = 0; c < in_att->num_components(); ++c) out.push_back(q.QuantizeFloat(v[c] - t.min_value(c)));
  } else if (td->transform_type() == ATTRIBUTE_OCTAHEDRON_TRANSFORM) {
    AttributeOctahedronTransform t;
    if (!t.InitFromAttribute(*skip_att)) return false;
    OctahedronToolBox tb;
    if (!tb.SetQuantizationBits(t.quantization_bits())) return false;
    int32_t s, tt;
    tb.FloatVectorToQuantizedOctahedralCoords(v, &s, &tt);
    out = {s, tt};
  } else return false;
  key->assign((const char *)out.data(), out.size() * 4);
  return true;
}

inline std::string portable_key(const PointAttribute *skip_att, PointIndex p) {
  std::vector<int32_t> v(skip_att->num_components());
  skip_att->ConvertValue<int32_t>(skip_att->mapped_index(p), skip_att->num_components(), v.data());
  return std::string((const char *)v.data(), v.size() * 4);
}

inline std::vector<int> faces_of(const Mesh &m) {
  std::vector<int> f;
  for (FaceIndex i(0); i < m.num_faces(); ++i) for (int k = 0; k < 3; ++k) f.push_back((int)m.face(i)[k].value());
  return f;
}

inline std::string att_desc_json(const PointAttribute *a, bool quantized) {
  return "[" + std::to_string(a->unique_id()) + "," + std::to_string((int)a->attribute_type()) + "," + std::to_string((int)a->data_type()) + "," +
         std::to_string((int)a->num_components()) + "," + (a->normalized() ? "1" : "0") + "," + (quantized ? "1" : "0") + "]";
}

template <class T> inline std::string jarr(const std::vector<T> &v) {
  std::string s = "[";
  for (size_t i = 0; i < v.size(); ++i) { if (i) s += ","; s += std::to_string((long long)v[i]); }
  return s + "]";
}

// size of one component of a data type: the harness's own table (the library's DataTypeLength is part of what is being checked)
inline int own_type_size(DataType dt) {
  switch (dt) {
    case DT_INT8: case DT_UINT8: case DT_BOOL: return 1;
    case DT_INT16: case DT_UINT16: return 2;
    case DT_INT32: case DT_UINT32: case DT_FLOAT32: return 4;
    case DT_INT64: case DT_UINT64: case DT_FLOAT64: return 8;
    default: return -1;
  }
}
// structural-validity facts of a decoded geometry, read through public accessors only
inline std::string struct_json(const PointCloud &pc, bool is_mesh) {
  // TLC integers are 32-bit: counts above 2^30 (a stream may declare 2^31 points and no attribute) are compressed by a map that keeps every
  // order relation StructValid evaluates (maxface < np, maxmap < size, size >= np) -- values are only ever compared, never added, at that scale.
  const long CAP = 1L << 30;
  const long np_real = pc.num_points();
  const long np = std::min(np_real, CAP);
  auto rel_np = [&](long x) { return x < np_real ? std::min(x, np - 1) : (x == np_real ? np : std::min(x, CAP + 1)); };
  long maxface = -1;
  if (is_mesh) {
    const Mesh &m = static_cast<const Mesh &>(pc);
    for (FaceIndex i(0); i < m.num_faces(); ++i) for (int k = 0; k < 3; ++k) maxface = std::max<long>(maxface, m.face(i)[k].value());
  }
  std::string s = "{\"np\":" + std::to_string(np) + ",\"nf\":" + std::to_string(is_mesh ? std::min<long>(static_cast<const Mesh &>(pc).num_faces(), CAP) : 0) +
                  ",\"maxface\":" + std::to_string(rel_np(maxface)) + ",\"atts\":[";
  for (int a = 0; a < pc.num_attributes(); ++a) {
    const PointAttribute *att = pc.attribute(a);
    long maxmap = -1;
    const long size_real = (long)att->size();
    if (!att->is_mapping_identity()) {
      // an explicit map with fewer entries than the geometry has points: the points beyond it map to nothing (reported as an index outside the values)
      const long entries = (long)att->indices_map_size();
      for (PointIndex p(0); p < pc.num_points() && (long)p.value() < entries; ++p) maxmap = std::max<long>(maxmap, att->mapped_index(p).value());
      if (entries < np_real) maxmap = std::max(maxmap, size_real);
    }
    const long size = size_real <= CAP && np_real <= CAP ? size_real : rel_np(size_real);
    const long maxmap_c = maxmap < size_real ? std::min(maxmap, size - 1) : size;
    const long bufbytes = std::min<long>(att->buffer() ? (long)att->buffer()->data_size() : 0, CAP);
    if (a) s += ",";
    s += "[" + std::to_string(size) + "," + std::to_string(maxmap_c) + "," + std::to_string(bufbytes) + "," + std::to_string((int)att->num_components()) + "," +
         std::to_string(own_type_size(att->data_type())) + "," + (att->is_mapping_identity() ? "1" : "0") + "," + std::to_string((long)att->byte_stride()) + "," +
         std::to_string((long)att->byte_offset()) + "]";
  }
  return s + "]}";
}

// ordered digest of a geometry: points, faces in order, every attribute (descriptor + per-point value bytes) in attribute order
inline uint64_t geom_digest(const PointCloud &pc, bool is_mesh) {
  uint64_t h = 1469598103934665603ull;
  const uint32_t np = pc.num_points();
  h = vrt::fnv1a(&np, 4, h);
  if (is_mesh) {
    const Mesh &m = static_cast<const Mesh &>(pc);
    for (FaceIndex i(0); i < m.num_faces(); ++i) for (int k = 0; k < 3; ++k) { const uint32_t v = m.face(i)[k].value(); h = vrt::fnv1a(&v, 4, h); }
  }
  for (int a = 0; a < pc.num_attributes(); ++a) {
    const PointAttribute *att = pc.attribute(a);
    const uint32_t d[5] = {att->unique_id(), (uint32_t)att->attribute_type(), (uint32_t)att->data_type(), (uint32_t)att->num_components(), (uint32_t)att->normalized()};
    h = vrt::fnv1a(d, sizeof d, h);
    for (PointIndex p(0); p < np; ++p) { const std::string k = raw_key(att, p); h = vrt::fnv1a(k.data(), k.size(), h); }
  }
  return h;
}
inline std::string h64(uint64_t h) {
  return "[" + std::to_string((h >> 48) & 0xFFFF) + "," + std::to_string((h >> 32) & 0xFFFF) + "," + std::to_string((h >> 16) & 0xFFFF) + "," + std::to_string(h & 0xFFFF) + "]";
}


}  // namespace vg
