// Shared runtime of the conformance drivers: ndjson writer, tiny JSON reader, PRNG, limb splitting.
// Header-only; no dependency on draco.
#pragma once
#include <cstdint>
#include <cstdio>
#include <cstdlib>
#include <cstring>
#include <map>
#include <memory>
#include <string>
#include <vector>

namespace vrt {

// ---------------------------------------------------------------- PRNG (splitmix64 / xorshift)
struct Rng {
  uint64_t s;
  explicit Rng(uint64_t seed) : s(seed * 0x9E3779B97F4A7C15ull + 0x1234567ull) {}
  uint64_t next() {
    uint64_t z = (s += 0x9E3779B97F4A7C15ull);
    z = (z ^ (z >> 30)) * 0xBF58476D1CE4E5B9ull;
    z = (z ^ (z >> 27)) * 0x94D049BB133111EBull;
    return z ^ (z >> 31);
  }
  uint32_t u32() { return (uint32_t)(next() >> 16); }
  // uniform in [0, n)
  uint64_t below(uint64_t n) { return n ? next() % n : 0; }
  int range(int lo, int hi) { return lo + (int)below((uint64_t)(hi - lo + 1)); }
  bool coin(int num = 1, int den = 2) { return (int)below(den) < num; }
  double unit() { return (next() >> 11) * (1.0 / 9007199254740992.0); }
};

// ---------------------------------------------------------------- ndjson writer
// TLC integers are 32-bit: wide values are written as limb arrays [hi16, lo16] (32-bit) or
// as lists of limbs (64-bit), never as one JSON number.
struct Out {
  FILE *f;
  std::string buf;
  bool first = true;
  explicit Out(FILE *ff = stdout) : f(ff) {}
  Out &begin(const char *ev) { buf.clear(); buf += "{\"e\":\""; buf += ev; buf += "\""; return *this; }
  Out &key(const char *k) { buf += ",\""; buf += k; buf += "\":"; return *this; }
  Out &i(const char *k, long long v) { key(k); buf += std::to_string(v); return *this; }
  Out &b(const char *k, bool v) { key(k); buf += v ? "true" : "false"; return *this; }
  Out &s(const char *k, const std::string &v) {
    key(k); buf += '"';
    for (unsigned char c : v) {
      if (c == '"' || c == '\\') { buf += '\\'; buf += (char)c; }
      else if (c < 32 || c > 126) { char t[8]; snprintf(t, sizeof t, "\\u%04x", c); buf += t; }
      else buf += (char)c;
    }
    buf += '"'; return *this;
  }
  // 32-bit word as [hi16, lo16] of its two's-complement pattern
  Out &w32(const char *k, uint32_t v) {
    key(k); buf += "["; buf += std::to_string(v >> 16); buf += ","; buf += std::to_string(v & 0xFFFF); buf += "]"; return *this;
  }
  template <class T> Out &arr(const char *k, const std::vector<T> &v) {
    key(k); buf += "[";
    for (size_t j = 0; j < v.size(); ++j) { if (j) buf += ","; buf += std::to_string((long long)v[j]); }
    buf += "]"; return *this;
  }
  Out &raw(const char *k, const std::string &json) { key(k); buf += json; return *this; }
  void end() { buf += "}\n"; fwrite(buf.data(), 1, buf.size(), f); }
};

// ---------------------------------------------------------------- tiny JSON reader (objects, arrays, ints, strings, bools)
struct J {
  enum T { NUL, INT, STR, ARR, OBJ, BOOL } t = NUL;
  long long n = 0;
  std::string s;
  std::vector<J> a;
  std::map<std::string, J> o;
  const J &operator[](const char *k) const { static J nul; auto it = o.find(k); return it == o.end() ? nul : it->second; }
  const J &operator[](size_t i) const { return a[i]; }
  const J &operator[](int i) const { return a[(size_t)i]; }
  bool has(const char *k) const { return o.count(k) > 0; }
  size_t size() const { return t == ARR ? a.size() : o.size(); }
  std::vector<int> ints() const { std::vector<int> r; for (auto &x : a) r.push_back((int)x.n); return r; }
};
inline void jskip(const char *&p) { while (*p == ' ' || *p == '\n' || *p == '\t' || *p == '\r') ++p; }
inline J jparse(const char *&p) {
  jskip(p); J v;
  if (*p == '{') {
    v.t = J::OBJ; ++p; jskip(p);
    while (*p && *p != '}') {
      J k = jparse(p); jskip(p); if (*p == ':') ++p;
      v.o[k.s] = jparse(p); jskip(p); if (*p == ',') ++p; jskip(p);
    }
    if (*p) ++p;
  } else if (*p == '[') {
    v.t = J::ARR; ++p; jskip(p);
    while (*p && *p != ']') { v.a.push_back(jparse(p)); jskip(p); if (*p == ',') ++p; jskip(p); }
    if (*p) ++p;
  } else if (*p == '"') {
    v.t = J::STR; ++p;
    while (*p && *p != '"') {
      if (*p == '\\' && p[1]) {
        ++p;
        if (*p == 'u') { unsigned c = 0; sscanf(p + 1, "%4x", &c); v.s += (char)c; p += 5; continue; }
        if (*p == 'n') v.s += '\n'; else if (*p == 't') v.s += '\t'; else v.s += *p;
        ++p; continue;
      }
      v.s += *p++;
    }
    if (*p) ++p;
  } else if (!strncmp(p, "true", 4)) { v.t = J::BOOL; v.n = 1; p += 4; }
  else if (!strncmp(p, "false", 5)) { v.t = J::BOOL; v.n = 0; p += 5; }
  else if (!strncmp(p, "null", 4)) { p += 4; }
  else { v.t = J::INT; char *e; v.n = strtoll(p, &e, 10); if (e == p) ++p; else p = e; }
  return v;
}
inline J jparse_line(const std::string &line) { const char *p = line.c_str(); return jparse(p); }
inline bool read_line(FILE *f, std::string &line) {
  line.clear(); int c;
  while ((c = fgetc(f)) != EOF) { if (c == '\n') return true; line += (char)c; }
  return !line.empty();
}

inline uint64_t fnv1a(const void *data, size_t n, uint64_t h = 1469598103934665603ull) {
  const unsigned char *p = (const unsigned char *)data;
  for (size_t i = 0; i < n; ++i) { h ^= p[i]; h *= 1099511628211ull; }
  return h;
}

}  // namespace vrt
