// C15 driver: OBJ / PLY / STL write -> read.
//   drv_c15 rt <seed> <n>                 random meshes / point clouds through {Obj,Ply,Stl}Encoder::EncodeToBuffer -> *Decoder::DecodeFromBuffer
//   drv_c15 gen <seed> <n> <dir>          writes n OBJ and PLY files (for the command-line tool flow)
//   drv_c15 cmp <fmt> <a> <b> <label>     loads two files of format fmt and records their comparison (tool flow: original vs obj->drc->obj)
// Values are matched with the format's tolerance: OBJ text has 6 decimals (|a-b| <= 0.5e-6 + 1 ulp32), PLY / STL are bit-exact.  The matching only
// assigns ids; the worst residual is reported in units of 1e-9 and judged by TLC.
#include <cmath>
#include <fstream>
#include "geom.h"
#include "draco/io/mesh_io.h"
#include "draco/io/obj_decoder.h"
#include "draco/io/obj_encoder.h"
#include "draco/io/ply_decoder.h"
#include "draco/io/ply_encoder.h"
#include "draco/io/point_cloud_io.h"
#include "draco/io/stl_decoder.h"
#include "draco/io/stl_encoder.h"
using namespace draco;
using namespace vg;
static vrt::Out out;

struct Tol { bool text; };
static double ulp32(double a) { float f = (float)std::abs(a); if (f == 0) return 1.4e-45; int e; std::frexp(f, &e); return std::ldexp(1.0, e - 24); }

// ids for one attribute of both geometries: input values define the ids; an output value takes the id of an input value within tolerance
struct Matcher {
  std::vector<std::vector<double>> vals;   // unique input values (as doubles per component)
  std::vector<std::string> keys;
  double worst_excess_e9 = 0;              // max over matched components of (|a-b| - 1 ulp32(a)) in 1e-9 units
  int id_in(const PointAttribute *att, PointIndex p) {
    const std::string k = raw_key(att, p);
    for (size_t i = 0; i < keys.size(); ++i) if (keys[i] == k) return (int)i;
    keys.push_back(k);
    std::vector<double> v(att->num_components());
    att->ConvertValue<double>(att->mapped_index(p), att->num_components(), v.data());
    vals.push_back(v);
    return (int)keys.size() - 1;
  }
  int id_out(const PointAttribute *att, PointIndex p, bool text) {
    if (!text) {   // bit-exact formats
      const std::string k = raw_key(att, p);
      for (size_t i = 0; i < keys.size(); ++i) if (keys[i] == k) return (int)i;
      keys.push_back(k); vals.push_back({});
      return (int)keys.size() - 1;
    }
    std::vector<double> v(att->num_components());
    att->ConvertValue<double>(att->mapped_index(p), att->num_components(), v.data());
    int best = -1; double best_ex = 1e300;
    for (size_t i = 0; i < vals.size(); ++i) {
      if (vals[i].size() != v.size()) continue;
      double ex = 0; bool ok = true;
      for (size_t c = 0; c < v.size(); ++c) {
        const double d = std::abs(vals[i][c] - v[c]) - 1 * ulp32(vals[i][c]);   // measured on the unchanged tree: at most 0.48 ulp beyond 0.5e-6 (3M random values)
        if (d > 0.5e-6 * 1.0000001) ok = false;
        ex = std::max(ex, d);
      }
      if (ok && ex < best_ex) { best = (int)i; best_ex = ex; }
    }
    if (best >= 0) { worst_excess_e9 = std::max(worst_excess_e9, best_ex * 1e9); return best; }
    keys.push_back("?"); vals.push_back(v);
    return (int)keys.size() - 1;
  }
};

static const PointAttribute *named(const PointCloud &pc, GeometryAttribute::Type t) { return pc.GetNamedAttribute(t); }

// projection restricted to the attribute types the format carries, ordered by type
static void emit_io(const char *fmt, const std::string &label, const PointCloud &in, bool in_mesh, const PointCloud *outp, bool out_mesh, bool ok, const std::string &err,
                    const std::vector<GeometryAttribute::Type> &types, bool text) {
  std::string ia = "[", oa = "[", ip = "[", op = "[";
  double worst = 0;
  bool first = true;
  for (auto t : types) {
    const PointAttribute *a = named(in, t);
    if (!a) continue;
    const PointAttribute *b = outp ? named(*outp, t) : nullptr;
    Matcher m;
    std::vector<int> ii, oo;
    for (PointIndex p(0); p < in.num_points(); ++p) ii.push_back(m.id_in(a, p));
    if (b) for (PointIndex p(0); p < outp->num_points(); ++p) oo.push_back(m.id_out(b, p, text));
    worst = std::max(worst, m.worst_excess_e9);
    if (!first) { ia += ","; oa += ","; ip += ","; op += ","; }
    first = false;
    ia += "[" + std::to_string((int)t) + "," + std::to_string((int)t) + "," + std::to_string((int)a->data_type()) + "," + std::to_string((int)a->num_components()) + ",0,0]";
    oa += b ? "[" + std::to_string((int)t) + "," + std::to_string((int)t) + "," + std::to_string((int)b->data_type()) + "," + std::to_string((int)b->num_components()) + ",0,0]" : "[-1,-1,-1,-1,0,0]";
    ip += jarr(ii); op += jarr(oo);
  }
  const std::vector<int> fi = in_mesh ? faces_of(static_cast<const Mesh &>(in)) : std::vector<int>{};
  const std::vector<int> fo = outp && out_mesh ? faces_of(static_cast<const Mesh &>(*outp)) : std::vector<int>{};
  out.begin("IO").s("fmt", fmt).s("label", label).b("mesh", in_mesh).b("ok", ok).s("err", err).i("excess_e9", (long long)std::min(worst, 1e9))
      .raw("in", "{\"np\":" + std::to_string(in.num_points()) + ",\"faces\":" + jarr(fi) + ",\"atts\":" + ia + "],\"pt\":" + ip + "]}")
      .raw("out", "{\"np\":" + std::to_string(outp ? outp->num_points() : 0) + ",\"faces\":" + jarr(fo) + ",\"atts\":" + oa + "],\"pt\":" + op + "]}").end();
}

static bool g_shared_positions = true;   // off for the files handed to the command-line encoder (it refuses a mesh whose triangles are all degenerate by position)
static Geom gen_io_geom(vrt::Rng &r, bool mesh, bool with_color, bool keep_dups = false, bool zero_area = false) {
  Geom g;
  g.is_mesh = mesh;
  g.pc.reset(mesh ? new Mesh() : new PointCloud());
  const int np = r.range(3, 14);
  g.pc->set_num_points(np);
  const double mag = std::pow(10.0, r.range(-6, 6));
  auto addf = [&](GeometryAttribute::Type t, int nc, bool identity) {
    const int nv = identity ? np : r.range(1, np);
    AttDesc d{t, DT_FLOAT32, nc, false, identity, nv};
    const int id = add_attribute(g.pc.get(), d, np);
    for (int v = 0; v < nv; ++v) {
      float x[4];
      // OBJ text keeps 6 decimals: distinct values must stay distinguishable after writing, so small magnitudes live on a 4e-6 lattice
      for (int c = 0; c < nc; ++c) x[c] = mag < 1e-3 ? (float)(r.range(-1000, 1000) * 4e-6) : (float)((r.unit() * 2 - 1) * mag) + (float)(0.37 * v * mag);
      g.pc->attribute(id)->SetAttributeValue(AttributeValueIndex(v), x);
    }
    if (!identity) for (int p = 0; p < np; ++p) g.pc->attribute(id)->SetPointMapEntry(PointIndex(p), AttributeValueIndex(r.range(0, nv - 1)));
  };
  // (every fourth geometry stores fewer position values than it has points: several points share one position entry)
  addf(GeometryAttribute::POSITION, 3, !(g_shared_positions && r.coin(1, 4)));
  if (r.coin()) addf(GeometryAttribute::NORMAL, 3, r.coin());
  // (PLY: the writer stores texture coordinates of a mesh as a per-face list, the reader skips the list -- the faces behind it must still be read)
  if (r.coin() && (!with_color || mesh)) addf(GeometryAttribute::TEX_COORD, 2, r.coin());
  if (with_color && r.coin()) {
    const int nc = r.range(3, 4);
    AttDesc d{GeometryAttribute::COLOR, DT_UINT8, nc, false, true, np};
    const int id = add_attribute(g.pc.get(), d, np);
    for (int v = 0; v < np; ++v) { uint8_t c[4] = {(uint8_t)r.range(0, 255), (uint8_t)r.range(0, 255), (uint8_t)r.range(0, 255), (uint8_t)r.range(0, 255)}; g.pc->attribute(id)->SetAttributeValue(AttributeValueIndex(v), c); }
  }
  if (mesh) {
    const int nf = r.range(1, 16);
    for (int f = 0; f < nf; ++f) {
      Mesh::Face fc;
      int a = r.range(0, np - 1), b = r.range(0, np - 1), c = r.range(0, np - 1);
      if (b == a) b = (a + 1) % np;
      if (c == a || c == b) c = (std::max(a, b) + 1) % np == std::min(a, b) ? (std::max(a, b) + 2) % np : (std::max(a, b) + 1) % np;
      if (c == a || c == b) c = (c + 1) % np;
      fc[0] = PointIndex(a); fc[1] = PointIndex(b); fc[2] = PointIndex(c);
      g.mesh()->AddFace(fc);
    }
    if (zero_area) {   // a triangle soup may hold zero-area triangles: one with a repeated corner, one with three collinear corners
      Mesh::Face fc;
      const int a = r.range(0, np - 1), b = (a + 1) % np;
      fc[0] = PointIndex(a); fc[1] = PointIndex(a); fc[2] = PointIndex(b);
      g.mesh()->AddFace(fc);
      if (np >= 3) {
        const PointAttribute *pa = g.pc->GetNamedAttribute(GeometryAttribute::POSITION);
        float p0[3], p1[3];
        pa->GetValue(pa->mapped_index(PointIndex(0)), p0); pa->GetValue(pa->mapped_index(PointIndex(1)), p1);
        float mid[3] = {p0[0] + (p1[0] - p0[0]) * 0.5f, p0[1] + (p1[1] - p0[1]) * 0.5f, p0[2] + (p1[2] - p0[2]) * 0.5f};
        const_cast<PointAttribute *>(pa)->SetAttributeValue(pa->mapped_index(PointIndex(2)), mid);
        fc[0] = PointIndex(0); fc[1] = PointIndex(2); fc[2] = PointIndex(1);
        g.mesh()->AddFace(fc);
      }
    }
  }
  if (keep_dups) {
    // coincident samples: some points repeat another point in every attribute (a point cloud may hold the same sample twice; PLY stores one vertex per point)
    for (int k = r.range(1, 3); k > 0; --k) {
      const int dst = r.range(0, np - 1), src = r.range(0, np - 1);
      for (int a = 0; a < g.pc->num_attributes(); ++a) {
        PointAttribute *att = g.pc->attribute(a);
        uint8_t buf[64];
        att->GetValue(att->mapped_index(PointIndex(src)), buf);
        if (att->is_mapping_identity()) att->SetAttributeValue(AttributeValueIndex(dst), buf);
        else att->SetPointMapEntry(PointIndex(dst), att->mapped_index(PointIndex(src)));
      }
    }
    return g;
  }
  g.pc->DeduplicateAttributeValues();
  g.pc->DeduplicatePointIds();
  return g;
}

static const std::vector<GeometryAttribute::Type> kObjTypes = {GeometryAttribute::POSITION, GeometryAttribute::NORMAL, GeometryAttribute::TEX_COORD};
static const std::vector<GeometryAttribute::Type> kPlyTypes = {GeometryAttribute::POSITION, GeometryAttribute::NORMAL, GeometryAttribute::COLOR};
static const std::vector<GeometryAttribute::Type> kStlTypes = {GeometryAttribute::POSITION};

// Every case runs twice: with fresh encoder / decoder objects ("rt") and with writer objects that have already served all earlier cases ("reuse": mesh after
// cloud, cloud after mesh, ... in the order the cases come) -- what a written file contains must not depend on what the writer object wrote before.
static int run_rt(uint64_t seed, long n) {
  vrt::Rng r(seed);
  ObjEncoder reuse_oe; PlyEncoder reuse_pe; StlEncoder reuse_se;
  // (readers are always fresh: ObjDecoder keeps its attribute ids from the previous file and is single-use -- DESIGN O5; C15 does not cover reader reuse)
  for (long i = 0; i < n; ++i) {
    const bool mesh = r.coin(3, 4);
    for (int reuse = 0; reuse < 2; ++reuse) {
      const char *label = reuse ? "reuse" : "rt";
      {  // OBJ
        Geom g = gen_io_geom(r, mesh, false);
        EncoderBuffer eb;
        ObjEncoder fresh_e; ObjEncoder &enc = reuse ? reuse_oe : fresh_e;
        const bool eok = mesh ? enc.EncodeToBuffer(*g.mesh(), &eb) : enc.EncodeToBuffer(*g.pc, &eb);
        std::unique_ptr<PointCloud> o(mesh ? new Mesh() : new PointCloud());
        Status st(Status::DRACO_ERROR, "encode failed");
        if (eok) {
          DecoderBuffer db; db.Init(eb.data(), eb.size());
          ObjDecoder dec;
          st = mesh ? dec.DecodeFromBuffer(&db, static_cast<Mesh *>(o.get())) : dec.DecodeFromBuffer(&db, o.get());
        }
        emit_io("obj", label, *g.pc, mesh, st.ok() ? o.get() : nullptr, mesh, eok && st.ok(), st.ok() ? "" : st.error_msg(), kObjTypes, true);
      }
      {  // PLY (clouds keep coincident samples: one vertex per point, in order)
        Geom g = gen_io_geom(r, mesh, true, !mesh && r.coin());
        EncoderBuffer eb;
        PlyEncoder fresh_e; PlyEncoder &enc = reuse ? reuse_pe : fresh_e;
        const bool eok = mesh ? enc.EncodeToBuffer(*g.mesh(), &eb) : enc.EncodeToBuffer(*g.pc, &eb);
        std::unique_ptr<PointCloud> o(mesh ? new Mesh() : new PointCloud());
        Status st(Status::DRACO_ERROR, "encode failed");
        if (eok) {
          DecoderBuffer db; db.Init(eb.data(), eb.size());
          PlyDecoder dec;
          st = mesh ? dec.DecodeFromBuffer(&db, static_cast<Mesh *>(o.get())) : dec.DecodeFromBuffer(&db, o.get());
        }
        emit_io("ply", label, *g.pc, mesh, st.ok() ? o.get() : nullptr, mesh, eok && st.ok(), st.ok() ? "" : st.error_msg(), kPlyTypes, false);
      }
      if (mesh) {  // STL (triangle soup of positions)
        Geom g = gen_io_geom(r, true, false, false, r.coin(1, 6));
        EncoderBuffer eb;
        StlEncoder fresh_e; StlEncoder &enc = reuse ? reuse_se : fresh_e;
        const Status es = enc.EncodeToBuffer(*g.mesh(), &eb);
        std::unique_ptr<Mesh> o;
        std::string err = es.ok() ? "" : es.error_msg();
        if (es.ok()) {
          DecoderBuffer db; db.Init(eb.data(), eb.size());
          StlDecoder dec;
          auto res = dec.DecodeFromBuffer(&db);
          if (res.ok()) o = std::move(res).value(); else err = res.status().error_msg();
        }
        emit_io("stl", label, *g.pc, true, o.get(), true, o != nullptr, err, kStlTypes, false);
      }
    }
  }
  return 0;
}

static void write_file(const std::string &path, const EncoderBuffer &eb) { std::ofstream f(path, std::ios::binary); f.write(eb.data(), eb.size()); }
static std::vector<char> read_file(const std::string &p) { std::ifstream f(p, std::ios::binary); return std::vector<char>((std::istreambuf_iterator<char>(f)), std::istreambuf_iterator<char>()); }
static int run_gen(uint64_t seed, long n, const std::string &dir) {
  vrt::Rng r(seed);
  for (long i = 0; i < n; ++i) {
    Geom g = gen_io_geom(r, true, false);
    { EncoderBuffer eb; ObjEncoder oe; if (oe.EncodeToBuffer(*g.mesh(), &eb)) write_file(dir + "/m" + std::to_string(i) + ".obj", eb); }
    Geom h = gen_io_geom(r, true, true);
    { EncoderBuffer eb; PlyEncoder pe; if (pe.EncodeToBuffer(*h.mesh(), &eb)) write_file(dir + "/m" + std::to_string(i) + ".ply", eb); }
  }
  return 0;
}

static std::unique_ptr<Mesh> load_mesh(const std::string &fmt, const std::string &path) {
  const std::vector<char> b = read_file(path);
  DecoderBuffer db; db.Init(b.data(), b.size());
  std::unique_ptr<Mesh> m(new Mesh());
  Status st = fmt == "obj" ? ObjDecoder().DecodeFromBuffer(&db, m.get()) : PlyDecoder().DecodeFromBuffer(&db, m.get());
  if (!st.ok()) return nullptr;
  return m;
}
static int run_cmp(const std::string &fmt, const std::string &a, const std::string &b, const std::string &label) {
  std::unique_ptr<Mesh> ma = load_mesh(fmt, a), mb = load_mesh(fmt, b);
  if (!ma) return 3;
  // both files were parsed from text / binary written by the library: compare with the text tolerance for OBJ, bit-exactly for PLY
  emit_io(fmt.c_str(), label, *ma, true, mb.get(), true, mb != nullptr, mb ? "" : "cannot read the tool's output", fmt == "obj" ? kObjTypes : kPlyTypes, fmt == "obj");
  return 0;
}

int main(int argc, char **argv) {
  if (argc >= 4 && !strcmp(argv[1], "rt")) return run_rt(strtoull(argv[2], 0, 10), atol(argv[3]));
  if (argc >= 5 && !strcmp(argv[1], "gen")) g_shared_positions = false;
  if (argc >= 5 && !strcmp(argv[1], "gen")) return run_gen(strtoull(argv[2], 0, 10), atol(argv[3]), argv[4]);
  if (argc >= 6 && !strcmp(argv[1], "cmp")) return run_cmp(argv[2], argv[3], argv[4], argv[5]);
  fprintf(stderr, "usage: drv_c15 rt <seed> <n> | gen <seed> <n> <dir> | cmp <fmt> <a> <b> <label>\n");
  return 2;
}
