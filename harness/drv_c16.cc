// C16 driver: runs the real wrap and canonicalised-octahedral prediction transforms and records
// (input, correction, decoded) observations as ndjson for Trace_Wrap / Trace_Oct.
//   drv_c16 wrap <seed> <nrandom>      anchored boundary tuples + boundary-biased random 32-bit tuples
//   drv_c16 oct  <qmax_full> <seed> <nsample>   all pairs of canonical points for q <= qmax_full
//                                               (native pre-check; suspects + a seeded sample are emitted),
//                                               boundary-biased samples for larger q up to 30
// No hooks: the classes are public templates.
#include <algorithm>
#include <set>
#include "rt/rt.h"
#include "draco/compression/attributes/normal_compression_utils.h"
#include "draco/compression/attributes/prediction_schemes/prediction_scheme_normal_octahedron_canonicalized_decoding_transform.h"
#include "draco/compression/attributes/prediction_schemes/prediction_scheme_normal_octahedron_canonicalized_encoding_transform.h"
#include "draco/compression/attributes/prediction_schemes/prediction_scheme_wrap_decoding_transform.h"
#include "draco/compression/attributes/prediction_schemes/prediction_scheme_wrap_encoding_transform.h"
#include "draco/core/decoder_buffer.h"
#include "draco/core/encoder_buffer.h"

using namespace draco;
static vrt::Out out;
static long long n_emitted = 0, n_run = 0, n_suspect = 0;

static void wrap_case(int32_t lo, int32_t hi, int32_t o, int32_t p, bool force_emit) {
  if (lo > hi || o < lo || o > hi) return;
  const int64_t dif = (int64_t)hi - (int64_t)lo;
  // every second case runs on ONE encoding transform object that has been initialised with all earlier data sets; the extremes come first, last, in
  // rising and in falling order: the announced range is the range of the data, wherever its extremes stand
  static PredictionSchemeWrapEncodingTransform<int32_t, int32_t> reused_enc;
  PredictionSchemeWrapEncodingTransform<int32_t, int32_t> fresh_enc;
  PredictionSchemeWrapEncodingTransform<int32_t, int32_t> &enc = (n_run % 2) ? reused_enc : fresh_enc;
  int32_t data[3] = {lo, hi, o};
  switch ((n_run / 2) % 4) {
    case 1: data[0] = hi; data[1] = lo; data[2] = o; break;
    case 2: data[0] = hi; data[1] = o; data[2] = lo; break;
    case 3: data[0] = o; data[1] = hi; data[2] = lo; break;
    default: break;
  }
  enc.Init(data, 3, 1);
  int32_t corr = 0, dec = 0;
  EncoderBuffer eb;
  enc.EncodeTransformData(&eb);
  PredictionSchemeWrapDecodingTransform<int32_t, int32_t> dt;
  dt.Init(1);
  DecoderBuffer db;
  db.Init(eb.data(), eb.size());
  const bool initok = dt.DecodeTransformData(&db);
  if (dif >= 0x7fffffffLL) {
    // outside the property's domain (max-min >= 2^31-1): the decoder must refuse the parameters
    ++n_run;
    out.begin("WrapBounds").w32("lo", lo).w32("hi", hi).b("initok", initok).end();
    ++n_emitted;
    return;
  }
  enc.ComputeCorrection(&o, &p, &corr);
  if (initok) dt.ComputeOriginalValue(&p, &corr, &dec);
  ++n_run;
  const bool suspect = !initok || dec != o;
  if (suspect) ++n_suspect;
  if (suspect && !force_emit && n_suspect > 20000) return;
  if (suspect || force_emit) {
    out.begin("Wrap").w32("lo", lo).w32("hi", hi).w32("o", o).w32("p", p).w32("c", corr).w32("d", dec).b("initok", initok).end();
    ++n_emitted;
  }
}

// two-component values: the extremes of the data sit in the SECOND component of the first entry (hi) and of a later entry (lo), or the other way round;
// the announced range must still be [lo, hi] and every component must come back
static void wrap_case2(int32_t lo, int32_t hi, int32_t o, int32_t p, bool hi_first) {
  if (lo > hi || o < lo || o > hi) return;
  if ((int64_t)hi - (int64_t)lo >= 0x7fffffffLL) return;
  PredictionSchemeWrapEncodingTransform<int32_t, int32_t> enc;
  const int32_t e1 = hi_first ? hi : lo, e2 = hi_first ? lo : hi;
  int32_t data[6] = {o, e1, o, e2, o, o};
  enc.Init(data, 6, 2);
  EncoderBuffer eb;
  enc.EncodeTransformData(&eb);
  PredictionSchemeWrapDecodingTransform<int32_t, int32_t> dt;
  dt.Init(2);
  DecoderBuffer db;
  db.Init(eb.data(), eb.size());
  const bool initok = dt.DecodeTransformData(&db);
  const int32_t o2[2] = {o, e1}, p2[2] = {p, p};
  int32_t c2[2] = {0, 0}, d2[2] = {0, 0};
  enc.ComputeCorrection(o2, p2, c2);
  if (initok) dt.ComputeOriginalValue(p2, c2, d2);
  n_run += 2;
  for (int k = 0; k < 2; ++k) {
    out.begin("Wrap").w32("lo", lo).w32("hi", hi).w32("o", o2[k]).w32("p", p).w32("c", c2[k]).w32("d", d2[k]).b("initok", initok).end();
    ++n_emitted;
  }
}

static int32_t anchored(vrt::Rng &r, int32_t lo, int32_t hi) {
  // values near the interesting anchors: type limits, zero, range ends
  const int k = r.range(0, 40);
  switch (r.range(0, 7)) {
    case 0: return INT32_MIN + k;
    case 1: return INT32_MAX - k;
    case 2: return k - 20;
    case 3: return (int32_t)((int64_t)lo + k > INT32_MAX ? INT32_MAX : (int64_t)lo + k);
    case 4: return (int32_t)((int64_t)hi - k < INT32_MIN ? INT32_MIN : (int64_t)hi - k);
    case 5: return (int32_t)((int64_t)lo - k < INT32_MIN ? INT32_MIN : (int64_t)lo - k);
    case 6: return (int32_t)((int64_t)hi + k > INT32_MAX ? INT32_MAX : (int64_t)hi + k);
    default: return (int32_t)r.u32();
  }
}

static int run_wrap(uint64_t seed, long long nrandom) {
  // (1) the W=6 model's complete tuple space, anchored at the 32-bit limits: every value of the
  //     6-bit model is INT_MIN+k (negative half) or INT_MAX-k' (positive half); plus small ranges at 0
  const int K = 12;
  for (int a = 0; a < K; ++a)
    for (int b = a; b < K; ++b)
      for (int c = a; c <= b; ++c)
        for (int d = -2; d < K + 2; ++d) {
          // near INT_MIN
          wrap_case(INT32_MIN + a, INT32_MIN + b, INT32_MIN + c, (int32_t)std::max<int64_t>(INT32_MIN, (int64_t)INT32_MIN + d), (a + b + c + d) % 97 == 0);
          // near INT_MAX
          wrap_case(INT32_MAX - b, INT32_MAX - a, INT32_MAX - c, (int32_t)std::min<int64_t>(INT32_MAX, (int64_t)INT32_MAX - d), (a + b + c + d) % 97 == 1);
          // around zero
          wrap_case(a - 6, b - 6, c - 6, d - 6, (a + b + c + d) % 97 == 2);
          if ((a + b + c + d) % 11 == 0) wrap_case2(a - 6, b - 6, c - 6, d - 6, (a + b) % 2 == 0);
          // far predictions
          wrap_case(a - 6, b - 6, c - 6, INT32_MAX - d - 2, (a + b + c + d) % 97 == 3);
          wrap_case(a - 6, b - 6, c - 6, INT32_MIN + d + 2, (a + b + c + d) % 97 == 4);
        }
  // (2) widest admissible ranges and just-inadmissible ones
  for (int a = 0; a < 6; ++a)
    for (int b = 0; b < 6; ++b) {
      const int64_t lo = (int64_t)INT32_MIN + a, hi = lo + 0x7ffffffeLL - b;  // dif = INT_MAX-1-b (admissible)
      for (int c = 0; c < 5; ++c)
        for (int d = 0; d < 5; ++d) {
          wrap_case((int32_t)lo, (int32_t)hi, (int32_t)(lo + c), (int32_t)(hi - d), true);
          wrap_case((int32_t)lo, (int32_t)hi, (int32_t)(hi - c), (int32_t)(lo + d), true);
          wrap_case((int32_t)lo, (int32_t)hi, (int32_t)(lo + (hi - lo) / 2 + c), INT32_MAX - d, true);
        }
      wrap_case((int32_t)lo, (int32_t)(lo + 0x7fffffffLL), (int32_t)lo, 0, true);  // dif == INT_MAX: must be refused
    }
  // (3) boundary-biased random tuples
  vrt::Rng r(seed);
  for (long long i = 0; i < nrandom; ++i) {
    int32_t lo = anchored(r, 0, 0), hi = anchored(r, lo, lo);
    if (lo > hi) std::swap(lo, hi);
    if ((int64_t)hi - lo >= 0x7fffffffLL) { if (r.coin(1, 50)) wrap_case(lo, hi, lo, 0, true); continue; }
    int32_t o;
    switch (r.range(0, 3)) {
      case 0: o = lo + (int32_t)r.below(std::min<int64_t>(41, (int64_t)hi - lo + 1)); break;
      case 1: o = hi - (int32_t)r.below(std::min<int64_t>(41, (int64_t)hi - lo + 1)); break;
      default: o = (int32_t)(lo + (int64_t)r.below((uint64_t)((int64_t)hi - lo + 1)));
    }
    const int32_t p = anchored(r, lo, hi);
    wrap_case(lo, hi, o, p, i % 16 == 0);
    if (i % 64 == 5) wrap_case2(lo, hi, o, p, (i / 64) % 2 == 0);
  }
  fprintf(stderr, "STATS run=%lld emitted=%lld suspect=%lld\n", n_run, n_emitted, n_suspect);
  return 0;
}

// ------------------------------------------------------------------ octahedral
static void oct_case(int q, const PredictionSchemeNormalOctahedronCanonicalizedEncodingTransform<int32_t> &enc,
                     const PredictionSchemeNormalOctahedronCanonicalizedDecodingTransform<int32_t> &dec,
                     const int32_t *o, const int32_t *p, bool force_emit) {
  int32_t c[2] = {0, 0}, d[2] = {-1, -1};
  enc.ComputeCorrection(o, p, c);
  dec.ComputeOriginalValue(p, c, d);
  ++n_run;
  const int32_t maxq = (1 << q) - 1;
  const bool suspect = d[0] != o[0] || d[1] != o[1] || c[0] < 0 || c[1] < 0 || c[0] > maxq - 1 || c[1] > maxq - 1;
  if (suspect) ++n_suspect;
  if (suspect && !force_emit && n_suspect > 20000) return;    // the first 20 000 suspects are evidence enough (TLC reads the whole file)
  if (suspect || force_emit) {
    out.begin("Oct").i("q", q).arr("o", std::vector<int>{o[0], o[1]}).arr("p", std::vector<int>{p[0], p[1]})
        .arr("c", std::vector<int>{c[0], c[1]}).arr("d", std::vector<int>{d[0], d[1]}).end();
    ++n_emitted;
  }
}

static bool make_transforms(int q, std::unique_ptr<PredictionSchemeNormalOctahedronCanonicalizedEncodingTransform<int32_t>> *enc,
                            PredictionSchemeNormalOctahedronCanonicalizedDecodingTransform<int32_t> *dec) {
  enc->reset(new PredictionSchemeNormalOctahedronCanonicalizedEncodingTransform<int32_t>((1 << q) - 1));
  EncoderBuffer eb;
  (*enc)->EncodeTransformData(&eb);
  DecoderBuffer db;
  db.Init(eb.data(), eb.size());
  return dec->DecodeTransformData(&db);
}

static int run_oct(int qfull, uint64_t seed, long long nsample) {
  vrt::Rng r(seed);
  for (int q = 2; q <= 30; ++q) {
    std::unique_ptr<PredictionSchemeNormalOctahedronCanonicalizedEncodingTransform<int32_t>> enc;
    PredictionSchemeNormalOctahedronCanonicalizedDecodingTransform<int32_t> dec;
    if (!make_transforms(q, &enc, &dec)) { out.begin("OctInit").i("q", q).b("ok", false).end(); ++n_emitted; continue; }
    OctahedronToolBox tb;
    tb.SetQuantizationBits(q);
    const int32_t ctr = tb.center_value();
    if (q <= qfull) {
      // the canonical set = image of all integer vectors with |x|+|y|+|z| = ctr
      std::set<std::pair<int32_t, int32_t>> pts;
      for (int32_t x = -ctr; x <= ctr; ++x)
        for (int32_t y = -(ctr - std::abs(x)); y <= ctr - std::abs(x); ++y) {
          const int32_t az = ctr - std::abs(x) - std::abs(y);
          for (int sgn = 0; sgn < 2; ++sgn) {
            int32_t v[3] = {x, y, sgn ? -az : az}, s, t;
            tb.IntegerVectorToQuantizedOctahedralCoords(v, &s, &t);
            pts.insert({s, t});
            if (az == 0) break;
          }
        }
      std::vector<std::pair<int32_t, int32_t>> P(pts.begin(), pts.end());
      const unsigned long long total = (unsigned long long)P.size() * P.size();
      const unsigned long long stride = std::max<unsigned long long>(1, total / std::max<long long>(1, nsample / 8));
      unsigned long long k = 0;
      for (auto &a : P)
        for (auto &b : P) {
          int32_t o[2] = {a.first, a.second}, p[2] = {b.first, b.second};
          oct_case(q, *enc, dec, o, p, q <= 4 || (k++ % stride) == 0);
        }
      out.begin("OctFull").i("q", q).i("points", (long long)P.size()).end();
      ++n_emitted;
    } else {
      // boundary-biased sampling of canonical points through the real quantiser
      auto pick = [&](int32_t *st) {
        int32_t v[3];
        const int cls = r.range(0, 5);
        int32_t x, y;
        auto near = [&](int32_t a) { return a + r.range(-2, 2); };
        switch (cls) {
          case 0: x = near(0); y = near(0); break;
          case 1: x = near(ctr); y = near(0); break;
          case 2: x = near(-ctr); y = near(0); break;
          case 3: x = near(0); y = near(r.coin() ? ctr : -ctr); break;
          case 4: x = near(ctr / 2); y = near(r.coin() ? ctr / 2 : -ctr / 2); break;
          default: x = (int32_t)r.below(2ull * ctr + 1) - ctr; y = (int32_t)r.below(2ull * ctr + 1) - ctr;
        }
        x = std::max(-ctr, std::min(ctr, x));
        const int32_t ry = ctr - std::abs(x);
        y = std::max(-ry, std::min(ry, y));
        const int32_t az = ctr - std::abs(x) - std::abs(y);
        v[0] = x; v[1] = y; v[2] = r.coin() ? az : -az;
        tb.IntegerVectorToQuantizedOctahedralCoords(v, &st[0], &st[1]);
      };
      const long long per_q = std::max<long long>(64, nsample / 24);
      for (long long i = 0; i < per_q; ++i) {
        int32_t o[2], p[2];
        pick(o); pick(p);
        oct_case(q, *enc, dec, o, p, i % 4 == 0);
      }
    }
  }
  fprintf(stderr, "STATS run=%lld emitted=%lld suspect=%lld\n", n_run, n_emitted, n_suspect);
  return 0;
}

int main(int argc, char **argv) {
  if (argc >= 4 && !strcmp(argv[1], "wrap")) return run_wrap(strtoull(argv[2], 0, 10), atoll(argv[3]));
  if (argc >= 5 && !strcmp(argv[1], "oct")) return run_oct(atoi(argv[2]), strtoull(argv[3], 0, 10), atoll(argv[4]));
  fprintf(stderr, "usage: drv_c16 wrap <seed> <n> | oct <qfull> <seed> <nsample>\n");
  return 2;
}
