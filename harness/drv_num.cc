// Numeric driver (C04 quantisation error, C07 quantised normals, C12 explicit quantisation): encodes float attributes with the real
// codec under many option sets, decodes normally and with the transform skipped, and writes RAW observations (float bit patterns and
// integers).  tools/project.py turns them into the integer vocabulary of spec/Quant.tla with exact rational arithmetic.
//   drv_num c04 <seed> <rows>      drv_num c07 <seed> <rows>      drv_num c12 <seed> <scenarios>
#include "geom.h"
using namespace draco;
using namespace vg;
static vrt::Out out;

static uint32_t fbits(float f) { uint32_t u; memcpy(&u, &f, 4); return u; }
static std::string jf(const std::vector<float> &v) { std::string s = "["; for (size_t i = 0; i < v.size(); ++i) { if (i) s += ","; s += std::to_string(fbits(v[i])); } return s + "]"; }

struct Built { Geom g; int att = -1; int idatt = -1; int aux = -1; };   // aux: a float POSITION attribute next to the attribute under test (quantised on its own)

// geometry with: POSITION int32 x3 (distinct per point), GENERIC int32 x1 point id (to re-identify points after reordering),
// and the float attribute under test (type `type`, nc components) -- or, when type == POSITION, the float positions themselves.
static Built build(vrt::Rng &r, bool mesh, GeometryAttribute::Type type, int nc, const std::vector<std::vector<float>> &vals, bool explicit_map, bool float_aux = false, int pad = 0) {
  Built b;
  const int np = (int)vals.size();
  b.g.is_mesh = mesh;
  b.g.pc.reset(mesh ? new Mesh() : new PointCloud());
  PointCloud *pc = b.g.pc.get();
  pc->set_num_points(np);
  if (type != GeometryAttribute::POSITION && float_aux) {
    AttDesc p{GeometryAttribute::POSITION, DT_FLOAT32, 3, false, true, np};
    b.aux = add_attribute(pc, p, np);
    for (int i = 0; i < np; ++i) { float xyz[3] = {(float)(i % 17) + 0.25f, (float)((i / 17) % 17) - 0.5f, (float)(i / 289) * 1.5f}; pc->attribute(b.aux)->SetAttributeValue(AttributeValueIndex(i), xyz); }
  } else if (type != GeometryAttribute::POSITION) {
    AttDesc p{GeometryAttribute::POSITION, DT_INT32, 3, false, true, np};
    const int pid = add_attribute(pc, p, np);
    for (int i = 0; i < np; ++i) { int32_t xyz[3] = {i % 17, (i / 17) % 17, i / 289}; pc->attribute(pid)->SetAttributeValue(AttributeValueIndex(i), xyz); }
  }
  if (pad > 0) {   // an unrelated attribute of many components (kd-tree clouds of 16 or more components in total are coded one tree level lower)
    AttDesc pd{GeometryAttribute::GENERIC, DT_UINT8, pad, false, true, np};
    const int pid2 = add_attribute(pc, pd, np);
    for (int i = 0; i < np; ++i) { uint8_t v[16]; for (int c = 0; c < 16; ++c) v[c] = (uint8_t)((i * 7 + c * 13) % 11); pc->attribute(pid2)->SetAttributeValue(AttributeValueIndex(i), v); }
    pc->attribute(pid2)->set_unique_id(903);
  }
  AttDesc idd{GeometryAttribute::GENERIC, DT_INT32, 1, false, true, np};
  b.idatt = add_attribute(pc, idd, np);
  for (int i = 0; i < np; ++i) { int32_t v = i; pc->attribute(b.idatt)->SetAttributeValue(AttributeValueIndex(i), &v); }
  AttDesc d{type, DT_FLOAT32, nc, false, !explicit_map, np};
  b.att = add_attribute(pc, d, np);
  // with an explicit map the values are stored in reversed order (non-identity point -> value mapping)
  for (int i = 0; i < np; ++i) {
    const int slot = explicit_map ? np - 1 - i : i;
    pc->attribute(b.att)->SetAttributeValue(AttributeValueIndex(slot), vals[i].data());
    if (explicit_map) pc->attribute(b.att)->SetPointMapEntry(PointIndex(i), AttributeValueIndex(slot));
  }
  pc->attribute(b.idatt)->set_unique_id(901);
  pc->attribute(b.att)->set_unique_id(902);
  if (mesh) {
    Mesh *m = b.g.mesh();
    const int w = std::max(2, (int)std::sqrt((double)np));
    for (int i = 0; i + w + 1 < np; ++i) {
      if ((i % w) == w - 1) continue;
      Mesh::Face f;
      f[0] = PointIndex(i); f[1] = PointIndex(i + 1); f[2] = PointIndex(i + w); m->AddFace(f);
      f[0] = PointIndex(i + 1); f[1] = PointIndex(i + w + 1); f[2] = PointIndex(i + w); m->AddFace(f);
    }
  }
  return b;
}

struct RowOpt { int mode; int es; int pred; bool builtin; bool expert; bool reuse = false; };   // mode 0 pc seq, 1 pc kd, 2 mesh eb, 3 mesh seq

static Encoded encode_row(const Built &b, const RowOpt &ro, int q, bool use_explicit, const std::vector<float> &origin, float range, int idq) {
  Opt o;
  o.method = ro.mode == 0 || ro.mode == 3 ? 0 : 1;
  o.es = o.ds = ro.es;
  o.builtin = ro.builtin;
  o.pred = ro.pred;
  o.expert = true;
  o.qbits.assign(b.g.pc->num_attributes(), 0);
  Encoded e;
  EncoderBuffer eb;
  Status st;
  if (ro.expert) {
    std::unique_ptr<ExpertEncoder> enc(b.g.is_mesh ? new ExpertEncoder(*b.g.mesh()) : new ExpertEncoder(*b.g.pc));
    enc->SetSpeedOptions(ro.es, ro.es);
    enc->SetEncodingMethod(b.g.is_mesh ? (o.method ? MESH_EDGEBREAKER_ENCODING : MESH_SEQUENTIAL_ENCODING) : (o.method ? POINT_CLOUD_KD_TREE_ENCODING : POINT_CLOUD_SEQUENTIAL_ENCODING));
    enc->SetUseBuiltInAttributeCompression(ro.builtin);
    if (use_explicit) enc->SetAttributeExplicitQuantization(b.att, q, (int)origin.size(), origin.data(), range);
    else enc->SetAttributeQuantization(b.att, q);
    if (ro.pred != -100) enc->SetAttributePredictionScheme(b.att, ro.pred);
    if (b.aux >= 0) enc->SetAttributeQuantization(b.aux, 12);
    st = enc->EncodeToBuffer(&eb);
  } else {
    // C12 only (use_explicit): the type-keyed Encoder object is reusable; every other row re-uses ONE object that has served all earlier rows with other
    // origins / ranges / bits (only rows that leave the prediction scheme alone, so that no setting of an earlier row survives except by mistake)
    static Encoder reused;
    Encoder fresh;
    Encoder &enc = (use_explicit && ro.pred == -100 && ro.reuse) ? reused : fresh;
    enc.SetSpeedOptions(ro.es, ro.es);
    enc.SetEncodingMethod(b.g.is_mesh ? (o.method ? MESH_EDGEBREAKER_ENCODING : MESH_SEQUENTIAL_ENCODING) : (o.method ? POINT_CLOUD_KD_TREE_ENCODING : POINT_CLOUD_SEQUENTIAL_ENCODING));
    const GeometryAttribute::Type t = b.g.pc->attribute(b.att)->attribute_type();
    if (use_explicit) enc.SetAttributeExplicitQuantization(t, q, (int)origin.size(), origin.data(), range);
    else enc.SetAttributeQuantization(t, q);
    if (ro.pred != -100) enc.SetAttributePredictionScheme(t, ro.pred);
    if (b.aux >= 0) enc.SetAttributeQuantization(GeometryAttribute::POSITION, 12);
    st = b.g.is_mesh ? enc.EncodeMeshToBuffer(*b.g.mesh(), &eb) : enc.EncodePointCloudToBuffer(*b.g.pc, &eb);
  }
  e.ok = st.ok();
  if (!e.ok) e.err = st.error_msg();
  e.bytes.assign(eb.data(), eb.data() + eb.size());
  return e;
}

// decoded value of the attribute under test (by type, second GENERIC is the id attribute) per ORIGINAL point index
struct View { bool ok = false; std::vector<std::vector<float>> x; std::vector<std::vector<int32_t>> k; std::vector<float> mn; float range = 0; int bits = -1; bool has_transform = false; int ttype = -1; };
// other_skip: an unrelated attribute type whose transform the decoder is told to skip (the attribute under test is still read normally)
static View view(const Encoded &e, GeometryAttribute::Type type, int nc, int np, bool skip, int other_skip = -1) {
  View v;
  std::vector<GeometryAttribute::Type> sk;
  if (skip) sk.push_back(type);
  if (other_skip >= 0) sk.push_back((GeometryAttribute::Type)other_skip);
  Decoded d = decode(e.bytes.data(), e.bytes.size(), sk);
  if (!d.ok) return v;
  const PointCloud &pc = *d.pc;
  // attributes are identified by the unique ids set in build(): 901 = point id, 902 = attribute under test
  const PointAttribute *ida = find_by_uid(pc, 901), *att = find_by_uid(pc, 902);
  if (!ida || !att) return v;
  v.x.assign(np, std::vector<float>(nc, 0.f));
  v.k.assign(np, std::vector<int32_t>(nc, 0));
  for (PointIndex p(0); p < pc.num_points(); ++p) {
    int32_t id = -1;
    ida->ConvertValue<int32_t>(ida->mapped_index(p), 1, &id);
    if (id < 0 || id >= np) return v;
    if (!skip) {
      if (att->data_type() != DT_FLOAT32) return v;
      att->GetValue(att->mapped_index(p), v.x[id].data());
    } else {
      std::vector<int32_t> kk(att->num_components());
      att->ConvertValue<int32_t>(att->mapped_index(p), att->num_components(), kk.data());
      v.k[id] = kk;
    }
  }
  if (skip) {
    const AttributeTransformData *td = att->GetAttributeTransformData();
    v.has_transform = td != nullptr;
    if (td) {
      v.ttype = td->transform_type();
      if (td->transform_type() == ATTRIBUTE_QUANTIZATION_TRANSFORM) {
        AttributeQuantizationTransform t;
        if (t.InitFromAttribute(*att)) { v.bits = t.quantization_bits(); v.range = t.range(); for (int c = 0; c < nc; ++c) v.mn.push_back(t.min_value(c)); }
      } else if (td->transform_type() == ATTRIBUTE_OCTAHEDRON_TRANSFORM) {
        AttributeOctahedronTransform t;
        if (t.InitFromAttribute(*att)) v.bits = t.quantization_bits();
      }
    }
  }
  v.ok = true;
  return v;
}

static float magnitude(vrt::Rng &r, int cls) {
  static const double mags[] = {1e-6, 1e-3, 1.0, 1e3, 1e6, 1e9};
  return (float)mags[cls % 6];
}

static RowOpt gen_rowopt(vrt::Rng &r) {
  RowOpt ro;
  ro.mode = r.range(0, 3);
  ro.es = r.range(0, 10);
  static const int preds[] = {-100, -100, -100, PREDICTION_NONE, PREDICTION_DIFFERENCE, MESH_PREDICTION_PARALLELOGRAM, MESH_PREDICTION_MULTI_PARALLELOGRAM, MESH_PREDICTION_CONSTRAINED_MULTI_PARALLELOGRAM};
  ro.pred = preds[r.range(0, 7)];
  ro.builtin = !r.coin(1, 5);
  ro.expert = r.coin(3, 4);
  return ro;
}

// ------------------------------------------------------------------------------------------------ C04
static int run_c04(uint64_t seed, long rows) {
  vrt::Rng r(seed);
  static const char *mn[] = {"pc_seq", "pc_kd", "mesh_eb", "mesh_seq"};
  for (long row = 0; row < rows; ++row) {
    const int q = row < 60 ? 1 + (int)(row % 30) : r.range(1, 30);
    const bool pos_under_test = r.coin(1, 4);
    // 12 / 16 components: kd-tree coding of clouds with 16 or more dimensions in total takes a different level policy
    const int nc = pos_under_test ? 3 : (r.coin(1, 6) ? (r.coin() ? 12 : 16) : r.range(1, 4));
    const GeometryAttribute::Type type = pos_under_test ? GeometryAttribute::POSITION : (nc == 2 && r.coin() ? GeometryAttribute::TEX_COORD : GeometryAttribute::GENERIC);
    RowOpt ro = gen_rowopt(r);
    // the constrained multi-parallelogram encoder (default at speeds 0/1) sizes an entropy-tracker histogram by the largest symbol:
    // GBs for q > 20 (encoder resource blow-up on legal input, DESIGN Appendix B #9; no listed property bounds encoder memory)
    if (q > 20 && ro.mode >= 2) { ro.es = std::max(ro.es, 2); if (ro.pred == MESH_PREDICTION_CONSTRAINED_MULTI_PARALLELOGRAM) ro.pred = MESH_PREDICTION_PARALLELOGRAM; }
    const int np = r.coin(1, 10) ? r.range(1, 3) : 64;
    const float mag = magnitude(r, r.range(0, 5));
    const int offcls = r.range(0, 3);
    const float offset = offcls == 0 ? 0.f : offcls == 1 ? mag * 10.f : offcls == 2 ? -mag * 1000.f : mag * 1e4f;
    const bool constant = r.coin(1, 12);
    const bool use_explicit = r.coin(1, 4);
    std::vector<std::vector<float>> vals(np, std::vector<float>(nc));
    // position-in-cell classes: random, on a coarse lattice (grid points / cell boundaries once the range is known), extremes
    const int cell = r.range(0, 2);
    for (int i = 0; i < np; ++i)
      for (int c = 0; c < nc; ++c) {
        double u = constant ? 0.5 : (cell == 1 ? (double)r.range(0, 64) / 64.0 : r.unit());
        if (!constant && r.coin(1, 16)) u = r.coin() ? 0.0 : 1.0;
        const double scale = (c == 0) ? 1.0 : (cell == 2 ? 0.01 : r.unit());   // other components span less than component 0
        vals[i][c] = offset + (float)(u * scale * mag);
      }
    std::vector<float> origin(nc);
    float erange = mag * 1.25f;
    for (int c = 0; c < nc; ++c) origin[c] = offset - mag * 0.125f;
    if (use_explicit) {
      // parameters exactly representable in the 6-decimal text the options store them in (finding F7 concerns the others)
      auto snap = [](float x) { char b[64]; snprintf(b, sizeof b, "%f", x); return (float)atof(b); };
      bool okp = true;
      for (int c = 0; c < nc; ++c) { origin[c] = snap(origin[c]); if (origin[c] > offset) okp = false; }
      erange = snap(erange);
      if (!okp || erange <= 0 || origin[0] + erange < offset + mag) { row += 0; }
    }
    // half of the non-position rows carry separately quantised float positions next to the attribute under test and are decoded a third time
    // with the POSITION transform skipped ("xd2"): an unrelated decoder option must not change what the attribute decodes to
    const bool float_aux = !pos_under_test && r.coin();
    Built b = build(r, ro.mode >= 2, type, nc, vals, r.coin(1, 3), float_aux);
    Encoded e = encode_row(b, ro, q, use_explicit, origin, erange, 0);
    View vn, vs, vo;
    if (e.ok) { vn = view(e, type, nc, np, false); vs = view(e, type, nc, np, true); if (float_aux) vo = view(e, type, nc, np, false, (int)GeometryAttribute::POSITION); }
    out.begin("QRow").i("row", row).i("q", q).i("nc", nc).s("m", mn[ro.mode]).i("es", ro.es).i("pred", ro.pred).b("builtin", ro.builtin).b("expert", ro.expert)
        .i("type", (int)type).b("explicit", use_explicit).raw("origin", jf(origin)).i("erange", fbits(erange))
        .b("eok", e.ok).s("err", e.err).b("dok", vn.ok).b("skipok", vs.ok && vs.has_transform && vs.ttype == ATTRIBUTE_QUANTIZATION_TRANSFORM)
        .raw("min", jf(vs.mn)).i("range", fbits(vs.range)).i("bits", vs.bits);
    std::string xs = "[", xd = "[", ks = "[", xo = "[";
    for (int i = 0; i < np; ++i) {
      if (i) { xs += ","; xd += ","; ks += ","; }
      xs += jf(vals[i]);
      xd += vn.ok ? jf(vn.x[i]) : "[]";
      ks += vs.ok ? jarr(vs.k[i]) : "[]";
      if (float_aux && vo.ok) { if (i) xo += ","; xo += jf(vo.x[i]); }
    }
    out.b("aux", float_aux).b("other_skip_ok", !float_aux || !e.ok || vo.ok).raw("x", xs + "]").raw("xd", xd + "]").raw("k", ks + "]").raw("xd2", xo + "]").end();
  }
  return 0;
}

// ------------------------------------------------------------------------------------------------ C07
static int run_c07(uint64_t seed, long rows) {
  vrt::Rng r(seed);
  static const char *mn[] = {"pc_seq", "pc_kd", "mesh_eb", "mesh_seq"};
  for (long row = 0; row < rows; ++row) {
    const int q = row < 58 ? 2 + (int)(row % 29) : r.range(2, 30);
    RowOpt ro = gen_rowopt(r);
    if (ro.mode == 1) ro.mode = 0;     // normals are octahedron-coded by the sequential / mesh attribute encoders (kd-tree uses plain quantisation)
    static const int npreds[] = {-100, -100, PREDICTION_DIFFERENCE, MESH_PREDICTION_GEOMETRIC_NORMAL};
    ro.pred = npreds[r.range(0, 3)];
    const int np = 64;
    const int lencls = r.range(0, 7);   // 7: components close to FLT_MAX (|x|+|y|+|z| exceeds the float range)
    std::vector<std::vector<float>> vals(np, std::vector<float>(3));
    for (int i = 0; i < np; ++i) {
      double d[3];
      const int cls = r.range(0, 7);
      auto tiny = [&]() { return (r.coin() ? 1 : -1) * (r.coin() ? 1e-3 : 1e-7) * r.unit(); };
      switch (cls) {
        case 0: { const int ax = r.range(0, 2); d[0] = d[1] = d[2] = 0; d[ax] = r.coin() ? 1 : -1; if (r.coin()) d[(ax + 1) % 3] = tiny(); if (r.coin()) d[(ax + 2) % 3] = tiny(); break; }
        case 1: { const int ax = r.range(0, 2); d[ax] = 0; d[(ax + 1) % 3] = r.coin() ? 1 : -1; d[(ax + 2) % 3] = (r.coin() ? 1 : -1) * (1 + tiny()); if (r.coin()) d[ax] = tiny(); break; }   // octahedron edges
        case 2: d[0] = (r.coin() ? 1 : -1) * (1 + tiny()); d[1] = (r.coin() ? 1 : -1) * (1 + tiny()); d[2] = (r.coin() ? 1 : -1) * (1 + tiny()); break;   // face centres
        case 3: d[0] = -std::abs(r.unit()) - 1e-3; d[1] = tiny(); d[2] = tiny(); break;                     // left pole neighbourhood (diamond corners)
        case 4: d[0] = tiny(); d[1] = r.unit() - 0.5; d[2] = r.unit() - 0.5; break;                          // diamond boundary |y|+|z| = 1 neighbourhood
        default: d[0] = r.unit() * 2 - 1; d[1] = r.unit() * 2 - 1; d[2] = r.unit() * 2 - 1;
      }
      static const double lens[] = {1.0, 1e-4, 1e5, 1e-30, 1e30, 1e-6, 3.0, 2.4e38};
      double len = lens[lencls];
      double n2 = std::sqrt(d[0] * d[0] + d[1] * d[1] + d[2] * d[2]);
      if (n2 == 0) { d[0] = 1; n2 = 1; }
      for (int c = 0; c < 3; ++c) vals[i][c] = (float)(d[c] / n2 * len);
    }
    if (r.coin(1, 8)) { vals[0] = {0.f, 0.f, 0.f}; vals[1] = {1e-42f, 0.f, -1e-45f}; }   // zero / denormal inputs: must not yield NaN or out-of-range coordinates
    Built b = build(r, ro.mode >= 2, GeometryAttribute::NORMAL, 3, vals, r.coin(1, 3));
    Encoded e = encode_row(b, ro, q, false, {}, 0, 0);
    View vn, vs;
    if (e.ok) { vn = view(e, GeometryAttribute::NORMAL, 3, np, false); vs = view(e, GeometryAttribute::NORMAL, 3, np, true); }
    out.begin("NRow").i("row", row).i("q", q).s("m", mn[ro.mode]).i("es", ro.es).i("pred", ro.pred).b("builtin", ro.builtin).b("expert", ro.expert).i("lencls", lencls)
        .b("eok", e.ok).s("err", e.err).b("dok", vn.ok).b("skipok", vs.ok && vs.has_transform && vs.ttype == ATTRIBUTE_OCTAHEDRON_TRANSFORM).i("bits", vs.bits);
    std::string xs = "[", xd = "[", ks = "[";
    for (int i = 0; i < np; ++i) {
      if (i) { xs += ","; xd += ","; ks += ","; }
      xs += jf(vals[i]);
      xd += vn.ok ? jf(vn.x[i]) : "[]";
      ks += vs.ok ? jarr(vs.k[i]) : "[]";
    }
    out.raw("x", xs + "]").raw("xd", xd + "]").raw("k", ks + "]").end();
  }
  return 0;
}

// ------------------------------------------------------------------------------------------------ C12
// two tiles sharing a border, encoded separately with the same explicit (origin, range, bits); every decoded coordinate is logged with
// its input bit pattern so that FunDep (equal input + equal parameters => equal output) and OnGrid can be checked over the whole scenario
static int run_c12(uint64_t seed, long scenarios) {
  vrt::Rng r(seed);
  static const char *mn[] = {"pc_seq", "pc_kd", "mesh_eb", "mesh_seq"};
  for (long sc = 0; sc < scenarios; ++sc) {
    // the coarsest grids (1, 2, 3 bits: two, four, eight values per axis) in an eighth of the scenarios
    const int q = sc % 8 == 5 ? 1 + (int)((sc / 8) % 3) : r.range(4, 24);
    const float mag = magnitude(r, r.range(1, 4));
    const int nb = 16, ni = 40;   // border / interior points per tile
    std::vector<std::vector<float>> border(nb, std::vector<float>(3));
    for (auto &p : border) for (int c = 0; c < 3; ++c) p[c] = (float)((r.unit() - 0.5) * mag);
    auto snap = [](float x) { char b[64]; snprintf(b, sizeof b, "%f", x); return (float)atof(b); };
    // parameters: representable in 6 decimals on even scenarios, arbitrary floats on odd ones (finding F7)
    const bool representable = sc % 2 == 0;
    std::vector<float> origin(3);
    // the box [origin, origin + range] contains every coordinate ([-mag/2, mag/2]); the mantissas of origin and range are spread over more than a
    // binade (floats just above a power of ten need all 9 significant decimal digits to survive the options' string store)
    for (int c = 0; c < 3; ++c) { origin[c] = -mag * (0.5f + 0.8f * (float)r.unit()); if (representable) origin[c] = snap(origin[c]); }
    float range = (1.3f * mag + 0.5f * mag) * (1.f + 1.2f * (float)r.unit());
    if (representable) range = snap(range);
    out.begin("XScenario").i("sc", sc).i("q", q).b("representable", representable).raw("origin", jf(origin)).i("range", fbits(range)).end();
    for (int tile = 0; tile < 2; ++tile) {
      std::vector<std::vector<float>> vals = border;
      for (int i = 0; i < ni; ++i) { std::vector<float> p(3); for (int c = 0; c < 3; ++c) p[c] = (float)((r.unit() - 0.5) * mag); vals.push_back(p); }
      // different point order per tile
      if (tile == 1) std::reverse(vals.begin(), vals.end());
      // a tight cluster first, the spread-out points last: what is coded for the early points says nothing about the late ones
      // (the interior points of the first third are moved into a corner of the box, 0.3 % of the range wide: their quantised values and
      // differences need fewer bytes than those of the points that follow)
      const bool clustered = r.coin(1, 3);
      if (clustered) {
        const size_t third = vals.size() / 3 + 2;      // a little more than a third of the points
        std::stable_partition(vals.begin(), vals.end(), [&](const std::vector<float> &a) { return std::find(border.begin(), border.end(), a) == border.end(); });
        for (size_t i = 0; i < third && i < (size_t)ni; ++i) for (int c = 0; c < 3; ++c) vals[i][c] = origin[c] + range * 0.003f * (float)r.unit();
      }
      RowOpt ro = gen_rowopt(r);
      ro.reuse = r.coin();
      if (q > 20 && ro.mode >= 2) { ro.es = std::max(ro.es, 2); if (ro.pred == MESH_PREDICTION_CONSTRAINED_MULTI_PARALLELOGRAM) ro.pred = MESH_PREDICTION_PARALLELOGRAM; }
      // the coordinates are positions themselves, or a generic attribute next to separately quantised float positions; in the second case the
      // stream is also decoded with the POSITION transform skipped -- an unrelated decoder option must not change the generic values ("xd2")
      const bool extra_type = r.coin(1, 3);
      const GeometryAttribute::Type ty = extra_type ? GeometryAttribute::GENERIC : GeometryAttribute::POSITION;
      if (extra_type && ro.pred != -100 && ro.pred != PREDICTION_NONE && ro.pred != PREDICTION_DIFFERENCE) ro.pred = -100;
      Built b = build(r, ro.mode >= 2, ty, 3, vals, r.coin(1, 3), extra_type, r.coin(1, 4) ? 12 : 0);
      Encoded e = encode_row(b, ro, q, true, origin, range, 0);
      View vn, vs, vo;
      const int np = (int)vals.size();
      if (e.ok) { vn = view(e, ty, 3, np, false); vs = view(e, ty, 3, np, true); if (extra_type) vo = view(e, ty, 3, np, false, (int)GeometryAttribute::POSITION); }
      out.begin("XTile").i("sc", sc).i("tile", tile).s("m", mn[ro.mode]).i("es", ro.es).i("pred", ro.pred).b("expert", ro.expert).b("builtin", ro.builtin)
          .b("eok", e.ok).s("err", e.err).b("dok", vn.ok).b("skipok", vs.ok && vs.has_transform).raw("min", jf(vs.mn)).i("srange", fbits(vs.range)).i("bits", vs.bits);
      std::string xs = "[", xd = "[", ks = "[", xo = "[";
      for (int i = 0; i < np; ++i) {
        if (i) { xs += ","; xd += ","; ks += ","; }
        xs += jf(vals[i]);
        xd += vn.ok ? jf(vn.x[i]) : "[]";
        ks += vs.ok ? jarr(vs.k[i]) : "[]";
        if (extra_type && vo.ok) { if (i) xo += ","; xo += jf(vo.x[i]); }
      }
      out.b("clustered", clustered).b("reuse", ro.reuse && !ro.expert && ro.pred == -100).b("extra", extra_type).b("other_skip_ok", !extra_type || vo.ok).raw("x", xs + "]").raw("xd", xd + "]").raw("k", ks + "]").raw("xd2", xo + "]").end();
    }
  }
  return 0;
}

int main(int argc, char **argv) {
  if (argc >= 4 && !strcmp(argv[1], "c04")) return run_c04(strtoull(argv[2], 0, 10), atol(argv[3]));
  if (argc >= 4 && !strcmp(argv[1], "c07")) return run_c07(strtoull(argv[2], 0, 10), atol(argv[3]));
  if (argc >= 4 && !strcmp(argv[1], "c12")) return run_c12(strtoull(argv[2], 0, 10), atol(argv[3]));
  fprintf(stderr, "usage: drv_num c04|c07|c12 <seed> <n>\n");
  return 2;
}
