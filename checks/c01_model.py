"""Model half of C01: the TLA+ transcription of the Edgebreaker encoder / decoder (module Edgebreaker) model-checked on all nice canonical
triangle lists of <= 3 (thorough: 4) faces plus an annulus and the 7-vertex torus (topology split events), and bound to the real encoder: the
symbol string, split events and start-face bits the real ExpertEncoder writes are parsed out of the stream and compared with the model's."""
import os
import vlib


def run(v, tier, seed, wd):
    quick = tier == "quick"
    exe = vlib.build_drv("drv_eb")
    mc = os.path.join(vlib.SPEC, "mc")
    rows = []
    for cfg in ["nf2", "nf3"] + ([] if quick else ["nf4"]) + ["annulus", "torus"]:
        r = vlib.tlc("Edgebreaker", cfg="MC_Edgebreaker_%s.cfg" % cfg, specdir=mc, workers=16, xmx="24g", timeout=3000)
        vlib.tlc_ok(r, "Edgebreaker " + cfg)
        v.add_tlc("Edgebreaker(%s)" % cfg, r)
        if r["violated"]:
            v.cov["parts"]["Edgebreaker(%s)" % cfg]["model_violation"] = r["violated"]
            vlib.log("Edgebreaker %s: model violates %s (not a verdict; the replay decides)" % (cfg, r["violated"]))
        rows += vlib.tlc_prints(r["out"])
    rowf = os.path.join(wd, "eb_rows.ndjson")
    vlib.write_ndjson(rowf, rows)
    obs = os.path.join(wd, "eb_obs.ndjson")
    rc, out = vlib.run("%s replay %s > %s" % (exe, rowf, obs), timeout=3000)
    if rc != 0:
        v.violation({"what": "Edgebreaker encoder / decoder crashed on a nice triangle list of the model's domain", "rc": rc, "output": out[-1500:]}, tags={"kind": "crash"})
        return
    recs = vlib.read_ndjson(obs)
    tr = vlib.trace_validate("Trace_Eb", obs, nshards=2, timeout=3000)
    vlib.tlc_ok(tr, "Trace_Eb")
    drift = len([l for l in tr["out"].splitlines() if "DRIFT" in l])
    v.cov["parts"]["Trace_Eb"] = {"rows_replayed": len(rows), "validated": tr["distinct"], "drift": drift, "wall_s": round(tr["wall"], 1)}
    v.cov["traces_validated_against_impl"] += tr["distinct"]
    v.cov["drift_rows"] = v.cov.get("drift_rows", 0) + drift
    if tr["violated"]:
        bad = recs[tr["bad_index"] - 1] if tr["bad_index"] and tr["bad_index"] > 0 else None
        v.violation({"what": "a nice triangle list of the Edgebreaker model's domain does not round-trip through the real encoder / decoder (Level A: Equivalent)", "record": bad},
                    tags={"kind": "eb_model_domain"})
    for s in recs[-2:]:
        v.sample({k: s[k] for k in ("f", "syms", "splits", "sb")})
