"""C11 — geometry and attribute metadata survive the round trip.

  1. TLC MC_Metadata: 63 430 trees (depth <= 2, names {"", "a", too-long}, values {empty, 1 byte, 2 bytes}) x 5
     attribute-metadata lists: transcription of the encoder recursion and of the decoder's explicit stack
     satisfies RoundTrip (encoder ok => same tree back, all tokens consumed).  One row per tree is emitted.
  2. drv_c11: every row through the real MetadataEncoder / MetadataDecoder (bytes compared with the model's),
     every 16th through the full codec (point cloud sequential / kd-tree, mesh Edgebreaker / sequential);
     random large trees (depth <= 8, names to 256 bytes incl. non-ASCII, values to 64 KiB, attribute metadata).
  3. TLC Trace_Metadata: Level A on every observation.
"""
import json, os, re
import vlib

MODEL = "fixed"   # "pinned" = transcription of the pinned commit (F2/F3 present), "fixed" = after the two fix: commits


def check(v, tier, seed):
    quick = tier == "quick"
    exe = vlib.build_drv("drv_c11")
    wd = vlib.workdir("C11")
    mc = os.path.join(vlib.SPEC, "mc")
    r = vlib.tlc("MC_Metadata", cfg="MC_Metadata_%s_emit.cfg" % MODEL, specdir=mc, xmx="24g")
    vlib.tlc_ok(r, "MC_Metadata")
    v.add_tlc("MC_Metadata(%s)" % MODEL, r)
    if r["violated"]:
        v.cov["parts"]["MC_Metadata(%s)" % MODEL]["model_violation"] = r["violated"]
        vlib.log("MC_Metadata: model violates %s (the replay decides)" % r["violated"])
    rows = vlib.tlc_prints(r["out"])
    rowf = os.path.join(wd, "rows.ndjson")
    vlib.write_ndjson(rowf, rows)
    obs = os.path.join(wd, "obs.ndjson")
    rc, out = vlib.run("(%s replay %s %d && %s random %d %d) > %s" % (exe, rowf, 16 if quick else 2, exe, seed, 400 if quick else 6000, obs), timeout=3000)
    if rc != 0:
        v.violation({"what": "metadata driver crashed", "rc": rc, "output": out[-1500:]}, tags={"kind": "crash"})
        return v.finish("model_checking")
    recs = vlib.read_ndjson(obs)
    tr = vlib.trace_validate("Trace_Metadata", obs, nshards=2, timeout=3000)
    vlib.tlc_ok(tr, "Trace_Metadata")
    drift = len([l for l in tr["out"].splitlines() if "DRIFT" in l])
    v.cov["parts"]["Trace_Metadata"] = {"records": len(recs), "validated": tr["distinct"], "drift": drift, "wall_s": round(tr["wall"], 1)}
    if tr["violated"]:
        bad = recs[tr["bad_index"] - 1] if tr["bad_index"] and tr["bad_index"] > 0 else None
        s = json.dumps(bad)
        v.violation({"what": "metadata observation rejected by Trace_Metadata (Level A: encoder ok => same tree decoded)",
                     "record": bad if len(s) < 6000 else s[:6000], "file": obs}, tags={"kind": "meta"})
    elif tr["distinct"] < len(recs):
        raise vlib.Infra("Trace_Metadata consumed %d of %d" % (tr["distinct"], len(recs)))
    v.cov["concurrent_decodes"] = sum(x.get("decodes", 0) for x in recs if x.get("e") == "Conc")
    recs = [x for x in recs if x.get("e") == "Meta"]
    vias = {}
    for x in recs:
        key = x["via"] + ("/ok" if x["eok"] else "/refused")
        vias[key] = vias.get(key, 0) + 1
    v.cov["record_kinds"] = vias
    v.cov["rows_replayed"] = len(rows)
    v.cov["drift_rows"] = drift
    v.cov["traces_validated_against_impl"] = tr["distinct"]
    v.cov["evaluations"] = len(recs)
    v.cov["distinct_nontrivial"] = len({json.dumps([x["tree"], x["atts"]], sort_keys=True) for x in recs if x["tree"]["e"] or x["tree"]["s"] or x["atts"]})
    v.cov["rule"] = ("every tree of the MC_Metadata domain through MetadataEncoder/Decoder, every 16th (2nd in thorough) through the full codec of "
                     "all four methods, plus random large trees; distinct_nontrivial = distinct non-empty (tree, attribute metadata) inputs")
    for s in recs[40:42] + [x for x in recs if x["via"] != "direct"][:1]:
        v.sample({k: s[k] for k in ("via", "tree", "atts", "eok", "dok")} if len(json.dumps(s)) < 3000 else {"via": s["via"], "eok": s["eok"], "dok": s["dok"]})
    v.assumptions += ["values longer than 48 bytes are compared through (length, 32-bit hash) pairs computed by the driver"]
    return v.finish("model_checking")


def replay(v, path):
    case = json.load(open(path))
    print(json.dumps(case, indent=1)[:3000])
    return check(v, case.get("tier", "quick"), case.get("seed", 1))
