"""Shared by C04 / C07 / C12: run drv_num, project with tools/project.py (exact rationals), validate with Trace_Num."""
import json, os
import vlib


def run(v, mode, seed, n, wd, cfgs=("Trace_Num.cfg",), what="", keep=()):
    exe = vlib.build_drv("drv_num")
    raw = os.path.join(wd, "raw_%s.ndjson" % mode)
    proj = os.path.join(wd, "proj_%s.ndjson" % mode)
    rc, out = vlib.run("%s %s %d %d > %s" % (exe, mode, seed, n, raw), timeout=3000)
    if rc != 0:
        v.violation({"what": "codec crashed in the numeric campaign %s" % mode, "rc": rc, "output": out[-1500:]}, tags={"kind": "crash"})
        return []
    rc, out = vlib.run("/usr/bin/python3 %s %s %s %s" % (os.path.join(vlib.ROOT, "tools", "project.py"), mode, raw, proj), timeout=3000)
    if rc != 0:
        raise vlib.Infra("project.py failed: " + out[-800:])
    recs = vlib.read_ndjson(proj)
    for cfg in cfgs:
        tr = vlib.trace_validate("Trace_Num", proj, cfg=cfg, nshards=2, timeout=3000)
        vlib.tlc_ok(tr, "Trace_Num " + cfg)
        v.cov["parts"]["Trace_Num:%s:%s" % (mode, cfg)] = {"records": len(recs), "validated": tr["distinct"], "wall_s": round(tr["wall"], 1)}
        if tr["violated"]:
            bad = recs[tr["bad_index"] - 1] if tr["bad_index"] and tr["bad_index"] > 0 else None
            if bad and "obs" in bad:
                bad = {k: x for k, x in bad.items() if k != "obs"}
            v.violation({"what": what, "record": bad, "clause": cfg, "file": proj, "raw": raw}, tags={"kind": mode, "clause": cfg})
        elif tr["distinct"] < len(recs):
            raise vlib.Infra("Trace_Num consumed %d of %d" % (tr["distinct"], len(recs)))
    v.cov["traces_validated_against_impl"] += len(recs)
    return recs
