"""C16 — prediction-correction transforms are exactly invertible for any prediction.

Flow (DESIGN §6 C16):
  1. TLC model check  MC_Wrap (6-bit words, every (min,max,orig,pred))  and  MC_Oct (every pair of canonical
     points at q <= 5 quick / 6 thorough): the transcription (Level B) implies Invertible /\ CorrInRange (Level A).
  2. drv_c16 runs the REAL classes: anchored + boundary-biased 32-bit tuples (wrap) and all pairs of canonical
     points for q <= 7 / 8 natively plus sampled q up to 30 (octahedral); every suspect observation and a seeded
     sample of the others is written as ndjson.
  3. TLC trace validation (Trace_Wrap at H = 16 limbs, Trace_Oct instantiated per record) evaluates Level A on
     every emitted observation of the real code; Level-B disagreement is reported as drift only.
"""
import os, re
import vlib

DEC_MODEL = "wide"   # transcription of the decoder that matches the tree: "written" = pinned commit, "wide" = after fix F1


def _drift(out):
    return len([l for l in out.splitlines() if "DRIFT" in l])


def check(v, tier, seed):
    quick = tier == "quick"
    exe = vlib.build_drv("drv_c16")
    wd = vlib.workdir("C16")
    drift = 0
    # ---- 1. model checks
    r = vlib.tlc("MC_Wrap", cfg="MC_Wrap_%s.cfg" % DEC_MODEL, specdir=os.path.join(vlib.SPEC, "mc"), coverage=False)
    vlib.tlc_ok(r, "MC_Wrap")
    v.add_tlc("MC_Wrap(H=3,%s)" % DEC_MODEL, r)
    if r["violated"]:
        # a Level-B violation in the model is not a verdict by itself (DESIGN §3.2); the 32-bit replay below decides
        vlib.log("MC_Wrap: model violates %s -- the anchored 32-bit replay decides" % r["violated"])
        v.cov["parts"]["MC_Wrap_model_violation"] = r["violated"]
    for q in ((2, 3, 4, 5) if quick else (2, 3, 4, 5, 6)):
        r = vlib.tlc("MC_Oct", cfg="MC_Oct_q%d.cfg" % q, specdir=os.path.join(vlib.SPEC, "mc"), xmx="20g")
        vlib.tlc_ok(r, "MC_Oct q=%d" % q)
        v.add_tlc("MC_Oct(q=%d)" % q, r)
        if r["violated"]:
            vlib.log("MC_Oct q=%d: model violates %s" % (q, r["violated"]))
            v.cov["parts"]["MC_Oct_model_violation_q%d" % q] = r["violated"]
    # ---- 2. real code
    nrand = 200000 if quick else 5000000
    wrapf = os.path.join(wd, "wrap.ndjson")
    rc, out = vlib.run("%s wrap %d %d > %s" % (exe, seed, nrand, wrapf), timeout=1200)
    if rc != 0:
        raise vlib.Infra("drv_c16 wrap rc=%d %s" % (rc, out[-500:]))
    m = re.search(r"STATS run=(\d+) emitted=(\d+) suspect=(\d+)", out)
    wrap_run, wrap_emit, wrap_sus = map(int, m.groups())
    octf = os.path.join(wd, "oct.ndjson")
    rc, out = vlib.run("%s oct %d %d %d > %s" % (exe, 7 if quick else 8, seed, 12000 if quick else 60000, octf), timeout=2400)
    if rc != 0:
        raise vlib.Infra("drv_c16 oct rc=%d %s" % (rc, out[-500:]))
    m = re.search(r"STATS run=(\d+) emitted=(\d+) suspect=(\d+)", out)
    oct_run, oct_emit, oct_sus = map(int, m.groups())
    # ---- 3. trace validation (verdict)
    for name, mod, f, env in (("wrap", "Trace_Wrap", wrapf, None), ("oct", "Trace_Oct", octf, None)):
        cfg = None
        if mod == "Trace_Wrap":
            cfg = "Trace_Wrap_%s.cfg" % DEC_MODEL
        r = vlib.trace_validate(mod, f, cfg=cfg)
        vlib.tlc_ok(r, mod)
        recs = vlib.read_ndjson(f)
        v.cov["traces_validated_against_impl"] += r["distinct"]
        v.cov["parts"][mod] = {"records": len(recs), "validated": r["distinct"], "drift": _drift(r["out"]), "wall_s": round(r["wall"], 1)}
        drift += _drift(r["out"])
        for s in recs[:2]:
            v.sample(s)
        if r["violated"]:
            bad = recs[r["bad_index"] - 1] if r["bad_index"] and r["bad_index"] > 0 else {"index": r["bad_index"]}
            v.violation({"what": "%s transform observation rejected by %s (Level A: Invertible /\\ CorrInRange)" % (name, mod),
                         "record": bad, "file": f, "driver": "drv_c16 %s" % name}, tags={"kind": name})
        elif r["distinct"] < len(recs):
            raise vlib.Infra("%s consumed %d of %d records" % (mod, r["distinct"], len(recs)))
    v.cov["evaluations"] = wrap_run + oct_run
    v.cov["distinct_nontrivial"] = wrap_emit + oct_emit
    v.cov["rule"] = ("wrap: anchored tuples at INT_MIN/INT_MAX/0 (the 6-bit model's space mapped to 32 bits), widest admissible ranges, "
                     "boundary-biased random tuples; oct: every ordered pair of canonical points for q<=%d natively, boundary-biased "
                     "samples for q up to 30. distinct_nontrivial = observations written to ndjson and validated by TLC "
                     "(all natively-suspect ones + a seeded sample)" % (7 if quick else 8))
    v.cov["native_suspects"] = wrap_sus + oct_sus
    v.cov["drift_rows"] = drift
    v.assumptions += ["float arithmetic is not involved; Words limb arithmetic is checked against integer arithmetic at H=3 (InvWords)",
                      "native pre-check only selects which observations are emitted; the verdict is TLC's on the emitted records"]
    return v.finish("model_checking")


def replay(v, path):
    import json
    case = json.load(open(path))
    print(json.dumps(case, indent=1))
    return check(v, case.get("tier", "quick"), case.get("seed", 1))
