"""MANIFEST.setup_cmd: cold builds of the library (plain / asan / tsan) from /repo and of every driver."""
import glob, os
import vlib

DRIVERS = {
    # driver: kinds
}


def discover():
    jobs = []
    for src in sorted(glob.glob(os.path.join(vlib.HARNESS, "drv_*.cc"))):
        name = os.path.basename(src)[:-3]
        kinds = ["plain"]
        head = open(src).read(4000)
        for k in ("asan", "tsan"):
            if "BUILD-KINDS:" in head and k in head.split("BUILD-KINDS:")[1].split("\n")[0]:
                kinds.append(k)
        if "BUILD-KINDS:" in head and "plain" not in head.split("BUILD-KINDS:")[1].split("\n")[0]:
            kinds.remove("plain")
        extra = ""
        if "BUILD-EXTRA:" in head:
            extra = head.split("BUILD-EXTRA:")[1].split("\n")[0].strip()
        for k in kinds:
            jobs.append((name, k, extra))
    return jobs


def main():
    jobs = discover()
    vlib.build_many(jobs)
    vlib.log("setup: built %d driver binaries" % len(jobs))
    return 0
