"""C19 — independent encoder/decoder instances can run concurrently.
  1. TLC MC_Concurrency: every interleaving of 2 (thorough: 3) threads x 8 (5) schedule points with <= 3 preemptions; the specification has no shared
     variable, each complete schedule is emitted.
  2. drv_c19 sched: every distinct schedule is ENFORCED on real threads (cooperative scheduler on the DRACO_VERIF_SCHED sites inside encode / decode);
     drv_c19 stress: free-running 2..16 threads, hooks off; the same stress in the ThreadSanitizer build.
  3. TLC Trace_Concurrency: NoCrossTalk -- every thread's results equal the results of its jobs run alone.  A TSan report inside draco:: is a violation.
"""
import json, os, re
import vlib


def check(v, tier, seed):
    quick = tier == "quick"
    exe, exe_tsan = vlib.build_many([("drv_c19", "plain", ""), ("drv_c19", "tsan", "")])
    wd = vlib.workdir("C19")
    r = vlib.tlc("MC_Concurrency", cfg="MC_Concurrency.cfg" if quick else "MC_Concurrency_thorough.cfg", specdir=os.path.join(vlib.SPEC, "mc"), workers=8)
    vlib.tlc_ok(r, "MC_Concurrency")
    v.add_tlc("MC_Concurrency", r)
    rows, seen = [], set()
    for x in vlib.tlc_prints(r["out"]):
        k = tuple(x["sched"])
        if k not in seen:
            seen.add(k)
            rows.append({"sched": x["sched"]})
    if not quick:
        r2 = vlib.tlc("MC_Concurrency", cfg="MC_Concurrency.cfg", specdir=os.path.join(vlib.SPEC, "mc"), workers=8)
        for x in vlib.tlc_prints(r2["out"]):
            k = tuple(x["sched"])
            if k not in seen:
                seen.add(k)
                rows.append({"sched": x["sched"]})
    rowf = os.path.join(wd, "schedules.ndjson")
    vlib.write_ndjson(rowf, rows)
    obs = os.path.join(wd, "obs.ndjson")
    parts = []
    cmds = [("sched", "%s sched %s %d" % (exe, rowf, seed), None)]
    for nt, rounds in ((2, 20), (4, 15), (8, 10), (16, 6)) if quick else ((2, 300), (3, 200), (4, 200), (8, 150), (16, 100)):
        cmds.append(("stress%d" % nt, "%s stress %d %d %d" % (exe, nt, rounds, seed + nt), None))
    for nt, rounds in ((2, 6), (8, 4), (16, 3)) if quick else ((2, 60), (4, 40), (8, 40), (16, 30)):
        cmds.append(("tsan%d" % nt, "%s stress %d %d %d" % (exe_tsan, nt, rounds, seed + 100 + nt), {"TSAN_OPTIONS": "halt_on_error=0:report_signal_unsafe=0:exitcode=66"}))
    allrecs = []
    for name, cmd, env in cmds:
        f = os.path.join(wd, name + ".ndjson")
        e = dict(env or {})
        e["VERIF_RECORDS"] = f
        rc, out = vlib.run(cmd + " > /dev/null", timeout=900 if quick else 6000, env=e, mem_gb=None if name.startswith("tsan") else 24)
        if "WARNING: ThreadSanitizer" in out:
            site = re.search(r"#\d+ (draco::[^\s(]+)", out)
            v.violation({"what": "ThreadSanitizer reports a data race while independent encoders / decoders run concurrently", "site": site.group(1) if site else None,
                         "campaign": name, "output": out[:3000]}, tags={"kind": "tsan"})
        elif rc != 0:
            v.violation({"what": "crash / abort while independent encoders / decoders run concurrently", "campaign": name, "rc": rc, "output": out[-1500:]}, tags={"kind": "crash"})
            continue
        try:
            recs = vlib.read_ndjson(f)
        except ValueError:
            # a run that raced or crashed may leave a torn record file; the run itself has been reported above
            if not v.violations:
                raise vlib.Infra("unreadable record file of campaign %s" % name)
            continue
        allrecs += recs
        parts.append((name, len(recs)))
    vlib.write_ndjson(obs, allrecs)
    tr = vlib.trace_validate("Trace_Concurrency", obs, nshards=2)
    vlib.tlc_ok(tr, "Trace_Concurrency")
    if tr["violated"]:
        bad = allrecs[tr["bad_index"] - 1] if tr["bad_index"] and tr["bad_index"] > 0 else None
        v.violation({"what": "a thread's results differ from the results of the same calls run alone (NoCrossTalk)", "record": bad}, tags={"kind": "crosstalk"})
    elif tr["distinct"] < len(allrecs):
        raise vlib.Infra("Trace_Concurrency consumed %d of %d" % (tr["distinct"], len(allrecs)))
    # stage order of single calls (module Pipeline, Level B): every schedule point a call passes, validated as drift only
    pf = os.path.join(wd, "pipeline.ndjson")
    rc, out = vlib.run("%s events %d %d > /dev/null" % (exe, seed + 77, 400 if quick else 6000), timeout=3000, env={"VERIF_RECORDS": pf}, mem_gb=24)
    if rc == 0:
        pr = vlib.trace_validate("Trace_Pipeline", pf, nshards=1)
        vlib.tlc_ok(pr, "Trace_Pipeline")
        v.cov["parts"]["Trace_Pipeline"] = {"calls": pr["distinct"], "drift": len(re.findall("DRIFT", pr["out"])), "wall_s": round(pr["wall"], 1)}
    v.cov["campaigns"] = dict(parts)
    v.cov["schedules_enforced"] = len(rows)
    v.cov["evaluations"] = len(allrecs)
    v.cov["traces_validated_against_impl"] = tr["distinct"]
    v.cov["distinct_nontrivial"] = len(rows) + len([p for p in parts if p[0] != "sched"])
    v.cov["rule"] = "one record per thread and execution; distinct_nontrivial = distinct enforced schedules + free-running campaigns (thread counts x builds)"
    for s in allrecs[:2]:
        v.sample(s)
    v.assumptions += ["data races between schedule points are found by ThreadSanitizer and by chance, not by enumeration; the TLA+ part contributes the schedules and the no-cross-talk oracle"]
    return v.finish("model_checking")


def replay(v, path):
    print(open(path).read()[:3000])
    case = json.load(open(path))
    return check(v, case.get("tier", "quick"), case.get("seed", 1))
