"""C17 — bit, varint and buffer primitives round-trip every value.

  1. TLC: MC_BitStream (every interleaving of <= MaxOps writer calls, mirrored reader: Mirror, SamePosition,
     NoOverrun) and MC_RansBit (scaled rABS: every bit string, every probability: StateRange, Lossless).
  2. drv_c17 (real classes, no hooks): EncoderBuffer/DecoderBuffer call traces, varints exhaustive for 8/16 bit
     and boundary+random for 32/64 bit, class-level round trips of the five binary coders, step-level
     rabs_write / rabs_read records at production constants.
  3. TLC trace validation: Trace_BufferA (Level A FIFO, verdict), Trace_BufferB (mechanism, drift only),
     Trace_Prims (Level A + drift).  Past-the-end reads run in the ASan+UBSan build, one process per coder.
"""
import json, os, re
import vlib

CODERS = ["rans", "adaptive", "direct", "folded", "symbol", "sweep_direct", "sweep_symbol", "sweep_buffer"]


def _seq_trace(v, mod, f, nrec, verdict):
    r = vlib.tlc(mod, specdir=os.path.join(vlib.SPEC, "trace"), env={"TRACE": f}, workers=1, deadlock=False)
    vlib.tlc_ok(r, mod)
    accepted = r["distinct"] == nrec + 1
    v.cov["parts"][mod] = {"events": nrec, "consumed": max(0, r["distinct"] - 1), "accepted": accepted, "wall_s": round(r["wall"], 1)}
    if not accepted:
        # re-run once: a rejection is reported only if it repeats (DESIGN §3.5)
        r2 = vlib.tlc(mod, specdir=os.path.join(vlib.SPEC, "trace"), env={"TRACE": f}, workers=1, deadlock=False)
        if r2["distinct"] != r["distinct"]:
            raise vlib.Infra("%s: unstable rejection (%d vs %d)" % (mod, r["distinct"], r2["distinct"]))
        recs = vlib.read_ndjson(f)
        line = r["distinct"]          # 1-based index of the first event no action accepts
        ctx = recs[max(0, line - 4):line]
        if verdict:
            v.violation({"what": "%s rejected the recorded trace at event %d" % (mod, line), "event": recs[line - 1] if line <= len(recs) else None,
                         "context": ctx, "file": f}, tags={"kind": "buffer_trace"})
        else:
            v.cov["parts"][mod]["drift_at"] = line
            vlib.log("%s: DRIFT at event %d: %s" % (mod, line, json.dumps(recs[line - 1])[:300]))
    return r


def check(v, tier, seed):
    quick = tier == "quick"
    exe, exe_asan = vlib.build_many([("drv_c17", "plain", ""), ("drv_c17", "asan", "")])
    wd = vlib.workdir("C17")
    mc = os.path.join(vlib.SPEC, "mc")
    # ---- 1. model checks
    for mod, cfg in (("MC_BitStream", "MC_BitStream_%s.cfg" % tier), ("MC_RansBit", "MC_RansBit_%s.cfg" % tier)):
        r = vlib.tlc(mod, cfg=cfg, specdir=mc, coverage=True, xmx="24g")
        vlib.tlc_ok(r, mod)
        v.add_tlc(mod, r)
        v.cov["parts"][mod]["coverage"] = vlib.coverage_lines(r["out"])
        if r["violated"]:
            v.cov["parts"][mod]["model_violation"] = r["violated"]
            vlib.log("%s: model violates %s (not a verdict by itself; the trace validation decides)" % (mod, r["violated"]))
    # ---- 2. real code
    nbuf = 4000 if quick else 60000
    fbuf = os.path.join(wd, "buffer.ndjson")
    fprim = os.path.join(wd, "prims.ndjson")
    for mode, n, f in (("buffer", nbuf, fbuf),):
        rc, out = vlib.run("%s %s %d %d > %s" % (exe, mode, seed, n, f), timeout=900)
        if rc != 0:
            # the driver only makes valid API calls here: a crash / abort is the library's
            v.violation({"what": "crash or abort while round-tripping valid buffer operations (drv_c17 %s)" % mode, "rc": rc, "output": out[-1500:]},
                        tags={"kind": "crash_valid_use"})
            return v.finish("model_checking")
    cmds = ["%s varint %d %d" % (exe, seed, 20000 if quick else 400000),
            "%s coders %d %d" % (exe, seed, 1500 if quick else 20000),
            "%s rabs %d %d" % (exe, seed, 60 if quick else 1500)]
    rc, out = vlib.run("( %s ) > %s" % (" && ".join(cmds), fprim), timeout=1800)
    if rc != 0:
        v.violation({"what": "crash or abort while round-tripping valid primitive operations (drv_c17 varint/coders/rabs)", "rc": rc, "output": out[-1500:]},
                    tags={"kind": "crash_valid_use"})
        return v.finish("model_checking")
    # the same workload in the ASan+UBSan build (memory safety of the primitives on valid use)
    rc, out = vlib.run("( %s buffer %d %d && %s coders %d %d ) > /dev/null" % (exe_asan, seed, nbuf // 4, exe_asan, seed, 300), timeout=1800,
                       env=vlib.SAN_ENV)
    if rc != 0:
        v.violation({"what": "sanitizer report / crash while round-tripping primitives in the ASan+UBSan build", "rc": rc, "output": out[-3000:]},
                    tags={"kind": "asan_valid_use"})
    # past the end, one process per coder, ASan+UBSan
    past = []
    for c in CODERS:
        rc, out = vlib.run("%s pastend %s" % (exe_asan, c), timeout=120, env=vlib.SAN_ENV)
        if "ReserveShadowMemoryRange" in out or "failed to allocate" in out and "AddressSanitizer failed" in out:
            raise vlib.Infra("ASan could not start: " + out[-300:])
        line = [l for l in out.splitlines() if l.startswith('{"e":"PastEnd"')]
        if c.startswith("sweep_") and rc == 0 and line:
            for l in line:
                past.append(json.loads(l))
            continue
        if rc != 0 or not line:
            site = re.search(r"#\d+ .* in (draco::\S+)", out)
            v.violation({"what": "reading past the written data touches memory outside the buffer (sanitizer report)", "coder": c,
                         "rc": rc, "site": site.group(1) if site else None, "output": out[-2500:]},
                        tags={"kind": "pastend_memory", "coder": c})
        else:
            past.append(json.loads(line[0]))
    # 32-bit wide values with the top bit set through the symbol bit coder (bit width 1..32 is in the quantifier)
    rc, out = vlib.run("ulimit -v 8000000; %s pastend symwide" % exe, timeout=120)
    line = [l for l in out.splitlines() if l.startswith('{"e":"Coder"')]
    if rc != 0 or not line:
        v.violation({"what": "SymbolBitEncoder/Decoder with 32-bit values >= 2^31 crashes or aborts instead of round-tripping or failing",
                     "rc": rc, "output": out[-1500:]}, tags={"kind": "symbol_wide"})
    else:
        past.append(json.loads(line[0]))
    with open(fprim, "a") as f:
        for p in past:
            # the rABS family has no end marker: its past-the-end values are a recorded oracle decision, not a verdict
            if p["e"] == "PastEnd" and not p["has_end"] and p["nonzero"] > 0:
                v.violation({"what": "past-the-end values are not zero", "record": p}, tags={"kind": "pastend_values", "family": "rabs"})
                continue
            if p["e"] == "Coder":
                # the wide-value case of the symbol bit coder is validated on its own so that it can be told apart
                fw = os.path.join(wd, "symwide.ndjson")
                vlib.write_ndjson(fw, [p])
                rw = vlib.trace_validate("Trace_Prims", fw)
                vlib.tlc_ok(rw, "Trace_Prims(symwide)")
                if rw["violated"]:
                    v.violation({"what": "SymbolBitEncoder/Decoder does not round-trip 32-bit wide values >= 2^31 and cannot report the failure (EndEncoding is void)",
                                 "record": p}, tags={"kind": "symbol_wide"})
                continue
            f.write(json.dumps(p, separators=(",", ":")) + "\n")
    # ---- 3. trace validation
    nb = len(vlib.read_ndjson(fbuf))
    _seq_trace(v, "Trace_BufferA", fbuf, nb, verdict=True)
    _seq_trace(v, "Trace_BufferB", fbuf, nb, verdict=False)
    recs = vlib.read_ndjson(fprim)
    r = vlib.trace_validate("Trace_Prims", fprim, nshards=2)
    vlib.tlc_ok(r, "Trace_Prims")
    drift = len([l for l in r["out"].splitlines() if "DRIFT" in l])
    v.cov["parts"]["Trace_Prims"] = {"records": len(recs), "validated": r["distinct"], "drift": drift, "wall_s": round(r["wall"], 1)}
    if r["violated"]:
        bad = recs[r["bad_index"] - 1] if r["bad_index"] and r["bad_index"] > 0 else None
        if bad is not None and len(json.dumps(bad)) > 4000:
            bad = {k: (x if not isinstance(x, list) or len(x) < 64 else x[:64] + ["..."]) for k, x in bad.items()}
        tags = {"kind": "prim_record"}
        if bad and bad.get("e") == "PastEnd":
            tags = {"kind": "pastend_values", "coder": bad.get("coder")}
        v.violation({"what": "primitive observation rejected by Trace_Prims (Level A)", "record": bad, "file": fprim}, tags=tags)
    elif r["distinct"] < len(recs):
        raise vlib.Infra("Trace_Prims consumed %d of %d" % (r["distinct"], len(recs)))
    v.cov["traces_validated_against_impl"] = nb + len(recs)
    v.cov["evaluations"] = nb + len(recs)
    kinds = {}
    for x in recs:
        kinds[x["e"]] = kinds.get(x["e"], 0) + 1
    v.cov["record_kinds"] = kinds
    v.cov["distinct_nontrivial"] = len({json.dumps(x, sort_keys=True)[:400] for x in recs})
    v.cov["rule"] = ("buffer: %d random call sequences (byte writes, varints of 8 types, sized/unsized bit sequences, refused calls, "
                     "past-the-end reads); varints: all 8/16-bit values signed+unsigned, boundary and random 32/64-bit; coders: mixed "
                     "EncodeBit / 1..32-bit words with biases 0..1 for rans/adaptive/direct/folded/symbol; rabs: every write/read step. "
                     "distinct_nontrivial = distinct primitive records" % nbuf)
    v.cov["drift_rows"] = drift
    for s in recs[:2] + vlib.read_ndjson(fbuf)[1:4]:
        v.sample(s)
    v.assumptions += ["memory safety past the end is decided by ASan/UBSan compiled into the harness, not by TLC",
                      "rABS-family decoders have no end marker; their past-the-end values are recorded as a known oracle decision"]
    return v.finish("model_checking")


def replay(v, path):
    case = json.load(open(path))
    print(json.dumps(case, indent=1)[:3000])
    return check(v, case.get("tier", "quick"), case.get("seed", 1))
