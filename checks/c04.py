"""C04 — quantisation error is at most half a step.
  1. TLC MC_Quant: round-to-nearest + bounded per-operation rounding error => HalfStep /\ InBox on the whole box of a 5-bit quantiser
     (16 sub-steps per step, every error pair); the truncating quantiser violates HalfStep on the same domain (non-vacuity).
  2. drv_num c04: float attributes (1..4 components, POSITION / TEX_COORD / GENERIC, magnitudes 1e-6..1e9, offsets, constant attributes,
     identity and explicit point->value maps) x q = 1..30 x automatic / explicit range x {point cloud sequential, kd-tree, mesh Edgebreaker,
     mesh sequential} x speeds x prediction schemes x built-in entropy coding on/off x Encoder / ExpertEncoder.
  3. tools/project.py (exact rationals) -> Trace_Num: worst error <= half a step + 8 ulp32(M), decoded value inside the box.
"""
import json, os
import vlib, numcommon


def check(v, tier, seed):
    wd = vlib.workdir("C04")
    mc = os.path.join(vlib.SPEC, "mc")
    r = vlib.tlc("MC_Quant", cfg="MC_Quant.cfg", specdir=mc, workers=4)
    vlib.tlc_ok(r, "MC_Quant")
    v.add_tlc("MC_Quant", r)
    if r["violated"]:
        v.cov["parts"]["MC_Quant"]["model_violation"] = r["violated"]
    r2 = vlib.tlc("MC_Quant", cfg="MC_Quant_floor.cfg", specdir=mc, workers=4)
    v.cov["parts"]["MC_Quant_floor(non-vacuity)"] = {"violated_as_expected": r2["violated"]}
    if not r2["violated"]:
        raise vlib.Infra("MC_Quant_floor should violate HalfStep: the invariant would be vacuous")
    recs = numcommon.run(v, "c04", seed, 1500 if tier == "quick" else 60000, wd,
                         what="decoded value further than half a quantisation step (+8 ulp) from the original, or outside the box (Level A: HalfStep / InBox)")
    used = [x for x in recs if x.get("n")]
    v.cov["evaluations"] = sum(x["n"] for x in used)
    v.cov["distinct_nontrivial"] = len({(x["q"], x["nc"], x["m"], x["es"], x["pred"], x["builtin"], x["explicit"], x["type"]) for x in used})
    v.cov["worst_excess_over_half_step_in_allowances"] = max([(x["worst_err_u"] - x["half_u"]) / max(1, x["allow_u"]) for x in used] + [0])
    v.cov["rows_tiny_range"] = len([x for x in used if x.get("tiny_range")])
    v.cov["rule"] = "one row = one encode/decode of a float attribute (64 values x nc components); distinct_nontrivial = distinct (q, components, method, speed, prediction, entropy on/off, explicit?, type) tuples that encoded and decoded"
    for s in used[:2]:
        v.sample({k: s[k] for k in s if k != "sample"} | {"worst": s["sample"]})
    v.assumptions += ["float32 arithmetic is observed, not modelled; the exact-rational projector tools/project.py is trusted",
                      "allowance = 8 ulp32(max(|min|,|min+R|,R)), fixed in DESIGN §6 C04 from a measured worst case of 1.6"]
    return v.finish("model_checking")


def replay(v, path):
    print(open(path).read()[:3000])
    case = json.load(open(path))
    return check(v, case.get("tier", "quick"), case.get("seed", 1))
