"""Model half of C06: call histories (MC_Lifecycle) replayed on reused objects, and multi-process determinism."""
import json, os, re
import vlib


def run(v, tier, seed, wd):
    quick = tier == "quick"
    exe = vlib.build_drv("drv_c06")
    r = vlib.tlc("MC_Lifecycle", cfg="MC_Lifecycle_%s.cfg" % tier, specdir=os.path.join(vlib.SPEC, "mc"), workers=8)
    vlib.tlc_ok(r, "MC_Lifecycle")
    v.add_tlc("MC_Lifecycle", r)
    if r["violated"]:
        raise vlib.Infra("MC_Lifecycle violated %s" % r["violated"])
    rows = vlib.tlc_prints(r["out"])
    rowf = os.path.join(wd, "histories.ndjson")
    vlib.write_ndjson(rowf, rows)
    obs = os.path.join(wd, "lifecycle.ndjson")
    rc, out = vlib.run("%s replay %s > %s" % (exe, rowf, obs), timeout=3000, mem_gb=16)
    if rc != 0:
        v.violation({"what": "reusing encoder / decoder / buffer objects along a call history crashed", "rc": rc, "output": out[-1500:]}, tags={"kind": "crash_reuse"})
        return
    # multi-process determinism: the same seeded campaign in three processes with different heap layouts / fill patterns
    rt = vlib.build_drv("drv_rt")
    # the third process also starts in the middle of the campaign, with its first mesh of more than 1200 faces: whatever the library keeps per process
    # (a value fixed by the first geometry it sees) has been set by a geometry of another size class than in the first two
    ncases_ = 600 if quick else 6000
    envs = [("plain", {}, ""), ("perturb", {"MALLOC_PERTURB_": "165"}, "setarch -R "),
            ("perturb2", {"MALLOC_PERTURB_": "90", "MALLOC_ARENA_MAX": "1", "VERIF_FROM_BIG": "1"}, "")]
    runs = []
    ncases = 600 if quick else 6000
    for name, env, prefix in envs:
        f = os.path.join(wd, "det_%s.ndjson" % name)
        rc, out = vlib.run("%s%s random %d %d expdims > %s" % (prefix, rt, seed + 3, ncases, f), timeout=3000, env=env, mem_gb=16)
        if rc != 0 and prefix:
            rc, out = vlib.run("%s random %d %d expdims > %s" % (rt, seed + 3, ncases, f), timeout=3000, env=env, mem_gb=16)   # setarch may be unavailable
        if rc != 0:
            v.violation({"what": "codec crashed under a different heap layout (%s)" % name, "rc": rc, "output": out[-1000:]}, tags={"kind": "crash"})
            return
        runs.append({x["case"]: x for x in vlib.read_ndjson(f)})
    with open(obs, "a") as fo:
        for case in sorted(runs[0]):
            a, b, c = (runs[k].get(case) for k in range(3))
            if not (a and b and c):
                continue
            fo.write(json.dumps({"e": "Det", "case": case, "a": [a["eok"], a["h_enc1"], a["h_dec1"]], "b": [b["eok"], b["h_enc1"], b["h_dec1"]],
                                 "c": [c["eok"], c["h_enc1"], c["h_dec1"]]}) + "\n")
    recs = vlib.read_ndjson(obs)
    tr = vlib.tlc("Trace_Lifecycle", specdir=os.path.join(vlib.SPEC, "trace"), env={"TRACE": obs}, workers=1, deadlock=False)
    vlib.tlc_ok(tr, "Trace_Lifecycle")
    accepted = tr["distinct"] == len(recs) + 1
    v.cov["parts"]["Trace_Lifecycle"] = {"events": len(recs), "consumed": max(0, tr["distinct"] - 1), "accepted": accepted, "histories": len(rows), "wall_s": round(tr["wall"], 1)}
    v.cov["traces_validated_against_impl"] += max(0, tr["distinct"] - 1)
    if not accepted:
        line = tr["distinct"]
        ctx = recs[max(0, line - 4):line]
        v.violation({"what": "Trace_Lifecycle rejected the replayed history at event %d: the outcome of a call depends on what happened before on the same objects, "
                             "or differs between processes" % line, "event": recs[line - 1] if line <= len(recs) else None, "context": ctx}, tags={"kind": "lifecycle"})
