"""C20 — keyframe animations round-trip with frame order preserved.
  1. TLC MC_Keyframe: every history of <= 4 SetTimestamps / AddKeyframes calls: ids distinct, never 0, frame count stable; rows emitted.
  2. drv_c20: the histories replayed on the real KeyframeAnimation (returned ids / refusals compared, tracks retrievable under their ids);
     random animations through KeyframeAnimationEncoder / Decoder.
  3. TLC Trace_Keyframe (RoundTripOK) and, for quantised tracks, tools/project.py + Trace_Num (C04's half-step bound).
"""
import json, os
import vlib


def check(v, tier, seed):
    quick = tier == "quick"
    exe = vlib.build_drv("drv_c20")
    wd = vlib.workdir("C20")
    r = vlib.tlc("MC_Keyframe", cfg="MC_Keyframe.cfg", specdir=os.path.join(vlib.SPEC, "mc"), workers=4)
    vlib.tlc_ok(r, "MC_Keyframe")
    v.add_tlc("MC_Keyframe", r)
    if r["violated"]:
        v.cov["parts"]["MC_Keyframe"]["model_violation"] = r["violated"]
    rows = vlib.tlc_prints(r["out"])
    rowf = os.path.join(wd, "rows.ndjson")
    vlib.write_ndjson(rowf, rows)
    obs = os.path.join(wd, "obs.ndjson")
    rc, out = vlib.run("(%s replay %s && %s random %d %d && %s tiny %d %d) > %s" % (exe, rowf, exe, seed, 500 if quick else 12000, exe, seed + 4, 400000 if quick else 6000000, obs), timeout=3000)
    if rc != 0:
        v.violation({"what": "keyframe animation codec crashed", "rc": rc, "output": out[-1500:]}, tags={"kind": "crash"})
        return v.finish("model_checking")
    allrecs = vlib.read_ndjson(obs)
    main = [x for x in allrecs if x["e"] in ("Anim", "Hist")]
    qrows = [x for x in allrecs if x["e"] == "QRow"]
    mainf = os.path.join(wd, "main.ndjson")
    vlib.write_ndjson(mainf, main)
    tr = vlib.trace_validate("Trace_Keyframe", mainf, nshards=2, timeout=3000)
    vlib.tlc_ok(tr, "Trace_Keyframe")
    drift = len([l for l in tr["out"].splitlines() if "DRIFT" in l])
    if tr["violated"]:
        bad = main[tr["bad_index"] - 1] if tr["bad_index"] and tr["bad_index"] > 0 else None
        s = json.dumps(bad)
        v.violation({"what": "keyframe animation observation rejected by Trace_Keyframe (Level A: frames, order, timestamps, tracks by id)",
                     "record": bad if len(s) < 4000 else s[:4000]}, tags={"kind": "anim"})
    elif tr["distinct"] < len(main):
        raise vlib.Infra("Trace_Keyframe consumed %d of %d" % (tr["distinct"], len(main)))
    # quantised tracks: C04's bound
    if qrows:
        rawq = os.path.join(wd, "qraw.ndjson")
        projq = os.path.join(wd, "qproj.ndjson")
        vlib.write_ndjson(rawq, qrows)
        rc, out = vlib.run("/usr/bin/python3 %s c04 %s %s" % (os.path.join(vlib.ROOT, "tools", "project.py"), rawq, projq), timeout=3000)
        if rc != 0:
            raise vlib.Infra("project.py failed: " + out[-500:])
        tq = vlib.trace_validate("Trace_Num", projq, cfg="Trace_Num.cfg")
        vlib.tlc_ok(tq, "Trace_Num(anim)")
        if tq["violated"]:
            pr = vlib.read_ndjson(projq)
            v.violation({"what": "quantised keyframe track outside the half-step bound", "record": pr[tq["bad_index"] - 1] if tq["bad_index"] > 0 else None}, tags={"kind": "anim_quant"})
    anims = [x for x in main if x["e"] == "Anim"]
    v.cov["evaluations"] = len(main) + len(qrows)
    v.cov["traces_validated_against_impl"] = len(main) + len(qrows)
    v.cov["distinct_nontrivial"] = len({(x["frames"], len(x["tracks"]), x["speed"], x["ts_first"], tuple((t["comps"], t["dt"], t["q"]) for t in x["tracks"])) for x in anims if x["tracks"]})
    v.cov["rows_replayed"] = len(rows)
    v.cov["drift_rows"] = drift
    v.cov["quantised_tracks_projected"] = len(qrows)
    v.cov["rule"] = "every call history of the model replayed; random animations; distinct_nontrivial = distinct animation shapes with at least one track"
    for s in anims[:2]:
        v.sample({k: s[k] for k in ("frames", "speed", "ts_first", "eok", "dok", "out_frames")} | {"tracks": [{k: t[k] for k in ("id", "comps", "dt", "q", "found")} for t in s["tracks"]]})
    return v.finish("model_checking")


def replay(v, path):
    print(open(path).read()[:3000])
    case = json.load(open(path))
    return check(v, case.get("tier", "quick"), case.get("seed", 1))
