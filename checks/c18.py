"""C18 — decoder memory is bounded by stream length and declared element counts.
  1. TLC MC_Alloc: every array whose count passed one of the guards named in the property is dominated by Bound(len + declared) (K0 = 64 MiB, K = 64).
  2. drv_fault (plain build, global operator new/delete replaced, DRACO_VERIF_DECLARE hooks): the C02 fault enumeration with allocation accounting:
     largest single request and peak of live memory per probe, element counts declared at that moment; requests above 64 MiB are refused
     (simulated allocation failure) and judged against the bound.
  3. TLC Trace_Fault (Prop = C18): AllocBounded on every probe that allocated >= 64 KiB.
"""
import json, os
import vlib, faultcommon


def check(v, tier, seed):
    wd = vlib.workdir("C18")
    r = vlib.tlc("MC_Alloc", cfg="MC_Alloc.cfg", specdir=os.path.join(vlib.SPEC, "mc"), workers=8)
    vlib.tlc_ok(r, "MC_Alloc")
    v.add_tlc("MC_Alloc", r)
    if r["violated"]:
        v.cov["parts"]["MC_Alloc"]["model_violation"] = r["violated"]
    merged, probes = faultcommon.sweep(v, "plain", tier, seed, wd)
    # the streams the models generate (MC_EbDecoder / MC_SeqDecoder / MC_LegacyKd / MC_KdTree rows: declared counts on and beyond every guard), each
    # decoded as it is with the same allocation accounting
    import c02_model
    r, rowf = c02_model.rows_for(tier, wd)
    if rowf is not None:
        m2, p2 = faultcommon.sweep(v, "plain", tier, seed, wd, corpus=rowf, tag="rows")
        with open(merged, "a") as o:
            o.write(open(m2).read())
        probes += p2
        v.cov["model_rows_probed"] = p2
    # valid kd-tree clouds of 4 points with 1, 2, 3 and 8 attributes of 255 components (the encoder's own streams), decoded with the same accounting and
    # validated on their own: their input class is named by a known finding (peak memory quadratic in the declared number of components)
    exe = vlib.build_drv("drv_fault", "plain")
    widef = os.path.join(wd, "widekd.ndjson")
    rc, out = vlib.run("%s widekd > /dev/null" % exe, timeout=600, env={"VERIF_RECORDS": widef})
    if rc != 0:
        raise vlib.Infra("drv_fault widekd rc=%d %s" % (rc, out[-400:]))
    wrecs = vlib.read_ndjson(widef)
    tw = vlib.trace_validate("Trace_Fault", widef, cfg="Trace_Fault_C18.cfg", nshards=1, timeout=600)
    vlib.tlc_ok(tw, "Trace_Fault C18 (wide kd-tree clouds)")
    if tw["violated"]:
        bad = wrecs[tw["bad_index"] - 1] if tw["bad_index"] and tw["bad_index"] > 0 else None
        v.violation({"what": "decoding a valid kD-tree cloud with many attribute components: peak of live memory exceeds K0 + K*(input length + declared counts)",
                     "record": {k: bad[k] for k in bad if k != "sv"} if bad else None}, tags={"kind": "C18", "input": "kd_tree_many_components"})
    v.cov["wide_kd_probes"] = len(wrecs)
    # nested metadata whose levels each announce as many sub-metadata as the input has bytes left (finding F26, fixed): appended to the probes below
    fatf = os.path.join(wd, "fatnest.ndjson")
    rc, out = vlib.run("%s fatnest > /dev/null" % exe, timeout=600, env={"VERIF_RECORDS": fatf})
    if rc != 0:
        raise vlib.Infra("drv_fault fatnest rc=%d %s" % (rc, out[-400:]))
    with open(merged, "a") as o:
        o.write(open(fatf).read())
    recs, n = faultcommon.validate(v, "C18", merged, "an allocation (or the peak of live memory) while decoding exceeds K0 + K*(input length + declared counts)")
    pr = [x for x in recs if x["e"] == "Probe" and x["allocs"]]
    v.cov["evaluations"] = probes
    v.cov["distinct_nontrivial"] = len([x for x in pr if x["max_single_kb"] >= 64 or x["refused"]])
    v.cov["largest_request_kb"] = max([x["max_single_kb"] for x in pr] + [0])
    v.cov["refused_requests"] = len([x for x in pr if x["refused"]])
    v.cov["traces_validated_against_impl"] = n
    v.cov["rule"] = "one probe = one faulted corpus stream decoded with allocation accounting; distinct_nontrivial = probes that requested >= 64 KiB in one piece or had a request refused"
    for s in sorted(pr, key=lambda x: -x["max_single_kb"])[:2]:
        v.sample({k: s[k] for k in s if k != "sv"})
    v.assumptions += ["K0 = 64 MiB, K = 64 (DESIGN §6 C18); malloc'd memory outside operator new is not accounted (draco allocates through std containers)"]
    return v.finish("fault_enumeration")


def replay(v, path):
    print(open(path).read()[:3000])
    case = json.load(open(path))
    return check(v, case.get("tier", "quick"), case.get("seed", 1))
