"""C08 — symbol entropy coding is lossless and self-delimiting.

  1. TLC MC_RansSym at precision 2^2, 2^3 (rows emitted) and 2^4: every frequency table over 3 (4) symbols with
     bounded total, every symbol sequence up to length 5 (6): StateRange, NormalizeOK, NeverFails, TableRoundTrip,
     RoundTrip (Lossless + exact consumption).
  2. drv_c08: the emitted rows are replayed through the real RAnsEncoder<pb>/RAnsDecoder<pb> templates (same source
     as production precision); step records of rans_write at precision 12..20; RAnsSymbolEncoder::Create tables;
     EncodeSymbols -> sentinel -> DecodeSymbols end to end over the property's distributions, each case in a
     forked child (a crash is a recorded observation, not a lost run); the F6 family (values up to 2^32-1).
  3. TLC Trace_Sym: Level A on every observation (verdict), Level B as drift.
"""
import json, os, re
import vlib


def check(v, tier, seed):
    quick = tier == "quick"
    exe, exe_asan = vlib.build_many([("drv_c08", "plain", ""), ("drv_c08", "asan", "")])
    wd = vlib.workdir("C08")
    mc = os.path.join(vlib.SPEC, "mc")
    rows = []
    for cfg in (("q2", "q3", "q4") if quick else ("q2", "q3", "q4", "t4")):
        r = vlib.tlc("MC_RansSym", cfg="MC_RansSym_%s.cfg" % cfg, specdir=mc, coverage=(cfg == "q3"), xmx="24g")
        vlib.tlc_ok(r, "MC_RansSym " + cfg)
        v.add_tlc("MC_RansSym_" + cfg, r)
        if cfg == "q3":
            v.cov["parts"]["MC_RansSym_q3"]["coverage"] = vlib.coverage_lines(r["out"])
        if r["violated"]:
            v.cov["parts"]["MC_RansSym_" + cfg]["model_violation"] = r["violated"]
            vlib.log("MC_RansSym %s: model violates %s" % (cfg, r["violated"]))
        rows += vlib.tlc_prints(r["out"])
    rowf = os.path.join(wd, "rows.ndjson")
    vlib.write_ndjson(rowf, rows)
    obs = os.path.join(wd, "obs.ndjson")
    nsym = 600 if quick else 12000
    nshort = 3000000 if quick else 60000000      # very short blocks: about one in 3e5 ends exactly on a boundary of the final-state flush
    cmd = "(%s replay %s && %s steps %d %d && %s create %d %d && %s symbols %d %d && %s short %d %d) > %s" % (
        exe, rowf, exe, seed, 40 if quick else 800, exe, seed, 400 if quick else 8000, exe, seed, nsym, exe, seed + 9, nshort, obs)
    rc, out = vlib.run(cmd, timeout=3000)
    if rc != 0:
        raise vlib.Infra("drv_c08 rc=%d %s" % (rc, out[-400:]))
    rc, out = vlib.run("ulimit -v 6000000; %s wide >> %s" % (exe, obs), timeout=900)
    if rc != 0:
        raise vlib.Infra("drv_c08 wide rc=%d %s" % (rc, out[-400:]))
    # the end-to-end workload once more under ASan+UBSan (observations discarded; only sanitizer reports matter)
    rc, out = vlib.run("%s symbols %d %d > /dev/null" % (exe_asan, seed + 1, 120 if quick else 1500), timeout=3000, env=vlib.SAN_ENV)
    if rc != 0 or "ERROR: AddressSanitizer" in out or "runtime error" in out:
        v.violation({"what": "sanitizer report while entropy-coding symbol arrays", "rc": rc, "output": out[-3000:]}, tags={"kind": "asan"})
    recs = vlib.read_ndjson(obs)
    r = vlib.trace_validate("Trace_Sym", obs, nshards=2, timeout=2400)
    vlib.tlc_ok(r, "Trace_Sym")
    drift = len([l for l in r["out"].splitlines() if "DRIFT" in l])
    v.cov["parts"]["Trace_Sym"] = {"records": len(recs), "validated": r["distinct"], "drift": drift, "wall_s": round(r["wall"], 1)}
    if r["violated"]:
        bad = recs[r["bad_index"] - 1] if r["bad_index"] and r["bad_index"] > 0 else None
        tags = {"kind": "sym"}
        if bad and bad.get("e") == "SymCrash":
            tags = {"kind": "sym_crash", "wide": bad["max"][0] >= 32768}
        if bad is not None:
            bad = {k: (x if not isinstance(x, list) or len(x) < 80 else x[:80] + ["..."]) for k, x in bad.items()}
        v.violation({"what": "symbol-coding observation rejected by Trace_Sym (Level A: lossless / exact consumption / fails cleanly)",
                     "record": bad, "file": obs}, tags=tags)
    elif r["distinct"] < len(recs):
        raise vlib.Infra("Trace_Sym consumed %d of %d" % (r["distinct"], len(recs)))
    kinds = {}
    for x in recs:
        key = x["e"] + ("/" + x["dist"] if "dist" in x else "")
        kinds[key] = kinds.get(key, 0) + 1
    v.cov["record_kinds"] = kinds
    v.cov["rows_replayed"] = len(rows)
    v.cov["traces_validated_against_impl"] = r["distinct"]
    v.cov["evaluations"] = len(recs)
    v.cov["distinct_nontrivial"] = len({json.dumps(x, sort_keys=True)[:300] for x in recs if x["e"] in ("Sym", "RansRow", "SymCrash")})
    v.cov["schemes_seen"] = sorted({x.get("scheme") for x in recs if x["e"] == "Sym"})
    v.cov["rule"] = ("rows: every (table, sequence) of the MC_RansSym domains at precision 4 and 8 replayed through RAnsEncoder/Decoder<2|3>; "
                     "Sym: arrays of length 1..1e5, values to 2^22 (and the 2^23..2^32-1 family), 1..4 components, levels 0..10, forced "
                     "tagged/raw, uniform/skewed/constant/outlier/few-unique/many-unique; distinct_nontrivial = distinct Sym/RansRow records")
    v.cov["drift_rows"] = drift
    for s in [x for x in recs if x["e"] == "Sym"][:2] + [x for x in recs if x["e"] == "RansRow"][:2]:
        v.sample({k: (x if not isinstance(x, list) or len(x) < 40 else x[:40] + ["..."]) for k, x in s.items()})
    v.assumptions += ["frequency normalisation is specified in exact integer arithmetic; the C++ uses double (differences would show as drift, none observed)",
                      "encoder memory for huge symbol values is not bounded by any listed property (DESIGN Appendix B #9)"]
    return v.finish("model_checking")


def replay(v, path):
    case = json.load(open(path))
    print(json.dumps(case, indent=1)[:3000])
    return check(v, case.get("tier", "quick"), case.get("seed", 1))
