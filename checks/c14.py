"""C14 — mesh-building and clean-up utilities never change what the mesh describes.
  drv_c14 runs the real TriangleSoupMeshBuilder, PointCloudBuilder::Finalize(dedup on/off), DeduplicateAttributeValues / DeduplicatePointIds (twice),
  MeshCleanup with all 8 option subsets and MeshStripifier in both output modes on every triangle soup of <= 2 (3) faces over 4 position values
  (float bit patterns incl. -0.0 / 0.0 and two NaN payloads) with per-corner / per-face attribute variants, and on random soups with 1..5 attributes.
  TLC (Trace_MeshOps) evaluates the Level-A relations of module MeshOps on every recorded operation: triangle bag preserved (values and orientation),
  no duplicate values / points after deduplication, idempotence, exactly the documented clean-up removals, strips decode to the same bag.
"""
import json, os, re
import vlib


def check(v, tier, seed):
    quick = tier == "quick"
    exe = vlib.build_drv("drv_c14")
    wd = vlib.workdir("C14")
    obs = os.path.join(wd, "obs.ndjson")
    rc, out = vlib.run("(%s small %d %d %d && %s random %d %d) > %s" % (exe, 2 if quick else 3, seed, 9 if quick else 301, exe, seed, 150 if quick else 4000, obs), timeout=6000)
    if rc != 0:
        v.violation({"what": "a mesh utility crashed", "rc": rc, "output": out[-1500:]}, tags={"kind": "crash"})
        return v.finish("model_checking")
    stats = [tuple(map(int, m)) for m in re.findall(r"STATS cases=(\d+) emitted=(\d+)", out)]
    recs = vlib.read_ndjson(obs)
    tr = vlib.trace_validate("Trace_MeshOps", obs, nshards=8, timeout=6000)
    vlib.tlc_ok(tr, "Trace_MeshOps")
    if tr["violated"]:
        bad = recs[tr["bad_index"] - 1] if tr["bad_index"] and tr["bad_index"] > 0 else None
        s = json.dumps(bad)
        v.violation({"what": "a mesh utility changed what the mesh describes (Level A of MeshOps: %s)" % (bad.get("e") if bad else "?"), "record": bad if len(s) < 5000 else s[:5000]},
                    tags={"kind": bad.get("e") if bad else "?"})
    elif tr["distinct"] < len(recs):
        raise vlib.Infra("Trace_MeshOps consumed %d of %d" % (tr["distinct"], len(recs)))
    kinds = {}
    for r in recs:
        kinds[r["e"]] = kinds.get(r["e"], 0) + 1
    v.cov["record_kinds"] = kinds
    v.cov["soups_run"] = sum(s[0] for s in stats)
    v.cov["evaluations"] = len(recs)
    v.cov["states"] = tr["distinct"]
    v.cov["transitions"] = tr["generated"]
    v.cov["traces_validated_against_impl"] = tr["distinct"]
    v.cov["distinct_nontrivial"] = len({json.dumps(r["in"], sort_keys=True) for r in recs if r["e"] == "Build"})
    v.cov["rule"] = "every soup of the small domain is executed, a seeded 1/9 (1/301) of them and all random soups are recorded and validated; distinct_nontrivial = distinct soups recorded"
    for s in [r for r in recs if r["e"] == "Cleanup"][:1] + [r for r in recs if r["e"] == "Strips"][:1]:
        v.sample(s if len(json.dumps(s)) < 2500 else {"e": s["e"], "case": s["case"]})
    v.assumptions += ["duplicate detection among faces that repeat a point id is sandwiched, not pinned (DESIGN §7 observation O2)"]
    return v.finish("model_checking")


def replay(v, path):
    print(open(path).read()[:3000])
    case = json.load(open(path))
    return check(v, case.get("tier", "quick"), case.get("seed", 1))
