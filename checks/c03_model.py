"""C03 side of the model-generated streams (see c02_model): whatever the decoder accepts from an MC_EbDecoder row must be StructValid."""
import c02_model


def run(v, tier, seed, wd):
    return c02_model.run(v, tier, seed, wd, prop="C03")
