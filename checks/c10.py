"""C10 — see DESIGN.md §6 C10.  Round-trip campaigns of drv_rt (random geometries x option sets, big geometries, every small
canonical mesh x seam masks x option rows), every RT record validated by TLC with Trace_Geom (Prop = C10)."""
import json, os
import vlib, rtcommon

WHAT = "skip-transform decode does not reproduce the normal decode (Level A: uid kept, described transform reproduces values, rest untouched)"
EXTRA = ('skip',)


def check(v, tier, seed):
    exe = vlib.build_drv("drv_rt")
    wd = vlib.workdir("C10")
    stats, recs_by, total = [], {}, 0
    pre = getattr(__import__("c10_model"), "run", None) if os.path.exists(os.path.join(os.path.dirname(__file__), "c10_model.py")) else None
    if pre:
        pre(v, tier, seed, wd)
    # the frozen streams of corpus/ (this bitstream version and every earlier one), each decoded ordinarily, with every float-carrying type skipped,
    # and with each such type skipped alone
    streams = [("streams", "streams %s" % os.path.join(vlib.ROOT, "corpus")), ("streams_big", "streams %s" % os.path.join(vlib.ROOT, "corpus_big"))]
    for name, args in rtcommon.campaigns(tier, seed) + streams:
        f, st, err = rtcommon.run_campaign(v, exe, name, args, wd)
        if err:
            v.violation({"what": "codec crashed during the %s campaign" % name, "rc": err[0], "output": err[1][-1500:]}, tags={"kind": "crash"})
            continue
        stats.append(st)
        recs, n = rtcommon.validate(v, "C10", f, WHAT, extra=EXTRA)
        recs_by[name] = recs
        total += n
    rtcommon.cover(v, recs_by, stats, total)
    v.cov["rule"] = ("random geometries (meshes: grids, shared-edge fans, soups with degenerate / duplicated / flipped faces; point clouds; 1-4 attributes "
                     "of every type and data type, identity and explicit point->value maps) x random option sets (method, sub-method, speeds 0..10, "
                     "quantisation bits, forced prediction scheme, built-in entropy coding on/off, split-on-seams, Encoder / ExpertEncoder); big "
                     "geometries; every canonical mesh of <=2 (thorough: 3) faces over 5 position ids x seam masks x 5 option rows. "
                     "distinct_nontrivial = distinct (geometry type, method, options, stream size) combinations that encoded successfully")
    if not v.cov.get("states"):
        v.cov["states"] = max(1, total)
        v.cov["transitions"] = max(1, total)
    return v.finish("model_checking")


def replay(v, path):
    print(open(path).read()[:3000])
    case = json.load(open(path))
    return check(v, case.get("tier", "quick"), case.get("seed", 1))
