"""C02 — decoding arbitrary bytes is memory-safe, UB-free and returns a Status.
  Fault enumeration over the frozen corpus (355 streams of every method and version 1.1..2.3): every truncation, single-byte / 32-bit / varint
  patterns at every (quick: sampled beyond the first 40 bytes) offset, header / version / method rewrites, random multi-site corruption, splices;
  every faulted buffer decoded through GetEncodedGeometryType, DecodeMeshFromBuffer / DecodePointCloudFromBuffer (with and without skipped
  transforms), DecodeBufferToGeometry and KeyframeAnimationDecoder in the ASan+UBSan build (exact-size heap copy of the input); a fork server
  attributes every crash / report / hang to one probe.  TLC (Trace_Fault, Prop = C02) checks: no abnormal exit other than an allocation
  failure, no hang, input bytes untouched.  The semantic (symbol-level) faults come from the TLC-enumerated Edgebreaker streams (MC_EbDecoder).
"""
import json, os
import vlib, faultcommon


def check(v, tier, seed):
    wd = vlib.workdir("C02")
    pre = None
    try:
        import c02_model
        pre = c02_model.run
    except ImportError:
        pass
    if pre:
        pre(v, tier, seed, wd)
    merged, probes = faultcommon.sweep(v, "asan", tier, seed, wd)
    recs, n = faultcommon.validate(v, "C02", merged, "decoding a corrupted stream crashed, tripped a sanitizer, hung, threw, or modified the caller's input")
    batches = [x for x in recs if x["e"] == "Batch"]
    ab = [x for x in recs if x["e"] == "Abnormal"]
    v.cov["evaluations"] = v.cov.get("evaluations", 0) + probes
    v.cov["distinct_nontrivial"] = sum(b["faults"] for b in batches)
    v.cov["decoded_ok"] = sum(b["ok"] for b in batches)
    v.cov["rejected"] = sum(b["rejected"] for b in batches)
    v.cov["tolerated_allocation_failures"] = len([x for x in ab if x["oom"]]) + sum(b["bad_alloc"] for b in batches)
    v.cov["streams"] = len(batches)
    v.cov["traces_validated_against_impl"] += n
    v.cov["rule"] = ("one probe = one faulted copy of a corpus stream decoded through the public entry points under ASan+UBSan; distinct_nontrivial = number of "
                     "distinct (stream, fault) pairs; only interesting probes (ok decodes sampled, abnormal exits, modified inputs) are written out and validated "
                     "individually, every batch summary is validated")
    for s in ab[:2] + batches[:1]:
        v.sample(s)
    v.assumptions += ["memory safety and UB are decided by ASan/UBSan compiled into the harness; TLC decides which faults are enumerated (model part) and the "
                      "Status / termination / input-untouched clauses", "shipped configuration: NDEBUG (DRACO_DCHECK compiled out)"]
    return v.finish("fault_enumeration")


def replay(v, path):
    print(open(path).read()[:3000])
    case = json.load(open(path))
    return check(v, case.get("tier", "quick"), case.get("seed", 1))
