"""C13 — the corner table built from any triangle list is a consistent manifold structure.

  1. TLC MC_CornerTable: every canonical triangle list of <=3 faces over 5 ids (quick; 18 209 lists) / all
     2 079 475 four-face lists (thorough): three-phase transcription => CornerTableOK, phase 2 terminates.
     Quick emits one row per list with every field of the transcription's result.
  2. drv_c13: replays every row through the real CornerTable::Create and compares every field (no hook: public
     accessors); enumerates all canonical 4-face lists natively; random larger lists biased to non-manifold
     edges, bow-ties, repeated / mirrored / degenerate faces.
  3. TLC Trace_CornerTable: CornerTableOK on every differing row, a sample of the agreeing ones, a seeded sample of
     the 4-face lists and every random list (Level A, verdict); agreement with the transcription as drift.
"""
import json, os, re
import vlib


def check(v, tier, seed):
    quick = tier == "quick"
    exe = vlib.build_drv("drv_c13")
    wd = vlib.workdir("C13")
    mc = os.path.join(vlib.SPEC, "mc")
    r = vlib.tlc("MC_CornerTable", cfg="MC_CornerTable_quick.cfg", specdir=mc, coverage=False, xmx="24g")
    vlib.tlc_ok(r, "MC_CornerTable quick")
    v.add_tlc("MC_CornerTable(NF<=3,NV=5)", r)
    if r["violated"]:
        v.cov["parts"]["MC_CornerTable(NF<=3,NV=5)"]["model_violation"] = r["violated"]
        vlib.log("MC_CornerTable: model violates %s" % r["violated"])
    rows = vlib.tlc_prints(r["out"])
    if not quick:
        r4 = vlib.tlc("MC_CornerTable", cfg="MC_CornerTable_thorough.cfg", specdir=mc, xmx="40g", timeout=3000)
        vlib.tlc_ok(r4, "MC_CornerTable thorough")
        v.add_tlc("MC_CornerTable(NF=4,NV=5)", r4)
        if r4["violated"]:
            v.cov["parts"]["MC_CornerTable(NF=4,NV=5)"]["model_violation"] = r4["violated"]
    rowf = os.path.join(wd, "rows.ndjson")
    vlib.write_ndjson(rowf, rows)
    obs = os.path.join(wd, "obs.ndjson")
    cmd = "(%s replay %s %d && %s enum4 %d %d && %s random %d %d 30 && %s random %d %d 400 && %s dense %d %d) > %s" % (
        exe, rowf, 8 if quick else 1, exe, seed, 4000 if quick else 60000, exe, seed, 500 if quick else 20000,
        exe, seed + 1, 40 if quick else 400, exe, seed + 2, 6000 if quick else 100000, obs)
    rc, out = vlib.run("ulimit -t 150; " + cmd, timeout=3000)
    if rc != 0:
        v.violation({"what": "CornerTable::Create crashed or exceeded its time budget", "rc": rc, "output": out[-1500:]}, tags={"kind": "crash"})
        return v.finish("model_checking")
    stats = [tuple(map(int, m)) for m in re.findall(r"STATS run=(\d+) emitted=(\d+) diff=(\d+)", out)]
    recs = vlib.read_ndjson(obs)
    tr = vlib.trace_validate("Trace_CornerTable", obs, nshards=4, timeout=3000)
    vlib.tlc_ok(tr, "Trace_CornerTable")
    drift = len([l for l in tr["out"].splitlines() if "DRIFT" in l])
    v.cov["parts"]["Trace_CornerTable"] = {"records": len(recs), "validated": tr["distinct"], "drift": drift, "wall_s": round(tr["wall"], 1)}
    if tr["violated"]:
        bad = recs[tr["bad_index"] - 1] if tr["bad_index"] and tr["bad_index"] > 0 else None
        v.violation({"what": "corner table produced by CornerTable::Create violates CornerTableOK (Level A)", "record": bad, "file": obs},
                    tags={"kind": "ct"})
    elif tr["distinct"] < len(recs):
        raise vlib.Infra("Trace_CornerTable consumed %d of %d" % (tr["distinct"], len(recs)))
    slow = [x for x in recs if x.get("ms", 0) > 5000]
    if slow:
        v.violation({"what": "CornerTable::Create took more than 5 s", "record": slow[0]}, tags={"kind": "hang"})
    nonmanifold = 0
    for x in recs:
        if x.get("par"):
            nonmanifold += 1
    v.cov["rows_replayed"] = len(rows)
    v.cov["rows_agreeing"] = len(rows) - (stats[0][2] if stats else 0)
    v.cov["drift_rows"] = (stats[0][2] if stats else 0) + drift
    v.cov["lists_run_natively"] = sum(s[0] for s in stats)
    v.cov["traces_validated_against_impl"] = tr["distinct"]
    v.cov["evaluations"] = sum(s[0] for s in stats)
    v.cov["distinct_nontrivial"] = nonmanifold
    v.cov["rule"] = ("all canonical lists of <=3 faces over 5 ids replayed field by field; all 2 079 475 canonical 4-face lists run natively "
                     "with a seeded sample validated; random lists to 400 faces. distinct_nontrivial = validated observations in which at "
                     "least one non-manifold vertex was split (non-empty parent list)")
    for s in [x for x in recs if x.get("par")][:2] + recs[:1]:
        v.sample({k: s[k] for k in ("f", "opp", "ctv", "vc", "par", "iso", "deg")})
    v.assumptions += ["rows on which code and transcription agree in every field inherit TLC's verdict on the transcription (DESIGN §3.3); "
                      "a 1/8 sample of them is re-validated against Level A anyway"]
    return v.finish("model_checking")


def replay(v, path):
    case = json.load(open(path))
    print(json.dumps(case, indent=1)[:3000])
    return check(v, case.get("tier", "quick"), case.get("seed", 1))
