"""C09 — reported encoded point/face counts equal what the decoder produces.

  drv_rt encodes random meshes / point clouds (Encoder and ExpertEncoder, every method and option set) and every small
  canonical mesh x seam masks with SetTrackEncodedProperties(true); TLC (Trace_Geom, Prop = C09) checks
  CountsAgree on every record.  A second campaign keeps duplicate points in the input (finding F10's input class)
  and is validated separately so that it cannot hide anything else.
"""
import json, os
import vlib, rtcommon


def tagger(r):
    # input class of finding F20 / F20b (the stream does not decode at all)
    if r.get("e") == "RT" and r.get("gt") == "mesh" and r.get("m") == "seq" and r.get("cc") and r.get("short3") and r.get("eok") and not r.get("dok"):
        return {"input": "compress_connectivity", "stream": "fewer_than_3_bytes_per_face", "method": "sequential"}
    if r.get("e") == "RT" and r.get("dup_points") and r.get("gt") == "mesh" and r.get("m") == "eb" and r.get("rp", 0) > r.get("dp", 0):
        return {"input": "duplicate_points", "method": "edgebreaker", "direction": "reported>decoded"}
    return None


def check(v, tier, seed):
    exe = vlib.build_drv("drv_rt")
    wd = vlib.workdir("C09")
    stats, recs_by, total = [], {}, 0
    camps = rtcommon.campaigns(tier, seed) + [("nodedup", "random %d %d nodedup" % (seed + 7, 600 if tier == "quick" else 8000))]
    for name, args in camps:
        f, st, err = rtcommon.run_campaign(v, exe, name, args, wd)
        if err:
            v.violation({"what": "codec crashed during the %s campaign" % name, "rc": err[0], "output": err[1][-1500:]}, tags={"kind": "crash"})
            continue
        stats.append(st)
        recs, n = rtcommon.validate(v, "C09", f, "reported encoded counts differ from the decoded geometry (Level A: CountsAgree)", tagger=tagger)
        recs_by[name] = recs
        total += n
    rtcommon.cover(v, recs_by, stats, total)
    v.cov["rule"] = ("random geometries x random option sets (Encoder and ExpertEncoder), big geometries, every canonical mesh of <=2 (3) faces over 5 "
                     "position ids x seam masks x 5 option rows; a campaign with duplicate points validated separately. distinct_nontrivial = "
                     "distinct (geometry type, method, options, stream size) combinations that encoded successfully")
    return v.finish("model_checking", extra={"states": max(1, total), "transitions": max(1, total)})


def replay(v, path):
    print(open(path).read()[:3000])
    case = json.load(open(path))
    return check(v, case.get("tier", "quick"), case.get("seed", 1))
