"""C06 — see DESIGN.md §6 C06.  Round-trip campaigns of drv_rt (random geometries x option sets, big geometries, every small
canonical mesh x seam masks x option rows), every RT record validated by TLC with Trace_Geom (Prop = C06)."""
import json, os
import vlib, rtcommon

WHAT = "encoding/decoding is not a deterministic function of its input (Level A: same bytes, same geometry, exact consumption)"
EXTRA = ('h_enc1','h_enc2','h_dec1','h_dec2','h_dec_trail')


def tagger(r):
    # input class of finding F20 / F20c: the exact stream is refused, the same stream followed by other bytes decodes
    if r.get("e") == "RT" and r.get("gt") == "mesh" and r.get("m") == "seq" and r.get("cc") and r.get("short3") and r.get("eok") and not r.get("dok"):
        return {"input": "compress_connectivity", "stream": "fewer_than_3_bytes_per_face", "method": "sequential"}
    return None


def check(v, tier, seed):
    exe = vlib.build_drv("drv_rt")
    wd = vlib.workdir("C06")
    stats, recs_by, total = [], {}, 0
    pre = getattr(__import__("c06_model"), "run", None) if os.path.exists(os.path.join(os.path.dirname(__file__), "c06_model.py")) else None
    if pre:
        pre(v, tier, seed, wd)
    for name, args in rtcommon.campaigns(tier, seed):
        f, st, err = rtcommon.run_campaign(v, exe, name, args, wd)
        if err:
            v.violation({"what": "codec crashed during the %s campaign" % name, "rc": err[0], "output": err[1][-1500:]}, tags={"kind": "crash"})
            continue
        stats.append(st)
        recs, n = rtcommon.validate(v, "C06", f, WHAT, extra=EXTRA, tagger=tagger)
        recs_by[name] = recs
        total += n
    rtcommon.cover(v, recs_by, stats, total)
    v.cov["rule"] = ("random geometries (meshes: grids, shared-edge fans, soups with degenerate / duplicated / flipped faces; point clouds; 1-4 attributes "
                     "of every type and data type, identity and explicit point->value maps) x random option sets (method, sub-method, speeds 0..10, "
                     "quantisation bits, forced prediction scheme, built-in entropy coding on/off, split-on-seams, Encoder / ExpertEncoder); big "
                     "geometries; every canonical mesh of <=2 (thorough: 3) faces over 5 position ids x seam masks x 5 option rows. "
                     "distinct_nontrivial = distinct (geometry type, method, options, stream size) combinations that encoded successfully")
    if not v.cov.get("states"):
        v.cov["states"] = max(1, total)
        v.cov["transitions"] = max(1, total)
    return v.finish("model_checking")


def replay(v, path):
    print(open(path).read()[:3000])
    case = json.load(open(path))
    return check(v, case.get("tier", "quick"), case.get("seed", 1))
