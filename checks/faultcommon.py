"""Shared by C02 / C03 / C18: run drv_fault over the frozen corpus in parallel shards, validate the records with Trace_Fault."""
import concurrent.futures as cf, json, os, re
import vlib


def sweep(v, kind, tier, seed, wd, nshards=16, corpus=None, tag=""):
    """kind: 'asan' (C02/C03: sanitizers, no allocation shim) or 'plain' (C18: allocation shim, DECLARE hooks)."""
    exe = vlib.build_drv("drv_fault", kind)
    level = 0 if tier == "quick" else 2
    corpus = corpus or os.path.join(vlib.ROOT, "corpus")
    files = []

    def one(sh):
        f = os.path.join(wd, "fault_%s%s_%02d.ndjson" % (kind, tag, sh))
        env = dict(vlib.SAN_ENV) if kind == "asan" else {}
        env["VERIF_RECORDS"] = f
        rc, out = vlib.run("%s sweep %s %d %d %d %d > /dev/null" % (exe, corpus, sh, nshards, level, seed), timeout=20000, env=env)
        return sh, f, rc, out
    with cf.ThreadPoolExecutor(max_workers=nshards) as ex:
        res = list(ex.map(one, range(nshards)))
    probes = 0
    for sh, f, rc, out in res:
        m = re.search(r"STATS probes=(\d+) crashes=(\d+) timeouts=(\d+)", out)
        if rc != 0 or not m:
            raise vlib.Infra("drv_fault shard %d rc=%d %s" % (sh, rc, out[-600:]))
        probes += int(m.group(1))
        files.append(f)
    # pinned (stream, fault) pairs of repaired findings: replayed in every tier, whatever the seed samples
    pinned = os.path.join(vlib.ROOT, "checks", "pinned_faults.json")
    if not tag and os.path.exists(pinned):
        f = os.path.join(wd, "fault_%s_pinned.ndjson" % kind)
        open(f, "w").close()
        for p in json.load(open(pinned))["faults"]:
            env = dict(vlib.SAN_ENV) if kind == "asan" else {}
            env["VERIF_RECORDS"] = f
            rc, out = vlib.run("%s one %s '%s' > /dev/null" % (exe, os.path.join(vlib.ROOT, p["stream"]), p["fault"]), timeout=600, env=env)
            if rc != 0:
                # `one` runs the probe in the driver's own process: an abnormal end (sanitizer report, signal, hang) is the observation
                m = re.search(r"(\S+: runtime error: [^\n]*|ERROR: AddressSanitizer[^\n]*)", out)
                fr = re.search(r"#0 \S+ in (draco::[^\n]*)", out)
                rec = {"e": "Abnormal", "oom": False, "report": ((m.group(1) if m else out[-400:]) + (" @ " + fr.group(1) if fr else "")).replace("\n", " "),
                       "stream": os.path.basename(p["stream"]), "fault": p["fault"], "len": os.path.getsize(os.path.join(vlib.ROOT, p["stream"])),
                       "timeout": rc == 124, "signal": -rc if rc < 0 else 0, "exit": rc if rc > 0 else 0}
                with open(f, "a") as o:
                    o.write(json.dumps(rec) + "\n")
            probes += 1
        files.append(f)
    merged = os.path.join(wd, "fault_%s%s.ndjson" % (kind, tag))
    with open(merged, "w") as o:
        for f in files:
            o.write(open(f).read())
    return merged, probes


def validate(v, prop, merged, what):
    recs = vlib.read_ndjson(merged)
    tr = vlib.trace_validate("Trace_Fault", merged, cfg="Trace_Fault_%s.cfg" % prop, nshards=4, timeout=6000)
    vlib.tlc_ok(tr, "Trace_Fault " + prop)
    if tr["violated"]:
        bad = recs[tr["bad_index"] - 1] if tr["bad_index"] and tr["bad_index"] > 0 else None
        tags = {"kind": prop}
        if bad and bad.get("report"):
            m = re.search(r"@ (draco::[A-Za-z0-9_:<>~]+)", bad["report"])
            tags["site"] = m.group(1) if m else ""
        # TLC names the first record it rejects; the other abnormal ends of the same run are listed with it (information only, the verdict is TLC's)
        others = [x for x in recs if x.get("e") == "Abnormal" and not x.get("oom") and x is not bad][:10]
        v.violation({"what": what, "record": bad, "other_abnormal_records_of_this_run": others, "replay": "VERIF_RECORDS=/dev/stdout build/bin-<kind>/drv_fault one corpus/%s '%s'" % (bad.get("stream"), bad.get("fault")) if bad else None},
                    tags=tags)
    elif tr["distinct"] < len(recs):
        raise vlib.Infra("Trace_Fault %s consumed %d of %d" % (prop, tr["distinct"], len(recs)))
    return recs, tr["distinct"]
