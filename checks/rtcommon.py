"""Shared by C01 / C03 / C06 / C09 / C10: run drv_rt campaigns, validate the RT records with Trace_Geom under one property."""
import json, os, re
import vlib

SLIM = ("case", "gt", "shape", "m", "sub", "es", "ds", "builtin", "split", "pred", "qbits", "expert", "eok", "err", "dok", "derr",
        "rp", "rf", "dp", "df", "big", "skip_rest_same", "skip_rest_why", "remaining", "remaining0", "trail", "trailok", "dup_points")


def slim(rec, extra=()):
    d = {k: rec[k] for k in SLIM if k in rec}
    for k in extra:
        if k in rec:
            s = json.dumps(rec[k])
            d[k] = rec[k] if len(s) < 1500 else s[:1500] + "..."
    return d


def campaigns(tier, seed):
    """(name, driver args) per tier."""
    if tier == "quick":
        return [("random", "random %d 2500" % seed), ("big", "random %d 60 big" % (seed + 1)), ("small", "small 2 %d 3" % seed),
                ("fans", "fans %d 2500" % (seed + 2)), ("sizes", "sizes %d" % seed), ("handles", "random %d 1500 handles" % (seed + 5)), ("tables", "tables %d" % seed)]
    return [("random", "random %d 60000" % seed), ("big", "random %d 1500 big" % (seed + 1)), ("small", "small 3 %d 41" % seed),
            ("fans", "fans %d 80000" % (seed + 2)), ("sizes", "sizes %d" % seed), ("handles", "random %d 40000 handles" % (seed + 5)), ("tables", "tables %d" % seed)]


def run_campaign(v, exe, name, args, wd):
    f = os.path.join(wd, name + ".ndjson")
    rc, out = vlib.run("%s %s > %s" % (exe, args, f), timeout=7000, mem_gb=16)
    m = re.search(r"STATS cases=(\d+) emitted=(\d+) encfail=(\d+)", out)
    if rc != 0 or not m:
        return f, None, (rc, out)
    return f, tuple(map(int, m.groups())), None


def _validate_file(v, prop, f, what, tags, extra, nshards):
    recs = vlib.read_ndjson(f)
    if not recs:
        return recs, 0
    tr = vlib.trace_validate("Trace_Geom", f, cfg="Trace_Geom_%s.cfg" % prop, nshards=nshards, timeout=6000)
    vlib.tlc_ok(tr, "Trace_Geom " + prop)
    if tr["violated"]:
        bad = recs[tr["bad_index"] - 1] if tr["bad_index"] and tr["bad_index"] > 0 else None
        v.violation({"what": what, "record": slim(bad, extra) if bad else None, "file": f, "index": tr["bad_index"]}, tags=tags)
    elif tr["distinct"] < len(recs):
        raise vlib.Infra("Trace_Geom %s consumed %d of %d" % (prop, tr["distinct"], len(recs)))
    return recs, tr["distinct"]


def validate(v, prop, f, what, tagger=None, nshards=4, extra=()):
    """Validate every RT record of file f under property `prop`.  `tagger(rec)` may return a tags dict for records that belong
    to an input class named by a known finding: those are validated separately (their rejection is matched against
    known_findings.json by Verdict.violation), so that they can never hide a violation among the other records."""
    recs = vlib.read_ndjson(f)
    if not tagger:
        return _validate_file(v, prop, f, what, {"kind": prop}, extra, nshards)
    groups, normal = {}, []
    for r in recs:
        t = tagger(r)
        if t:
            groups.setdefault(json.dumps(t, sort_keys=True), []).append(r)
        else:
            normal.append(r)
    fn = f + ".normal"
    vlib.write_ndjson(fn, normal)
    _, n = _validate_file(v, prop, fn, what, {"kind": prop}, extra, nshards)
    for i, (tj, rs) in enumerate(sorted(groups.items())):
        fg = f + ".class%d" % i
        vlib.write_ndjson(fg, rs)
        _, k = _validate_file(v, prop, fg, what + " [input class %s]" % tj, json.loads(tj), extra, nshards)
        n += k
    return recs, n


def cover(v, recs_by_campaign, stats, tr_total):
    allrecs = [r for rs in recs_by_campaign.values() for r in rs]
    paths = {}
    for r in allrecs:
        if r.get("e") != "RT":
            continue
        key = "%s/%s/%s" % (r["gt"], r["m"], "ok" if r["eok"] else "refused")
        paths[key] = paths.get(key, 0) + 1
    v.cov["paths"] = paths
    v.cov["cases_run"] = sum(s[0] for s in stats if s)
    v.cov["encoder_refused"] = sum(s[2] for s in stats if s)
    v.cov["evaluations"] = sum(s[0] for s in stats if s)
    v.cov["traces_validated_against_impl"] += tr_total
    v.cov["distinct_nontrivial"] = len({(r["gt"], r["m"], r["sub"], r["es"], r["ds"], r["builtin"], r["split"], r["pred"], json.dumps(r["qbits"]), r.get("shape"), r["bytes"])
                                        for r in allrecs if r.get("e") == "RT" and r["eok"]})
    for r in [x for x in allrecs if x.get("e") == "RT" and x["eok"] and not x["big"]][:2]:
        v.sample(slim(r, ("in", "out")))
