"""C07 — quantised normals decode to unit vectors within a bounded angle.
  1. TLC MC_Oct (q = 2..5): every integer vector with |x|+|y|+|z| = centre maps into the q-bit square, to a canonical point, and
     OctToIntVec inverts it (ToolboxOK); canonicalisation is idempotent.
  2. drv_num c07: normals in direction classes {axes, octahedron edges, face centres, left pole, diamond boundary, random} x length classes
     {1, 1e-4, 1e5, 1e-30, 1e30, 1e-6, 3, zero/denormal} x q = 2..30 x {difference, geometric-normal} prediction x {sequential, Edgebreaker}.
  3. tools/project.py -> Trace_Num: finite, | |n'| - 1 | <= 1e-6, angle <= 3*(2/(2^q-2)) + 2e-6 (also for inputs with L1 norm <= 1e-6,
     checked as a separate clause), octahedral coordinates inside the q-bit square.
"""
import json, os
import vlib, numcommon


def check(v, tier, seed):
    wd = vlib.workdir("C07")
    mc = os.path.join(vlib.SPEC, "mc")
    for q in (2, 3, 4):
        r = vlib.tlc("MC_Oct", cfg="MC_Oct_q%d.cfg" % q, specdir=mc, workers=8)
        vlib.tlc_ok(r, "MC_Oct q=%d" % q)
        v.add_tlc("MC_Oct(q=%d)" % q, r)
        if r["violated"]:
            v.cov["parts"]["MC_Oct(q=%d)" % q]["model_violation"] = r["violated"]
    recs = numcommon.run(v, "c07", seed, 1200 if tier == "quick" else 40000, wd, cfgs=("Trace_Num.cfg", "Trace_Num_tiny.cfg"),
                         what="decoded normal is not a finite unit vector within the angle bound of the original, or its octahedral coordinates leave the q-bit square")
    used = [x for x in recs if x.get("n")]
    v.cov["evaluations"] = sum(x["n"] for x in used)
    v.cov["distinct_nontrivial"] = len({(x["q"], x["m"], x["es"], x["pred"], x["lencls"]) for x in used})
    v.cov["worst_angle_over_bound"] = max([x["worst_angle_u"] / max(1, x["bound_u"]) for x in used] + [0])
    v.cov["worst_len_error_ppb"] = max([x["worst_len_ppb"] for x in used] + [0])
    v.cov["tiny_inputs"] = sum(x["tiny_inputs"] for x in used)
    v.cov["rule"] = "one row = 64 normals of one direction/length class mix; distinct_nontrivial = distinct (q, method, speed, prediction, length class)"
    for s in used[:2]:
        v.sample({k: s[k] for k in s if k != "sample"} | {"worst": s["sample"]})
    v.assumptions += ["float32 arithmetic is observed, not modelled; angles are computed by tools/project.py from exact rational cross / dot products"]
    return v.finish("model_checking")


def replay(v, path):
    print(open(path).read()[:3000])
    case = json.load(open(path))
    return check(v, case.get("tier", "quick"), case.get("seed", 1))
