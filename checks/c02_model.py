"""Semantic faults for C02 / C03: streams generated from the TLA+ models instead of corrupted from existing bytes.
  (1) MC_EbDecoder: TLC enumerates every symbol string up to MaxSyms over {C,S,L,R,E} with declared vertex / face / split-symbol counts on the
      boundaries of the decoder's guards, every single (thorough: every pair of) topology-split event(s) and three start-face bit patterns; the model
      (spec/EbDecoder.tla, a transcription of MeshEdgebreakerDecoderImpl::DecodeConnectivity) predicts reject:<guard> / accept(points, faces) /
      ub:<table indexed with an invalid id> for each.  Invariant Guards: whatever the guards accept is structurally valid.
      drv_fault hostile assembles every row into a real Draco 2.2 stream and decodes it under ASan+UBSan(+libstdc++ assertions).
      MC_SeqDecoder / spec/SeqDecoder.tla: the same for the sequential mesh connectivity decoder (declared points / faces, stored indices in every
      width, compressed index differences).  MC_LegacyKd: the three point counts of a pre-2.3 kd-tree cloud.  MC_KdTree / spec/KdTree.tla: the
      integer kd-tree coder at the level of the requests made to its four bit coders (honest encodings byte-compared with the real encoder, every
      single changed number / half bit / axis number, payload and header counts off by one).
  (2) nested metadata: a chain of D sub-metadata blocks, D around and far above kMaxSubmetadataLevel, in front of corpus geometries.
  Records are validated by Trace_Fault (Level A of C02 or C03; the model's predictions only as drift).
"""
import concurrent.futures as cf, json, os, re
import vlib

MC = os.path.join(vlib.SPEC, "mc")


def rows_for(tier, wd):
    cfg = "MC_EbDecoder_%s.cfg" % tier
    r = vlib.tlc("MC_EbDecoder", cfg=cfg, specdir=MC, workers=16, xmx="24g", timeout=6000)
    vlib.tlc_ok(r, "MC_EbDecoder " + tier)
    if r["violated"]:
        return r, None
    rows = vlib.tlc_prints(r["out"])
    # the sequential mesh connectivity decoder (module SeqDecoder): declared counts x method x index / symbol lists
    r2 = vlib.tlc("MC_SeqDecoder", cfg="MC_SeqDecoder_%s.cfg" % tier, specdir=MC, workers=16, xmx="24g", timeout=6000)
    vlib.tlc_ok(r2, "MC_SeqDecoder " + tier)
    if r2["violated"]:
        return r2, None
    rows += vlib.tlc_prints(r2["out"])
    r["seq"] = r2
    # the kd-tree point cloud path of bitstreams older than 2.3 (module LegacyKd): three point counts around the number of encoded points
    r3 = vlib.tlc("MC_LegacyKd", cfg="MC_LegacyKd.cfg", specdir=MC, workers=4, timeout=600)
    vlib.tlc_ok(r3, "MC_LegacyKd")
    rows += vlib.tlc_prints(r3["out"])
    r["lkd"] = r3
    # the integer kd-tree coder of bitstream 2.3 (module KdTree): design checks (round trip over every small point sequence, stack / axis bounds under
    # every list of served values), then the request-level rows -- honest encodings, every single changed number / half bit / axis number, counts off by one
    kd = []
    kd_cfgs = ["rt22", "safe"] if tier == "quick" else ["rt22", "rt13", "rt31", "rt23", "rt22t4", "safe", "safe_big"]
    for cfg in kd_cfgs:
        g = vlib.tlc("MC_KdTree", cfg="MC_KdTree_%s.cfg" % cfg, specdir=MC, workers=12, timeout=3000)
        vlib.tlc_ok(g, "MC_KdTree " + cfg)
        kd.append((cfg, g))
    r4 = vlib.tlc("MC_KdTree", cfg="MC_KdTree_rows.cfg", specdir=MC, workers=1, timeout=1200)
    vlib.tlc_ok(r4, "MC_KdTree rows")
    rows += vlib.tlc_prints(r4["out"])
    kd.append(("rows", r4))
    # one integer attribute of a sequential cloud (module IntAttr): every header combination x symbol lists x wrap bounds x declared types
    r5 = vlib.tlc("MC_IntAttr", cfg="MC_IntAttr_%s.cfg" % tier, specdir=MC, workers=1, timeout=1200)
    vlib.tlc_ok(r5, "MC_IntAttr")
    rows += vlib.tlc_prints(r5["out"])
    kd.append(("intattr", r5))
    r["kd"] = kd
    f = os.path.join(wd, "eb_rows.ndjson")
    vlib.write_ndjson(f, rows)
    return r, f


def run(v, tier, seed, wd, prop="C02"):
    kind = "asan"
    exe = vlib.build_drv("drv_fault", kind)
    r, rowf = rows_for(tier, wd)
    if rowf is None:
        # the model's own guards accept a structurally invalid connectivity: a design-level counterexample; the replay below cannot run without rows
        v.violation({"what": "MC_EbDecoder / MC_SeqDecoder: the transcribed guards accept a connectivity whose faces name missing vertices (invariant Guards)", "tlc": r["out"][-1500:]},
                    tags={"kind": "model_guards"})
        return
    v.add_tlc("MC_EbDecoder_" + tier, r)
    v.add_tlc("MC_SeqDecoder_" + tier, r["seq"])
    v.add_tlc("MC_LegacyKd", r["lkd"])
    for cfg, g in r["kd"]:
        v.add_tlc(("MC_KdTree_" + cfg) if cfg != "intattr" else "MC_IntAttr", g)
        if g["violated"]:
            v.violation({"what": "MC_KdTree (%s): the transcribed kd-tree coder does not round-trip, or a served value pushes a stack index / axis out of range" % cfg,
                         "tlc": g["out"][-1500:]}, tags={"kind": "model_kdtree"})
    if tier != "quick":
        # deeper design checks of the guards without replay: longer strings, pairs of split events
        for cfg in ("guards6", "guards5p"):
            g = vlib.tlc("MC_EbDecoder", cfg="MC_EbDecoder_%s.cfg" % cfg, specdir=MC, workers=16, xmx="24g", timeout=6000)
            vlib.tlc_ok(g, "MC_EbDecoder " + cfg)
            v.add_tlc("MC_EbDecoder_" + cfg, g)
            if g["violated"]:
                v.violation({"what": "MC_EbDecoder (%s): the transcribed guards accept a connectivity whose faces name missing vertices" % cfg, "tlc": g["out"][-1500:]},
                            tags={"kind": "model_guards"})
    nrows = sum(1 for _ in open(rowf))
    nshards = 16
    files = []

    def one(sh):
        f = os.path.join(wd, "hostile_%02d.ndjson" % sh)
        env = dict(vlib.SAN_ENV)
        env["VERIF_RECORDS"] = f
        rc, out = vlib.run("%s hostile %s %d %d > /dev/null" % (exe, rowf, sh, nshards), timeout=20000, env=env)
        return sh, f, rc, out
    with cf.ThreadPoolExecutor(max_workers=nshards) as ex:
        res = list(ex.map(one, range(nshards)))
    for sh, f, rc, out in res:
        if rc != 0 or "STATS probes=" not in out:
            raise vlib.Infra("drv_fault hostile shard %d rc=%d %s" % (sh, rc, out[-600:]))
        files.append(f)
    # nested metadata in front of a handful of corpus streams (one per kind of geometry)
    corpus = os.path.join(vlib.ROOT, "corpus")
    names = [json.loads(l)["file"] for l in open(os.path.join(corpus, "index.ndjson")) if l.strip()]
    picks = names[:3] + names[100:102] + names[-2:] if tier == "quick" else names[::12]
    for i, n in enumerate(picks):
        f = os.path.join(wd, "nest_%02d.ndjson" % i)
        env = dict(vlib.SAN_ENV)
        env["VERIF_RECORDS"] = f
        rc, out = vlib.run("%s nest %s > /dev/null" % (exe, os.path.join(corpus, n)), timeout=3000, env=env)
        if rc != 0:
            raise vlib.Infra("drv_fault nest rc=%d %s" % (rc, out[-600:]))
        files.append(f)
    merged = os.path.join(wd, "hostile.ndjson")
    with open(merged, "w") as o:
        for f in files:
            o.write(open(f).read())
    recs = vlib.read_ndjson(merged)
    tr = vlib.trace_validate("Trace_Fault", merged, cfg="Trace_Fault_%s.cfg" % prop, nshards=4, timeout=6000)
    vlib.tlc_ok(tr, "Trace_Fault (model-generated streams) " + prop)
    if tr["violated"]:
        bad = recs[tr["bad_index"] - 1] if tr["bad_index"] and tr["bad_index"] > 0 else None
        tags = {"kind": prop, "source": "model"}
        if bad and bad.get("report"):
            m = re.search(r"@ (draco::[A-Za-z0-9_:<>~]+)", bad["report"])
            tags["site"] = m.group(1) if m else ""
        rp = None
        if bad and bad.get("e") == "Abnormal" and str(bad.get("stream", "")).startswith("model:"):
            rp = "VERIF_RECORDS=/dev/stdout build/bin-asan/drv_fault hostile1 '%s'" % bad["fault"]
        elif bad and str(bad.get("fault", "")).startswith("nest:"):
            rp = "VERIF_RECORDS=/dev/stdout build/bin-asan/drv_fault nest %s" % bad["stream"]
        v.violation({"what": "a stream generated from the model (MC_EbDecoder row / nested metadata) crashed the decoder, tripped a sanitizer, hung, or decoded into an invalid geometry",
                     "record": bad, "replay": rp}, tags=tags)
    elif tr["distinct"] < len(recs):
        raise vlib.Infra("Trace_Fault (model) consumed %d of %d" % (tr["distinct"], len(recs)))
    drift = len(re.findall(r"DRIFT", tr["out"]))
    eb = [x for x in recs if x["e"] == "EbProbe"]
    v.cov["model_rows"] = nrows
    v.cov["model_rows_accepted_by_decoder"] = len([x for x in eb if x["ok"]])
    v.cov["model_rows_rejected_by_both"] = sum(x["agree_rej"] for x in recs if x["e"] == "EbBatch")
    v.cov["model_drift"] = drift
    v.cov["nest_probes"] = len([x for x in recs if x["e"] == "Nest"])
    v.cov["evaluations"] = v.cov.get("evaluations", 0) + nrows + v.cov["nest_probes"]
    v.cov["traces_validated_against_impl"] = v.cov.get("traces_validated_against_impl", 0) + tr["distinct"]
    for s in eb[:1]:
        v.sample(s)
