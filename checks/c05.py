"""C05 — existing bitstreams keep decoding to the same geometry, in the same order.
  1. TLC MC_Codec: version predicate and gate table (NothingNewer, CurrentAccepted, Monotone, GatesInRange) over all (type, major, minor).
  2. drv_c05 check: every stream of /verif/corpus_big (69 size-covering streams: int32 clouds with alphabets of 2^1..2^17 symbols, grid meshes) and every stream of the frozen corpus /verif/corpus (330 streams frozen once from the encoder + the 25 legacy files of
     testdata, versions 1.1, 1.2, 2.0, 2.1, 2.2, 2.3) is decoded; drv_c05 versions: header rewrites to every (major, minor) in 0..3 x 0..5.
  3. TLC Trace_Corpus: FrozenOK (same ordered digest, same counts) and VersionVerdictOK on every record.
  The corpus is never written by a check.
"""
import json, os
import vlib


def check(v, tier, seed):
    exe = vlib.build_drv("drv_c05")
    wd = vlib.workdir("C05")
    corpus = os.path.join(vlib.ROOT, "corpus")
    r = vlib.tlc("MC_Codec", cfg="MC_Codec.cfg", specdir=os.path.join(vlib.SPEC, "mc"), workers=2)
    vlib.tlc_ok(r, "MC_Codec")
    v.add_tlc("MC_Codec", r)
    if r["violated"]:
        raise vlib.Infra("MC_Codec violated %s: the specification's own version table is inconsistent" % r["violated"])
    obs = os.path.join(wd, "obs.ndjson")
    big = os.path.join(vlib.ROOT, "corpus_big")     # size-covering streams (large alphabets: every rANS precision class), frozen once
    rc, out = vlib.run("(%s check %s && %s check %s && %s versions %s) > %s" % (exe, corpus, exe, big, exe, corpus, obs), timeout=3000)
    if rc != 0:
        v.violation({"what": "decoder crashed on a frozen stream or a version rewrite", "rc": rc, "output": out[-1500:]}, tags={"kind": "crash"})
        return v.finish("model_checking")
    recs = vlib.read_ndjson(obs)
    tr = vlib.trace_validate("Trace_Corpus", obs, nshards=1)
    vlib.tlc_ok(tr, "Trace_Corpus")
    if tr["violated"]:
        bad = recs[tr["bad_index"] - 1] if tr["bad_index"] and tr["bad_index"] > 0 else None
        v.violation({"what": "frozen stream no longer decodes to its frozen digest, or an unknown version is not refused with UNKNOWN_VERSION", "record": bad}, tags={"kind": "corpus"})
    elif tr["distinct"] < len(recs):
        raise vlib.Infra("Trace_Corpus consumed %d of %d" % (tr["distinct"], len(recs)))
    fro = [x for x in recs if x["e"] == "Frozen"]
    v.cov["evaluations"] = len(recs)
    v.cov["traces_validated_against_impl"] = tr["distinct"]
    v.cov["frozen_streams"] = len(fro)
    v.cov["versions_in_corpus"] = sorted({x["ver"] for x in fro})
    v.cov["version_rewrites"] = len(recs) - len(fro)
    v.cov["distinct_nontrivial"] = len({json.dumps(x["frozen"]) for x in fro})
    v.cov["rule"] = "one record per frozen stream (digest = ordered hash of points, faces, attribute descriptors and per-point values) and per header rewrite; distinct_nontrivial = distinct frozen digests"
    for s in fro[:1] + [x for x in recs if x["e"] == "Ver"][:2]:
        v.sample(s)
    v.assumptions += ["'as it did when it was written' is anchored on digests frozen at the pinned commit (after the fix: commits, none of which changes the decoding of a valid stream); history before that is not observable"]
    return v.finish("model_checking")


def replay(v, path):
    print(open(path).read()[:3000])
    case = json.load(open(path))
    return check(v, case.get("tier", "quick"), case.get("seed", 1))
