"""C12 — explicit quantisation maps equal coordinates to equal decoded values.
  1. TLC MC_Quant: the decoded value is a function of (x, rounding errors, parameters) only and lies within the allowance of a grid point.
  2. drv_num c12: two tiles sharing 16 border points, encoded separately (different point order, method pair from {pc seq, kd-tree,
     mesh Edgebreaker, mesh sequential}, speeds, prediction schemes, Encoder / ExpertEncoder) with the same explicit (origin, range, bits);
     parameters representable in 6 decimals on even scenarios, arbitrary floats on odd ones.
  3. tools/project.py -> Trace_Num: FunDep over all decoded coordinates of a scenario; OnGrid against the CALLER's parameters.
"""
import json, os
import vlib, numcommon


def check(v, tier, seed):
    wd = vlib.workdir("C12")
    mc = os.path.join(vlib.SPEC, "mc")
    r = vlib.tlc("MC_Quant", cfg="MC_Quant.cfg", specdir=mc, workers=4)
    vlib.tlc_ok(r, "MC_Quant")
    v.add_tlc("MC_Quant", r)
    recs = numcommon.run(v, "c12", seed, 160 if tier == "quick" else 6000, wd,
                         what="two encodes with the same explicit quantisation parameters decode a shared coordinate differently, or a decoded value is off the caller's grid")
    used = [x for x in recs if all(x["tiles_ok"])]
    v.cov["evaluations"] = sum(len(x["obs"]) for x in used)
    v.cov["distinct_nontrivial"] = len({(x["q"], tuple(x["methods"]), x["representable"]) for x in used})
    v.cov["scenarios"] = len(used)
    v.cov["worst_grid_offset_in_allowances"] = max([x["worst_grid_u"] / max(1, x["allow_u"]) for x in used] + [0])
    v.cov["rule"] = "one scenario = two tiles (56 points each, 16 shared) encoded separately; distinct_nontrivial = distinct (bits, method pair, representable?)"
    for s in used[:2]:
        v.sample({k: s[k] for k in s if k != "obs"} | {"obs_head": s["obs"][:6]})
    v.assumptions += ["the oracle uses the caller-supplied origin/range (as the statement does), projected with exact rationals"]
    return v.finish("model_checking")


def replay(v, path):
    print(open(path).read()[:3000])
    case = json.load(open(path))
    return check(v, case.get("tier", "quick"), case.get("seed", 1))
