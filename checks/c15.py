"""C15 — writing a geometry to OBJ/PLY/STL and reading it back preserves it.
  drv_c15 rt: random meshes / point clouds (float positions, optional normals, 2-component tex-coords (OBJ), uint8 colours (PLY), explicit
  point->value maps = attribute seams, magnitudes 1e-6..1e6) through {Obj,Ply,Stl}Encoder::EncodeToBuffer -> *Decoder::DecodeFromBuffer.
  Tool flow: files written by the library -> draco_encoder (-qp 0 etc., no quantisation) -> draco_decoder -> compared with the original file.
  TLC (Trace_IO): same attributes, same bag of triangles of per-corner value tuples (same point set for clouds), worst residual within the
  format's bound (OBJ 0.5e-6 + float32 rounding, PLY/STL bit-exact).
"""
import json, os, shutil
import vlib


def check(v, tier, seed):
    quick = tier == "quick"
    exe = vlib.build_drv("drv_c15")
    vlib.build_lib("plain", targets=("draco_static", "draco_encoder", "draco_decoder"))
    enc = os.path.join(vlib.libdir("plain"), "draco_encoder")
    dec = os.path.join(vlib.libdir("plain"), "draco_decoder")
    wd = vlib.workdir("C15")
    obs = os.path.join(wd, "obs.ndjson")
    rc, out = vlib.run("%s rt %d %d > %s" % (exe, seed, 1200 if quick else 30000, obs), timeout=3000)
    if rc != 0:
        v.violation({"what": "an I/O encoder / decoder crashed", "rc": rc, "output": out[-1500:]}, tags={"kind": "crash"})
        return v.finish("model_checking")
    # command-line tools: obj -> drc -> obj and ply -> drc -> ply without quantisation
    td = os.path.join(wd, "tools")
    shutil.rmtree(td, ignore_errors=True)
    os.makedirs(td)
    nfiles = 12 if quick else 50
    vlib.run("%s gen %d %d %s" % (exe, seed, nfiles, td), timeout=600)
    tool_fail = 0
    for i in range(nfiles):
        for fmt in ("obj", "ply"):
            src = os.path.join(td, "m%d.%s" % (i, fmt))
            if not os.path.exists(src):
                continue
            drc = src + ".drc"
            back = src + ".back." + fmt
            for method in (("-cl", "7"), ("-cl", "0")) if i % 2 else (("-cl", "10"),):
                rc1, o1 = vlib.run([enc, "-i", src, "-o", drc, "-qp", "0", "-qt", "0", "-qn", "0", "-qg", "0"] + list(method), timeout=120)
                rc2, o2 = vlib.run([dec, "-i", drc, "-o", back], timeout=120) if rc1 == 0 else (1, "")
                if rc1 != 0 or rc2 != 0:
                    tool_fail += 1
                    with open(obs, "a") as f:
                        f.write(json.dumps({"e": "IO", "fmt": fmt, "label": "tool:%s" % os.path.basename(src), "mesh": True, "ok": False, "err": (o1 + o2)[-300:], "excess_e9": 0,
                                            "in": {"np": 0, "faces": [], "atts": [], "pt": []}, "out": {"np": 0, "faces": [], "atts": [], "pt": []}}) + "\n")
                    continue
                vlib.run("%s cmp %s %s %s tool:%s >> %s" % (exe, fmt, src, back, os.path.basename(src), obs), timeout=120)
    recs = vlib.read_ndjson(obs)
    tr = vlib.trace_validate("Trace_IO", obs, nshards=4, timeout=3000)
    vlib.tlc_ok(tr, "Trace_IO")
    if tr["violated"]:
        bad = recs[tr["bad_index"] - 1] if tr["bad_index"] and tr["bad_index"] > 0 else None
        v.violation({"what": "write -> read through %s changed the geometry (Level A: same attributes, same triangle bag / point set, residual within the format's bound)" % (bad.get("fmt") if bad else "?"),
                     "record": bad}, tags={"kind": "io", "fmt": bad.get("fmt") if bad else "?"})
    elif tr["distinct"] < len(recs):
        raise vlib.Infra("Trace_IO consumed %d of %d" % (tr["distinct"], len(recs)))
    kinds = {}
    for r in recs:
        k = "%s/%s/%s" % (r["fmt"], "mesh" if r["mesh"] else "pc", "tool" if r["label"].startswith("tool") else "api")
        kinds[k] = kinds.get(k, 0) + 1
    v.cov["record_kinds"] = kinds
    v.cov["evaluations"] = len(recs)
    v.cov["states"] = tr["distinct"]
    v.cov["transitions"] = tr["generated"]
    v.cov["traces_validated_against_impl"] = tr["distinct"]
    v.cov["distinct_nontrivial"] = len({json.dumps(r["in"], sort_keys=True) for r in recs})
    v.cov["worst_obj_residual_e9"] = max([r["excess_e9"] for r in recs if r["fmt"] == "obj"] + [0])
    v.cov["rule"] = "one record per write/read round trip; distinct_nontrivial = distinct input geometries"
    for s in recs[:2]:
        v.sample(s)
    v.assumptions += ["text formatting precision is measured, not modelled; value matching with the format's tolerance is done by the driver, the residual is judged by TLC",
                      "distinct values closer than the OBJ text resolution are not generated (they would legitimately merge)"]
    return v.finish("model_checking")


def replay(v, path):
    print(open(path).read()[:3000])
    case = json.load(open(path))
    return check(v, case.get("tier", "quick"), case.get("seed", 1))
