------------------------------- MODULE LegacyKd -------------------------------
(* The kd-tree point cloud path of bitstreams OLDER than 2.3 (KdTreeAttributesDecoder::DecodeDataNeededByPortableTransforms, legacy branch;
   PointCloudKdTreeDecoder::DecodeGeometryData).  No shipped file and no current encoder produces such a stream, the decoder still accepts
   them: the path is reachable by hand-built streams only, which is what this module enumerates.  A stream names the number of points
   three times: hp in the geometry header, op in front of the kd-tree payload (it sizes every attribute), ip inside the payload (it drives
   the kd-tree decoder's loop).  n points are really encoded.
     op # hp                      refused (finding F21: the check was missing; fix 92ffa74)
     otherwise                    accepted with hp points; ip < n leaves the tail of the attribute zero, ip > n makes the kd-tree decoder
                                  produce more points than the attribute holds -- the output iterator must drop them
   Level B (drift).  The verdict is Level A of C02 / C03 / C18 on what the real decoder does with the assembled stream.
   The float ("quantization") method of the same container (FloatPointsTreeDecoder) names the count a fourth time: fp in the float tree's own header, in
   front of the integer kd-tree payload with its ip.
     op # hp, fp # hp             refused (fp: also when the header declares 0 points -- finding F22: 0 doubled as "not set"; fix d52225a)
     ip > fp                      refused by the payload decoder (F22: it used to append ip points to the vector reserved for fp)
     ip # fp                      refused afterwards (the number of decoded points is compared with fp)
     hp = 0 = op = fp             accepted, no points                                                                                     *)
EXTENDS Integers
DecodeQ(n, hp, op, fp, ip, level) ==
  IF hp < 0 THEN [out |-> "rej:negative-points", np |-> 0]
  ELSE IF op # hp THEN [out |-> "rej:count-mismatch", np |-> 0]
  ELSE IF fp # hp THEN [out |-> "rej:float-count-mismatch", np |-> 0]
  ELSE IF level > 6 THEN [out |-> "rej:level", np |-> 0]
  ELSE IF fp = 0 THEN [out |-> "acc", np |-> 0]
  ELSE IF ip > fp THEN [out |-> "rej:payload-count", np |-> 0]
  ELSE IF ip # fp THEN [out |-> "rej:decoded-count", np |-> 0]
  ELSE [out |-> "acc", np |-> hp]
Decode(n, hp, op, ip, level) ==
  IF hp < 0 THEN [out |-> "rej:negative-points", np |-> 0]
  ELSE IF level > 6 THEN [out |-> "rej:level", np |-> 0]
  ELSE IF op # hp THEN [out |-> "rej:count-mismatch", np |-> 0]
  ELSE [out |-> "acc", np |-> hp]
=============================================================================
