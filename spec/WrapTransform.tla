---------------------------- MODULE WrapTransform ----------------------------
(* PredictionSchemeWrap{Encoding,Decoding}Transform over machine words (module Words).
   Anchors: prediction_scheme_wrap_transform_base.h (InitCorrectionBounds, ClampPredictedValue),
            prediction_scheme_wrap_encoding_transform.h (ComputeCorrection),
            prediction_scheme_wrap_decoding_transform.h (ComputeOriginalValue).
   Level B = the operators Enc / Dec (what the code does, step by step).
   Level A = Invertible /\ CorrInRange (what property C16 states).                             *)
EXTENDS Integers, Words

\* InitCorrectionBounds: dif = max - min computed in 64 bits; fails iff dif < 0 or dif >= INT_MAX
BoundsOK(lo, hi) == /\ LeS(lo, hi)
                    /\ ~SubOverflows(hi, lo)            \* dif fits a signed word ...
                    /\ Sub(hi, lo) # MaxW               \* ... and is < INT_MAX
MaxDif(lo, hi) == Add(One, Sub(hi, lo))
MaxCorr(lo, hi) == LET d == MaxDif(lo, hi) h == Shr1(d)
                   IN IF ~IsOdd(d) THEN Sub(h, One) ELSE h
MinCorr(lo, hi) == Neg(Shr1(MaxDif(lo, hi)))
Clamp(p, lo, hi) == IF GtS(p, hi) THEN hi ELSE IF LtS(p, lo) THEN lo ELSE p

\* encoder: corr = orig - clamp(pred) in the word; wrap into [MinCorr, MaxCorr]
Enc(lo, hi, o, p) ==
  LET c == Sub(o, Clamp(p, lo, hi))
  IN IF LtS(c, MinCorr(lo, hi)) THEN Add(c, MaxDif(lo, hi))
     ELSE IF GtS(c, MaxCorr(lo, hi)) THEN Sub(c, MaxDif(lo, hi))
     ELSE c

\* decoder as written at the pinned commit: unsigned add, reinterpret as signed, compare, unwrap
DecAsWritten(lo, hi, p, c) ==
  LET v == Add(Clamp(p, lo, hi), c)
  IN IF GtS(v, hi) THEN Sub(v, MaxDif(lo, hi))
     ELSE IF LtS(v, lo) THEN Add(v, MaxDif(lo, hi))
     ELSE v

\* decoder after the repair (fix F1): the comparison is made on the mathematical (64-bit) sum
DecWide(lo, hi, p, c) ==
  LET cp == Clamp(p, lo, hi)
      v == Add(cp, c)
      ovf == AddOverflows(cp, c)
      above == IF ovf THEN ~IsNeg(cp) ELSE GtS(v, hi)     \* true sum > hi
      below == IF ovf THEN IsNeg(cp) ELSE LtS(v, lo)      \* true sum < lo
  IN IF above THEN Sub(v, MaxDif(lo, hi))
     ELSE IF below THEN Add(v, MaxDif(lo, hi))
     ELSE v

\* ---------------- Level A ----------------
CorrInRange(lo, hi, c) == LeS(MinCorr(lo, hi), c) /\ LeS(c, MaxCorr(lo, hi))
Invertible(lo, hi, o, d) == d = o
=============================================================================
