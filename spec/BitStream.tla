------------------------------ MODULE BitStream ------------------------------
(* EncoderBuffer / DecoderBuffer as state machines (Level B), and varint / zig-zag coding on digit lists.
   Anchors: core/encoder_buffer.{h,cc}, core/decoder_buffer.{h,cc}, core/varint_encoding.h,
            core/varint_decoding.h, core/bit_utils.h.
   Values wider than TLC's 32-bit integers are lists of base-128 digits (least significant first).
   Deliberate oddities of the code are modelled as they are:
     - EncoderBuffer::Encode fails in bit mode; DecoderBuffer::Decode does NOT test the mode;
     - the bit reader returns 0 past the end WITHOUT advancing;
     - EndBitDecoding advances by the bits actually read, not by the stored size;
     - DecodeVarint accepts over-long encodings up to a depth limit and shifts high bits out.      *)
EXTENDS Integers, Sequences
SizeField == 8                     \* sizeof(uint64_t) reserved in front of a sized bit sequence
Byte == 0..255
Zeros(n) == [j \in 1..n |-> 0]
CeilDiv8(n) == (n + 7) \div 8

\* ---------------------------------------------------------------- varints on digit lists
RECURSIVE DigitsOf(_)
DigitsOf(v) == IF v < 128 THEN <<v>> ELSE <<v % 128>> \o DigitsOf(v \div 128)     \* for values that fit TLC ints
Canonical(d) == Len(d) >= 1 /\ (Len(d) = 1 \/ d[Len(d)] # 0) /\ \A j \in 1..Len(d) : d[j] \in 0..127
EncDigits(d) == [j \in 1..Len(d) |-> d[j] + (IF j < Len(d) THEN 128 ELSE 0)]     \* EncodeVarint, unsigned
MaxDepth(widthBytes) == widthBytes + 1 + (widthBytes \div 8)
\* DecodeVarintUnsigned: returns [ok, digits, pos]; the digits are those read (the C++ assembles them MSB first
\* with <<= 7, so digits beyond the type width are shifted out: see Truncate)
RECURSIVE DecDigits(_, _, _, _)
DecDigits(data, pos, depth, maxDepth) ==
  IF depth > maxDepth THEN [ok |-> FALSE, digits |-> <<>>, pos |-> pos]
  ELSE IF pos + 1 > Len(data) THEN [ok |-> FALSE, digits |-> <<>>, pos |-> pos]
  ELSE LET in == data[pos + 1] IN
       IF in >= 128 THEN
            LET r == DecDigits(data, pos + 1, depth + 1, maxDepth) IN
            IF r.ok THEN [ok |-> TRUE, digits |-> <<in - 128>> \o r.digits, pos |-> r.pos] ELSE r
       ELSE [ok |-> TRUE, digits |-> <<in>>, pos |-> pos + 1]
\* value bits that survive in a type of `bits` bits: digit j contributes bits 7(j-1) .. 7j-1
TruncDigit(dj, j, bits) == LET lowbit == 7 * (j - 1) IN
   IF lowbit >= bits THEN 0 ELSE IF lowbit + 7 <= bits THEN dj ELSE dj % (2^(bits - lowbit))
Truncate(d, bits) == [j \in 1..Len(d) |-> TruncDigit(d[j], j, bits)]
\* numeric equality of digit lists (ignoring leading zero digits at the high end)
RECURSIVE StripHigh(_)
StripHigh(d) == IF Len(d) > 1 /\ d[Len(d)] = 0 THEN StripHigh(SubSeq(d, 1, Len(d) - 1)) ELSE d
SameValue(d1, d2) == StripHigh(d1) = StripHigh(d2)

\* ---------------------------------------------------------------- zig-zag on bit lists (ConvertSignedIntToSymbol)
\* a W-bit two's-complement pattern as bits, least significant first
BitsOfDigits(d, W) == [j \in 1..W |-> LET dj == ((j - 1) \div 7) + 1 IN
                                       IF dj > Len(d) THEN 0 ELSE (d[dj] \div (2^((j - 1) % 7))) % 2]
DigitsOfBits(b) == LET n == (Len(b) + 6) \div 7
                       bit(j) == IF j <= Len(b) THEN b[j] ELSE 0
                   IN StripHigh([g \in 1..n |-> bit(7*g-6) + 2*bit(7*g-5) + 4*bit(7*g-4) + 8*bit(7*g-3)
                                                  + 16*bit(7*g-2) + 32*bit(7*g-1) + 64*bit(7*g)])
\* val >= 0: val << 1;  val < 0: ((-(val+1)) << 1) | 1, and -(val+1) is the bitwise complement of val
ZigZagBits(b) == LET W == Len(b) IN
   IF b[W] = 0 THEN <<0>> \o SubSeq(b, 1, W - 1)
   ELSE <<1>> \o [j \in 1..(W - 1) |-> 1 - b[j]]
UnZigZagBits(s) == LET W == Len(s) IN
   IF s[1] = 0 THEN SubSeq(s, 2, W) \o <<0>>
   ELSE [j \in 1..(W - 1) |-> 1 - s[j + 1]] \o <<1>>
SymbolDigits(d, widthBytes, signed) == IF signed THEN DigitsOfBits(ZigZagBits(BitsOfDigits(d, 8 * widthBytes))) ELSE StripHigh(d)

\* ---------------------------------------------------------------- writer (EncoderBuffer)
WInit == [bytes |-> <<>>, res |-> 0, store |-> FALSE, start |-> 0, bits |-> 0]
WActive(w) == w.res > 0
WEncode(w, bs) == IF WActive(w) THEN [ok |-> FALSE, w |-> w]
                  ELSE [ok |-> TRUE, w |-> [w EXCEPT !.bytes = @ \o bs]]
WVarint(w, digits) == WEncode(w, EncDigits(digits))          \* the first Encode call fails => nothing written
WStartBits(w, n, store) ==
  IF WActive(w) \/ n <= 0 THEN [ok |-> FALSE, w |-> w]
  ELSE LET rb == CeilDiv8(n)
           st == Len(w.bytes) + (IF store THEN SizeField ELSE 0)
       IN [ok |-> TRUE, w |-> [bytes |-> w.bytes \o Zeros((IF store THEN SizeField ELSE 0) + rb),
                                res |-> rb, store |-> store, start |-> st, bits |-> 0]]
\* PutBit: clear then set bit (off % 8) of byte start + off \div 8
SetBit(b, sh, v) == LET cleared == b - ((b \div (2^sh)) % 2) * (2^sh) IN cleared + v * (2^sh)
\* bit values are sequences of bits, least significant first (so that 32-bit wide puts fit TLC)
RECURSIVE PutBitsR(_, _, _, _)
PutBitsR(bytes, start, off, bs) ==
  IF bs = <<>> THEN bytes
  ELSE LET idx == start + (off \div 8) + 1
       IN PutBitsR([bytes EXCEPT ![idx] = SetBit(@, off % 8, Head(bs))], start, off + 1, Tail(bs))
\* precondition (caller's contract, DCHECKed in the code): w.bits + Len(bs) <= 8 * reserved bytes
WPutBits(w, bs) ==
  IF ~WActive(w) THEN [ok |-> FALSE, w |-> w]
  ELSE [ok |-> TRUE, w |-> [w EXCEPT !.bytes = PutBitsR(w.bytes, w.start, w.bits, bs), !.bits = @ + Len(bs)]]
WEndBits(w) ==
  IF ~WActive(w) THEN w
  ELSE LET eb == CeilDiv8(w.bits)
           payload == SubSeq(w.bytes, w.start + 1, w.start + eb)
       IN IF w.store THEN
             LET sz == EncDigits(DigitsOf(eb))
                 res2 == w.res + SizeField - Len(sz)
                 \* memmove payload behind the varint, then resize(size - res2 + eb)
                 moved == SubSeq(w.bytes, 1, w.start - SizeField) \o sz \o payload
             IN [w EXCEPT !.bytes = moved, !.res = 0]
          ELSE [w EXCEPT !.bytes = SubSeq(w.bytes, 1, w.start) \o payload, !.res = 0]

\* ---------------------------------------------------------------- reader (DecoderBuffer)
RInit(data, version) == [data |-> data, pos |-> 0, bitmode |-> FALSE, base |-> 0, bits |-> 0, ver |-> version]
RDecode(r, n) == IF Len(r.data) < r.pos + n THEN [ok |-> FALSE, bytes |-> <<>>, r |-> r]
                 ELSE [ok |-> TRUE, bytes |-> SubSeq(r.data, r.pos + 1, r.pos + n), r |-> [r EXCEPT !.pos = @ + n]]
RVarint(r, widthBytes) ==
  LET d == DecDigits(r.data, r.pos, 1, MaxDepth(widthBytes))
  IN IF d.ok THEN [ok |-> TRUE, digits |-> Truncate(d.digits, 8 * widthBytes), r |-> [r EXCEPT !.pos = d.pos]]
     ELSE [ok |-> FALSE, digits |-> <<>>, r |-> [r EXCEPT !.pos = d.pos]]
\* version is (major*256 + minor); sized sequences store u64 before 2.2 and a varint from 2.2 on
Ver22 == 2 * 256 + 2
RStartBits(r, sized) ==
  LET hdr == IF ~sized THEN [ok |-> TRUE, r |-> r]
             ELSE IF r.ver < Ver22 THEN LET x == RDecode(r, 8) IN [ok |-> x.ok, r |-> x.r]
             ELSE LET x == RVarint(r, 8) IN [ok |-> x.ok, r |-> x.r]
  IN IF ~hdr.ok THEN [ok |-> FALSE, r |-> hdr.r]
     ELSE [ok |-> TRUE, r |-> [hdr.r EXCEPT !.bitmode = TRUE, !.base = hdr.r.pos, !.bits = 0]]
\* GetBit: 0 past the end, and then the offset does not advance
RECURSIVE GetBitsR(_, _, _, _)
GetBitsR(r, k, j, acc) ==
  IF j = k THEN [v |-> acc, r |-> r]
  ELSE LET byteIdx == r.base + (r.bits \div 8)
       IN IF byteIdx < Len(r.data)
          THEN LET bit == (r.data[byteIdx + 1] \div (2^(r.bits % 8))) % 2
               IN GetBitsR([r EXCEPT !.bits = @ + 1], k, j + 1, Append(acc, bit))
          ELSE GetBitsR(r, k, j + 1, Append(acc, 0))
RGetBits(r, k) == IF ~r.bitmode \/ k > 32 THEN [ok |-> FALSE, v |-> <<>>, r |-> r]
                  ELSE LET g == GetBitsR(r, k, 0, <<>>) IN [ok |-> TRUE, v |-> g.v, r |-> g.r]
\* bits (LSB first) of a 32-bit word given as limbs <<hi16, lo16>>
BitsOfLimbs(w, k) == [j \in 1..k |-> IF j <= 16 THEN (w[2] \div (2^(j-1))) % 2 ELSE (w[1] \div (2^(j-17))) % 2]
REndBits(r) == [r EXCEPT !.bitmode = FALSE, !.pos = @ + CeilDiv8(r.bits)]
=============================================================================
