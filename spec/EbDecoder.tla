------------------------------ MODULE EbDecoder ------------------------------
(* The Edgebreaker connectivity DECODER on ARBITRARY input: any symbol string, any declared counts, any topology-split table, any
   start-face bits -- the semantic fault space of C02 / C03 (a hostile stream is one whose fields are individually well formed and
   jointly meaningless).  Transcription of MeshEdgebreakerDecoderImpl<..>::DecodeConnectivity() / DecodeConnectivity(int) /
   IsTopologySplit / the isolated-vertex compaction (compression/mesh/mesh_edgebreaker_decoder_impl.{h,cc}) for position-only streams
   and the standard traversal.  Every `return -1` / `return false` of the code is a named "rej:<why>"; every place where the code would
   index one of its tables with kInvalidCornerIndex / kInvalidVertexIndex (CornerTable::LeftMostCorner, SetOppositeCorner,
   MakeVertexIsolated, is_vert_hole_[]) is a named "ub:<why>": the model predicts that the real decoder leaves defined behaviour there.

   Level: B (mechanism).  The predictions are compared with the real decoder as DRIFT; the verdict on a stream is Level A of C02 / C03
   evaluated on what the real decoder did (Trace_EbFault).  What the model contributes to the verdict is the SET OF INPUTS: every
   combination inside the bounds of MC_EbDecoder is assembled into a real stream and decoded under ASan/UBSan.                       *)
EXTENDS Integers, Sequences, FiniteSets, TLC
INV == -1
Nx(c) == IF c = INV THEN INV ELSE IF c % 3 = 2 THEN c - 2 ELSE c + 1
Pv(c) == IF c = INV THEN INV ELSE IF c % 3 = 0 THEN c + 2 ELSE c - 1

\* ---------------------------------------------------------------- header guards (DecodeConnectivity(), before any table is built)
\* nv, nf, nsym, nss = declared vertices / faces / symbols / split symbols;  nev = number of topology-split events
Header(nv, nf, nsym, nss, nev) ==
  IF nv > 3 * nf THEN "rej:nv>3nf"
  ELSE IF (nv * (nv - 1)) \div 2 < (3 * nf) \div 2 THEN "rej:edges"
  ELSE IF nf < nsym THEN "rej:nf<nsym"
  ELSE IF nf > nsym + nsym \div 3 THEN "rej:nf>max"
  ELSE IF nss > nsym THEN "rej:nss>nsym"
  ELSE IF nev > nf THEN "rej:nev>nf"
  ELSE "ok"
\* event table as decoded: src_i = sum of deltas (ascending), split_i = src_i - delta2_i with delta2_i <= src_i (else rejected)
EventsOK(ev) == \A i \in 1..Len(ev) : ev[i][2] >= 0 /\ ev[i][2] <= ev[i][1]

\* ---------------------------------------------------------------- decoder state
\* ctv  corner -> vertex (INV = unset)      opp  corner -> opposite corner       vc  vertex -> left-most corner (sequence, grows)
\* stack active corners   faces  faces created   sid  decoder symbol id   act  <<decoder symbol id, corner>> pairs, later entries win
\* nh  vertices known NOT to lie on a hole (is_vert_hole_ = false: reached by C, corners of an interior start face)
\* inval  vertices isolated by S (in order)   ev  remaining events (consumed from the back)   out  "run" | "rej:.." | "ub:.."
D0(nf, ev) == [ctv |-> [c \in 0..(3*nf - 1) |-> INV], opp |-> [c \in 0..(3*nf - 1) |-> INV], vc |-> <<>>, stack |-> <<>>,
               faces |-> 0, sid |-> 0, act |-> <<>>, inval |-> <<>>, ev |-> ev, out |-> "run", nh |-> {}]
Stop(d, w) == [d EXCEPT !.out = w]
Opp(d, c) == IF c = INV THEN INV ELSE d.opp[c]
Vtx(d, c) == IF c = INV THEN INV ELSE d.ctv[c]
SetO(o, a, b) == [o EXCEPT ![a] = b, ![b] = a]
SetLM(vc, v, c) == IF v = INV THEN vc ELSE [vc EXCEPT ![v + 1] = c]          \* CornerTable::SetLeftMostCorner guards kInvalidVertexIndex
Top(d) == d.stack[Len(d.stack)]
SetTop(s, c) == [s EXCEPT ![Len(s)] = c]
HasAct(d, k) == \E i \in 1..Len(d.act) : d.act[i][1] = k
ActOf(d, k) == LET I == {i \in 1..Len(d.act) : d.act[i][1] = k} IN d.act[CHOOSE i \in I : \A j \in I : j <= i][2]

\* IsTopologySplit loop after R / L / E (encId = nsym - sid - 1 of the symbol just decoded)
RECURSIVE SplitLoop(_,_,_)
SplitLoop(d, encId, nsym) ==
  IF d.ev = <<>> THEN d ELSE
  LET e == d.ev[Len(d.ev)] IN
  IF e[1] > encId THEN Stop(d, "rej:split-id")
  ELSE IF e[1] # encId THEN d
  ELSE LET nac == IF e[3] = 1 THEN Nx(Top(d)) ELSE Pv(Top(d)) IN
       SplitLoop([d EXCEPT !.act = Append(@, <<nsym - e[2] - 1, nac>>), !.ev = SubSeq(@, 1, Len(@) - 1)], encId, nsym)

\* the vertex walk of S: every corner reached by SwingLeft from Next(corner_b) is mapped to vertex p
RECURSIVE WalkS(_,_,_,_,_)
WalkS(cn, first, p, m, o) ==
  IF cn = INV THEN [ok |-> TRUE, m |-> m] ELSE
  LET m2 == [m EXCEPT ![cn] = p]
      n1 == Nx(cn)
      nxt == Nx(IF n1 = INV THEN INV ELSE o[n1]) IN
  IF nxt = first THEN [ok |-> FALSE, m |-> m2] ELSE WalkS(nxt, first, p, m2, o)

Adv(d) == [d EXCEPT !.faces = @ + 1, !.sid = @ + 1]
\* one symbol; maxv = declared vertices + declared split symbols (= is_vert_hole_.size())
DecSym(d, s, nsym, maxv) ==
  LET c == 3 * d.faces IN
  IF s = "C" THEN
     IF d.stack = <<>> THEN Stop(d, "rej:C-empty") ELSE
     LET a == Top(d) x == Vtx(d, Nx(a)) IN
     IF x = INV THEN Stop(d, "ub:C-leftmost(invalid vertex)") ELSE
     LET b == Nx(d.vc[x + 1]) IN
     IF a = b THEN Stop(d, "rej:C-a=b") ELSE
     IF Opp(d, a) # INV \/ Opp(d, b) # INV THEN Stop(d, "rej:C-paired") ELSE
     IF b = INV THEN Stop(d, "ub:C-setopposite(invalid corner)") ELSE
     LET vap == Vtx(d, Pv(a)) vbn == Vtx(d, Nx(b)) IN
     IF x = vap \/ x = vbn THEN Stop(d, "rej:C-degenerate") ELSE
     Adv([d EXCEPT !.opp = SetO(SetO(@, a, c + 1), b, c + 2),
                   !.ctv = [@ EXCEPT ![c] = x, ![c + 1] = vbn, ![c + 2] = vap],
                   !.vc = SetLM(@, vap, c + 2),
                   !.nh = @ \cup {x},
                   !.stack = SetTop(@, c)])
  ELSE IF s = "R" \/ s = "L" THEN
     IF d.stack = <<>> THEN Stop(d, "rej:RL-empty") ELSE
     LET a == Top(d) isR == s = "R"
         oc == IF isR THEN c + 2 ELSE c + 1  cl == IF isR THEN c + 1 ELSE c  cr == IF isR THEN c ELSE c + 2
         nvx == Len(d.vc) IN
     IF Opp(d, a) # INV THEN Stop(d, "rej:RL-paired") ELSE
     IF nvx + 1 > maxv THEN Stop(d, "rej:RL-vertices") ELSE
     LET vr == Vtx(d, Pv(a))
         d1 == [d EXCEPT !.opp = SetO(@, oc, a),
                         !.ctv = [@ EXCEPT ![oc] = nvx, ![cr] = vr, ![cl] = Vtx(d, Nx(a))],
                         !.vc = SetLM(Append(@, oc), vr, cr),
                         !.stack = SetTop(@, c)] IN
     Adv(SplitLoop(d1, nsym - d.sid - 1, nsym))
  ELSE IF s = "S" THEN
     IF d.stack = <<>> THEN Stop(d, "rej:S-empty") ELSE
     LET b == Top(d) st0 == SubSeq(d.stack, 1, Len(d.stack) - 1)
         st1 == IF HasAct(d, d.sid) THEN Append(st0, ActOf(d, d.sid)) ELSE st0 IN
     IF st1 = <<>> THEN Stop(d, "rej:S-empty2") ELSE
     LET a == st1[Len(st1)] IN
     IF a = b THEN Stop(d, "rej:S-a=b") ELSE
     IF Opp(d, a) # INV \/ Opp(d, b) # INV THEN Stop(d, "rej:S-paired") ELSE
     LET o2 == SetO(SetO(d.opp, a, c + 2), b, c + 1)
         p == Vtx(d, Pv(a)) vbp == Vtx(d, Pv(b)) cn == Nx(b) n == Vtx(d, cn)
         m1 == [d.ctv EXCEPT ![c] = p, ![c + 1] = Vtx(d, Nx(a)), ![c + 2] = vbp]
         vc1 == SetLM(d.vc, vbp, c + 2) IN
     IF n = INV THEN Stop(d, "ub:S-leftmost(invalid vertex)") ELSE
     LET vc2 == SetLM(vc1, p, vc1[n + 1])
         w == WalkS(cn, cn, p, m1, o2) IN
     IF ~w.ok THEN Stop(d, "rej:S-cycle") ELSE
     Adv([d EXCEPT !.opp = o2, !.ctv = w.m, !.vc = [vc2 EXCEPT ![n + 1] = INV], !.inval = Append(@, n),
                   !.stack = SetTop(st1, c)])
  ELSE \* "E"
     LET nvx == Len(d.vc) IN
     IF nvx + 3 > maxv THEN Stop(d, "rej:E-vertices") ELSE
     LET d1 == [d EXCEPT !.ctv = [@ EXCEPT ![c] = nvx, ![c + 1] = nvx + 1, ![c + 2] = nvx + 2],
                         !.vc = @ \o <<c, c + 1, c + 2>>, !.stack = Append(@, c)] IN
     Adv(SplitLoop(d1, nsym - d.sid - 1, nsym))
RECURSIVE DecSyms(_,_,_,_)
DecSyms(d, rs, nsym, maxv) == IF d.out # "run" \/ rs = <<>> THEN d ELSE DecSyms(DecSym(d, Head(rs), nsym, maxv), Tail(rs), nsym, maxv)

\* start faces: one bit per remaining active corner (popped from the back); bits beyond the given ones read as 0
RECURSIVE StartFaces(_,_,_)
StartFaces(d, bits, nf) ==
  IF d.out # "run" \/ d.stack = <<>> THEN d ELSE
  LET corner == Top(d) st == SubSeq(d.stack, 1, Len(d.stack) - 1)
      bit == IF bits = <<>> THEN 0 ELSE Head(bits)  rest == IF bits = <<>> THEN <<>> ELSE Tail(bits) IN
  IF bit = 0 THEN StartFaces([d EXCEPT !.stack = st], rest, nf) ELSE
  IF d.faces >= nf THEN Stop(d, "rej:F-more-faces") ELSE
  LET vn == Vtx(d, Nx(corner)) IN
  IF vn = INV THEN Stop(d, "ub:F-leftmost(invalid vertex)") ELSE
  LET b == Nx(d.vc[vn + 1]) vx == Vtx(d, Nx(b)) IN
  IF vx = INV THEN Stop(d, "ub:F-leftmost(invalid vertex)") ELSE
  LET cc == Nx(d.vc[vx + 1]) IN
  IF corner = b \/ corner = cc \/ b = cc THEN Stop(d, "rej:F-same-corners") ELSE
  IF Opp(d, corner) # INV \/ Opp(d, b) # INV \/ Opp(d, cc) # INV THEN Stop(d, "rej:F-paired") ELSE
  IF b = INV \/ cc = INV THEN Stop(d, "ub:F-setopposite(invalid corner)") ELSE
  LET vp == Vtx(d, Nx(cc)) k == 3 * d.faces IN
  IF vp = INV THEN Stop(d, "ub:F-is_vert_hole(invalid vertex)") ELSE
  StartFaces([d EXCEPT !.opp = SetO(SetO(SetO(@, k, corner), k + 1, b), k + 2, cc),
                       !.ctv = [@ EXCEPT ![k] = vx, ![k + 1] = vp, ![k + 2] = vn],
                       !.nh = @ \cup {vx, vp, vn},
                       !.faces = @ + 1, !.stack = st], rest, nf)

\* isolated-vertex compaction: the last valid vertex takes the id of every vertex isolated by an S
SwingL(d, c) == Nx(Opp(d, Nx(c)))
SwingR(d, c) == Pv(Opp(d, Pv(c)))
RECURSIVE FanLeft(_,_,_,_), FanRight(_,_,_)
FanRight(d, c, acc) == IF c = INV \/ Len(acc) > 3 * Len(d.vc) + 3 THEN acc ELSE FanRight(d, SwingR(d, c), Append(acc, c))
FanLeft(d, start, c, acc) ==
  LET acc2 == Append(acc, c) nx == SwingL(d, c) IN
  IF nx = INV THEN FanRight(d, SwingR(d, start), acc2)
  ELSE IF nx = start \/ Len(acc2) > 3 * Len(d.vc) + 3 THEN acc2 ELSE FanLeft(d, start, nx, acc2)
VertexCorners(d, v) == LET s == d.vc[v + 1] IN IF s = INV THEN <<>> ELSE FanLeft(d, s, s, <<>>)
RECURSIVE LastValid(_,_)
LastValid(d, nvs) == IF nvs - 1 < 0 THEN [ub |-> TRUE, nvs |-> nvs] ELSE
                     IF d.vc[nvs] = INV THEN LastValid(d, nvs - 1) ELSE [ub |-> FALSE, nvs |-> nvs]
RECURSIVE Compact(_,_,_)
Compact(d, inv, nvs) ==
  IF d.out # "run" \/ inv = <<>> THEN [d |-> d, nvs |-> nvs] ELSE
  LET lv == LastValid(d, nvs) IN
  IF lv.ub THEN [d |-> Stop(d, "ub:compact-leftmost(-1)"), nvs |-> nvs] ELSE
  LET n2 == lv.nvs src == n2 - 1 iv == Head(inv) IN
  IF src < iv THEN Compact(d, Tail(inv), n2) ELSE
  LET cs == VertexCorners(d, src) IN
  IF \E i \in 1..Len(cs) : d.ctv[cs[i]] # src THEN [d |-> Stop(d, "rej:compact-wrong-vertex"), nvs |-> n2] ELSE
  LET m == [c \in DOMAIN d.ctv |-> IF \E i \in 1..Len(cs) : cs[i] = c THEN iv ELSE d.ctv[c]]
      vc1 == [[d.vc EXCEPT ![iv + 1] = d.vc[src + 1]] EXCEPT ![src + 1] = INV] IN
  Compact([d EXCEPT !.ctv = m, !.vc = vc1, !.nh = (IF src \in @ THEN @ \cup {iv} ELSE @ \ {iv}) \cup {src}], Tail(inv), n2 - 1)

\* ---------------------------------------------------------------- the order in which the attribute decoder visits the vertices
\* MeshTraversalSequencer + DepthFirstTraverser (traversal method 0) over the decoded corner table: from corner 3f of every face f in turn, a depth
\* first walk over faces that prefers the right neighbour; a vertex is reported when first met (with the corner it was met at).  The k-th reported
\* vertex receives the k-th attribute value of the stream.  t = [fv, vv, order, stack, err]: visited faces / vertices, reported points, corner stack.
RC(d, c) == Opp(d, Nx(c))                                       \* GetRightCorner
LC(d, c) == Opp(d, Pv(c))                                       \* GetLeftCorner
FaceOf(c) == IF c = INV THEN INV ELSE c \div 3
FVis(t, f) == f = INV \/ f \in t.fv                             \* IsFaceVisited(kInvalidFaceIndex) is true
OnBoundary(d, v) == SwingL(d, d.vc[v + 1]) = INV
Report(d, t, v, c) == IF v \in t.vv THEN t ELSE [t EXCEPT !.vv = @ \cup {v}, !.order = Append(@, d.ctv[c]), !.cor = Append(@, c)]
Pop(st) == SubSeq(st, 1, Len(st) - 1)
RECURSIVE TInner(_, _, _, _, _), TOuter(_, _, _)
TInner(d, t, c, f, fuel) ==
  IF fuel = 0 THEN [t EXCEPT !.err = "ub:traversal-does-not-end"] ELSE
  IF c = INV THEN [t EXCEPT !.err = "ub:traversal-marks-an-invalid-face"] ELSE
  LET t1 == [t EXCEPT !.fv = @ \cup {f}]  v == Vtx(d, c) IN
  IF v = INV THEN [t1 EXCEPT !.err = "rej:traversal-invalid-vertex"] ELSE
  LET newv == v \notin t1.vv
      t2 == Report(d, t1, v, c)
  IN IF newv /\ ~OnBoundary(d, v) THEN TInner(d, t2, RC(d, c), FaceOf(RC(d, c)), fuel - 1)
     ELSE LET rc == RC(d, c)  lc == LC(d, c)  rv == FVis(t2, FaceOf(rc))  lv == FVis(t2, FaceOf(lc)) IN
          IF rv THEN (IF lv THEN [t2 EXCEPT !.stack = Pop(@)] ELSE TInner(d, t2, lc, FaceOf(lc), fuel - 1))
          ELSE IF lv THEN TInner(d, t2, rc, FaceOf(rc), fuel - 1)
          ELSE [t2 EXCEPT !.stack = Append(SetTop(@, lc), rc)]
TOuter(d, t, fuel) ==
  IF t.err # "" \/ t.stack = <<>> THEN t ELSE
  IF fuel = 0 THEN [t EXCEPT !.err = "ub:traversal-does-not-end"] ELSE
  LET c == t.stack[Len(t.stack)] IN
  IF c = INV \/ FVis(t, FaceOf(c)) THEN TOuter(d, [t EXCEPT !.stack = Pop(@)], fuel - 1)
  ELSE TOuter(d, TInner(d, t, c, FaceOf(c), fuel), fuel - 1)
FromCorner(d, t, c0, fuel) ==
  IF t.err # "" \/ FVis(t, FaceOf(c0)) THEN t ELSE
  LET nvx == Vtx(d, Nx(c0))  pvx == Vtx(d, Pv(c0)) IN
  IF nvx = INV \/ pvx = INV THEN [t EXCEPT !.err = "rej:traversal-invalid-vertex"] ELSE
  TOuter(d, [Report(d, Report(d, t, nvx, Nx(c0)), pvx, Pv(c0)) EXCEPT !.stack = <<c0>>], fuel)
RECURSIVE TFaces(_, _, _, _, _)
TFaces(d, t, f, nf, fuel) == IF f = nf THEN t ELSE TFaces(d, FromCorner(d, t, 3 * f, fuel), f + 1, nf, fuel)
Traverse(d, nf) == TFaces(d, [fv |-> {}, vv |-> {}, order |-> <<>>, cor |-> <<>>, stack |-> <<>>, err |-> ""], 0, nf, 6 * nf + 12)
\* value index per point (-1: the point is never reported): what the position attribute of an accepted mesh looks like, point by point
VIdx(order, np) == [p \in 1..np |-> IF \E k \in 1..Len(order) : order[k] = p - 1 THEN (CHOOSE k \in 1..Len(order) : order[k] = p - 1) - 1 ELSE -1]

\* ---------------------------------------------------------------- the prediction-degree traversal (MaxPredictionDegreeTraverser, traversal method 1)
\* Three corner stacks by priority: 0 the tip vertex is already visited, 1 it has been seen from two or more visited faces, 2 from one.  From the
\* current face the walk continues into a neighbour whose priority is not worse than the best one pending, otherwise the neighbour is stacked; all
\* three vertices of the start face are reported up front.  q = [fv, vv, order, cor, st, best, deg, err].
PDPrio(d, q, c) ==
  LET v == Vtx(d, c) IN
  IF v = INV THEN [q |-> [q EXCEPT !.err = "ub:degree-traversal-indexes-with-an-invalid-vertex"], p |-> 0]
  ELSE IF v \in q.vv THEN [q |-> q, p |-> 0]
  ELSE LET dg == q.deg[v + 1] + 1 IN [q |-> [q EXCEPT !.deg[v + 1] = dg], p |-> IF dg > 1 THEN 1 ELSE 2]
PDAdd(q, c, p) == [q EXCEPT !.st[p + 1] = Append(@, c), !.best = IF p < @ THEN p ELSE @]
PDReport(d, q, v, c) == IF v \in q.vv THEN q ELSE [q EXCEPT !.vv = @ \cup {v}, !.order = Append(@, d.ctv[c]), !.cor = Append(@, c)]
RECURSIVE PDPop(_, _)
PDPop(q, i) == IF i > 2 THEN [q |-> q, c |-> INV]
               ELSE IF q.st[i + 1] # <<>> THEN [q |-> [q EXCEPT !.st[i + 1] = Pop(@), !.best = i], c |-> q.st[i + 1][Len(q.st[i + 1])]]
               ELSE PDPop(q, i + 1)
RECURSIVE PDInner(_, _, _, _), PDOuter(_, _, _)
PDInner(d, q, c, fuel) ==
  IF q.err # "" THEN q ELSE
  IF fuel = 0 THEN [q EXCEPT !.err = "ub:traversal-does-not-end"] ELSE
  LET v == Vtx(d, c) IN
  IF v = INV THEN [q EXCEPT !.err = "ub:degree-traversal-indexes-with-an-invalid-vertex"] ELSE
  LET q1 == PDReport(d, [q EXCEPT !.fv = @ \cup {c \div 3}], v, c)
      rc == RC(d, c)  lc == LC(d, c)
      rv == FVis(q1, FaceOf(rc))  lv == FVis(q1, FaceOf(lc))
      a == IF lv THEN [q |-> q1, go |-> INV]
           ELSE LET pr == PDPrio(d, q1, lc) IN
                IF rv /\ pr.p <= pr.q.best THEN [q |-> pr.q, go |-> lc] ELSE [q |-> PDAdd(pr.q, lc, pr.p), go |-> INV]
  IN IF a.q.err # "" THEN a.q
     ELSE IF a.go # INV THEN PDInner(d, a.q, a.go, fuel - 1)
     ELSE IF rv THEN a.q
     ELSE LET pr == PDPrio(d, a.q, rc) IN
          IF pr.q.err # "" THEN pr.q
          ELSE IF pr.p <= pr.q.best THEN PDInner(d, pr.q, rc, fuel - 1) ELSE PDAdd(pr.q, rc, pr.p)
PDOuter(d, q, fuel) ==
  IF q.err # "" THEN q ELSE
  IF fuel = 0 THEN [q EXCEPT !.err = "ub:traversal-does-not-end"] ELSE
  LET pp == PDPop(q, q.best) IN
  IF pp.c = INV THEN pp.q
  ELSE IF FVis(pp.q, FaceOf(pp.c)) THEN PDOuter(d, pp.q, fuel - 1)
  ELSE PDOuter(d, PDInner(d, pp.q, pp.c, fuel), fuel - 1)
PDFromCorner(d, q, c0, fuel) ==
  IF q.err # "" \/ Len(d.vc) = 0 THEN q ELSE
  LET nvx == Vtx(d, Nx(c0))  pvx == Vtx(d, Pv(c0))  tvx == Vtx(d, c0) IN
  IF nvx = INV \/ pvx = INV \/ tvx = INV THEN [q EXCEPT !.err = "ub:degree-traversal-indexes-with-an-invalid-vertex"] ELSE
  LET q1 == [q EXCEPT !.st[1] = Append(@, c0), !.best = 0]
      q2 == PDReport(d, PDReport(d, PDReport(d, q1, nvx, Nx(c0)), pvx, Pv(c0)), tvx, c0)
  IN PDOuter(d, q2, fuel)
RECURSIVE PDFaces(_, _, _, _, _)
PDFaces(d, q, f, nf, fuel) == IF f = nf THEN q ELSE PDFaces(d, PDFromCorner(d, q, 3 * f, fuel), f + 1, nf, fuel)
TraversePD(d, nf) == PDFaces(d, [fv |-> {}, vv |-> {}, order |-> <<>>, cor |-> <<>>, st |-> <<<<>>, <<>>, <<>>>>, best |-> 0,
                                 deg |-> [i \in 1..Len(d.vc) |-> 0], err |-> ""], 0, nf, 8 * nf + 16)
OrderPD(r, nf) == IF r.out # "acc" THEN [trav |-> "", vidx |-> <<>>]
                  ELSE LET t == TraversePD(r.d, nf) IN [trav |-> t.err, vidx |-> IF t.err = "" THEN VIdx(t.order, r.np) ELSE <<>>]

\* ---------------------------------------------------------------- parallelogram prediction over the traversal (MeshPredictionSchemeParallelogramDecoder)
\* Entry p (0-based, traversal order) was reported at corner cor[p].  Across the edge opposite to that corner lies a face; when its three vertices
\* all have entries before p the prediction is next + prev - opposite, otherwise the previous entry; the wrap transform (module IntAttr: clamp the
\* prediction into [lo, hi], add the correction, take the result back by one period) turns prediction + correction into the value.  corr(p) = the three
\* corrections of entry p.
IA == INSTANCE IntAttr
EntryOf(order, v) == IF \E k \in 1..Len(order) : order[k] = v THEN (CHOOSE k \in 1..Len(order) : order[k] = v) - 1 ELSE -1
RECURSIVE ParaVals(_, _, _, _, _, _)
ParaVals(d, t, p, vals, lo, hi) ==
  IF p = Len(t.order) THEN vals ELSE
  LET corr == <<3 * p + 1, 3 * p + 2, 3 * p + 3>>
      oci == Opp(d, t.cor[p + 1])
      \* the decoder's vertex -> entry map starts out as zeros (MeshAttributeIndicesEncodingData::Init resizes it; only the encoder fills it with -1):
      \* a vertex the traversal never reports stands for entry 0
      E(v) == LET e == EntryOf(t.order, v) IN IF e < 0 THEN 0 ELSE e
      eo == IF oci = INV THEN p ELSE E(Vtx(d, oci))
      en == IF oci = INV THEN p ELSE E(Vtx(d, Nx(oci)))
      ep == IF oci = INV THEN p ELSE E(Vtx(d, Pv(oci)))
      para == oci # INV /\ eo < p /\ en < p /\ ep < p
      pred == IF p = 0 THEN <<0, 0, 0>>
              ELSE IF para THEN [c \in 1..3 |-> vals[en + 1][c] + vals[ep + 1][c] - vals[eo + 1][c]]
              ELSE vals[p]
      v == [c \in 1..3 |-> IA!Unwrap(pred[c], corr[c], lo, hi)]
  IN ParaVals(d, t, p + 1, Append(vals, v), lo, hi)
\* per point: its predicted position, or <<>> for a point the traversal never reports
ParaPos(r, nf, lo, hi) ==
  IF r.out # "acc" THEN <<>> ELSE
  LET t == Traverse(r.d, nf) IN
  IF t.err # "" THEN <<>> ELSE
  LET vals == ParaVals(r.d, t, 0, <<>>, lo, hi) IN
  [pt \in 1..r.np |-> LET e == EntryOf(t.order, pt - 1) IN IF e < 0 THEN <<>> ELSE vals[e + 1]]

\* ---------------------------------------------------------------- constrained multi-parallelogram prediction (method 4, the default at speeds 0 and 1)
\* Around the vertex of entry p: starting at its corner, swing left collecting every parallelogram whose three entries precede p (at most 4); on reaching
\* the boundary continue from the start corner swinging right.  With n parallelograms found, n crease flags are taken from flag list n - 1 (one list
\* per count, each with its own cursor; a list that runs out refuses the stream); the prediction is the sum of the parallelograms whose flag is 0
\* divided by their number (C++ integer division, towards zero), or the previous entry when none is used.  pat names the served flags:
\* 0 all clear, 1 all set, 2 alternating.
TruncDiv(a, b) == IF a >= 0 THEN a \div b ELSE -((-a) \div b)
FlagAt(pat, ctx, pos) == CASE pat = 0 -> 0 [] pat = 1 -> 1 [] OTHER -> (pos + ctx) % 2
EntryD(t, v) == LET e == EntryOf(t.order, v) IN IF e < 0 THEN 0 ELSE e
ParaAt(d, t, p, vals, ci) ==
  LET oci == Opp(d, ci) IN
  IF oci = INV THEN [ok |-> FALSE, pred |-> <<>>] ELSE
  LET eo == EntryD(t, Vtx(d, oci))  en == EntryD(t, Vtx(d, Nx(oci)))  ep == EntryD(t, Vtx(d, Pv(oci))) IN
  IF eo < p /\ en < p /\ ep < p THEN [ok |-> TRUE, pred |-> [c \in 1..3 |-> vals[en + 1][c] + vals[ep + 1][c] - vals[eo + 1][c]]]
  ELSE [ok |-> FALSE, pred |-> <<>>]
RECURSIVE Gather(_, _, _, _, _, _, _, _, _)
Gather(d, t, p, vals, start, c, first, preds, fuel) ==
  IF c = INV THEN [preds |-> preds, err |-> ""] ELSE
  IF fuel = 0 THEN [preds |-> preds, err |-> "ub:parallelogram-walk-does-not-end"] ELSE
  LET pr == ParaAt(d, t, p, vals, c)
      preds1 == IF pr.ok THEN Append(preds, pr.pred) ELSE preds IN
  IF Len(preds1) = 4 THEN [preds |-> preds1, err |-> ""] ELSE
  LET c1 == IF first THEN SwingL(d, c) ELSE SwingR(d, c) IN
  IF c1 = start THEN [preds |-> preds1, err |-> ""]
  ELSE IF c1 = INV /\ first THEN Gather(d, t, p, vals, start, SwingR(d, start), FALSE, preds1, fuel - 1)
  ELSE Gather(d, t, p, vals, start, c1, first, preds1, fuel - 1)
RECURSIVE UseFlags(_, _, _, _, _, _, _)
\* i-th parallelogram of n: returns [sum, used, cur]
UseFlags(pat, preds, i, n, sum, used, cur) ==
  IF i > n THEN [sum |-> sum, used |-> used, cur |-> cur] ELSE
  LET pos == cur[n]  crease == FlagAt(pat, n - 1, pos) = 1  cur1 == [cur EXCEPT ![n] = @ + 1] IN
  IF crease THEN UseFlags(pat, preds, i + 1, n, sum, used, cur1)
  ELSE UseFlags(pat, preds, i + 1, n, [c \in 1..3 |-> sum[c] + preds[i][c]], used + 1, cur1)
RECURSIVE CmVals(_, _, _, _, _, _, _, _)
CmVals(d, t, p, vals, cur, pat, lo, hi) ==
  IF p = Len(t.order) THEN [vals |-> vals, cur |-> cur, err |-> ""] ELSE
  LET corr == <<3 * p + 1, 3 * p + 2, 3 * p + 3>> IN
  IF p = 0 THEN CmVals(d, t, 1, <<[c \in 1..3 |-> IA!Unwrap(0, corr[c], lo, hi)]>>, cur, pat, lo, hi) ELSE
  LET g == Gather(d, t, p, vals, t.cor[p + 1], t.cor[p + 1], TRUE, <<>>, 6 * Len(t.order) + 12) IN
  IF g.err # "" THEN [vals |-> vals, cur |-> cur, err |-> g.err] ELSE
  LET n == Len(g.preds)
      u == IF n = 0 THEN [sum |-> <<0, 0, 0>>, used |-> 0, cur |-> cur] ELSE UseFlags(pat, g.preds, 1, n, <<0, 0, 0>>, 0, cur)
      pred == IF u.used = 0 THEN vals[p] ELSE [c \in 1..3 |-> TruncDiv(u.sum[c], u.used)]
      v == [c \in 1..3 |-> IA!Unwrap(pred[c], corr[c], lo, hi)]
  IN CmVals(d, t, p + 1, Append(vals, v), u.cur, pat, lo, hi)
\* [nfl |-> flags consumed per list, pos |-> position per point (or <<>>), err]
CmPos(r, nf, pat, lo, hi) ==
  IF r.out # "acc" THEN [nfl |-> <<0, 0, 0, 0>>, pos |-> <<>>, err |-> "none"] ELSE
  LET t == Traverse(r.d, nf) IN
  IF t.err # "" THEN [nfl |-> <<0, 0, 0, 0>>, pos |-> <<>>, err |-> "none"] ELSE
  LET m == CmVals(r.d, t, 0, <<>>, <<0, 0, 0, 0>>, pat, lo, hi) IN
  IF m.err # "" THEN [nfl |-> m.cur, pos |-> <<>>, err |-> m.err]
  ELSE [nfl |-> m.cur, err |-> "",
        pos |-> [pt \in 1..r.np |-> LET e == EntryOf(t.order, pt - 1) IN IF e < 0 THEN <<>> ELSE m.vals[e + 1]]]

\* the deprecated multi-parallelogram scheme (method 2; no encoder writes it any more): every parallelogram met swinging RIGHT from the entry's corner
\* until the walk is back or leaves the mesh, no flags, the average with integer division towards zero
RECURSIVE MpGather(_, _, _, _, _, _, _, _)
MpGather(d, t, p, vals, start, c, acc, fuel) ==
  IF c = INV THEN [sum |-> acc.sum, n |-> acc.n, err |-> ""] ELSE
  IF fuel = 0 THEN [sum |-> acc.sum, n |-> acc.n, err |-> "ub:parallelogram-walk-does-not-end"] ELSE
  LET pr == ParaAt(d, t, p, vals, c)
      acc1 == IF pr.ok THEN [sum |-> [k \in 1..3 |-> acc.sum[k] + pr.pred[k]], n |-> acc.n + 1] ELSE acc
      c1 == SwingR(d, c) IN
  MpGather(d, t, p, vals, start, IF c1 = start THEN INV ELSE c1, acc1, fuel - 1)
RECURSIVE MpVals(_, _, _, _, _, _)
MpVals(d, t, p, vals, lo, hi) ==
  IF p = Len(t.order) THEN [vals |-> vals, err |-> ""] ELSE
  LET corr == <<3 * p + 1, 3 * p + 2, 3 * p + 3>> IN
  IF p = 0 THEN MpVals(d, t, 1, <<[c \in 1..3 |-> IA!Unwrap(0, corr[c], lo, hi)]>>, lo, hi) ELSE
  LET g == MpGather(d, t, p, vals, t.cor[p + 1], t.cor[p + 1], [sum |-> <<0, 0, 0>>, n |-> 0], 6 * Len(t.order) + 12) IN
  IF g.err # "" THEN [vals |-> vals, err |-> g.err] ELSE
  LET pred == IF g.n = 0 THEN vals[p] ELSE [c \in 1..3 |-> TruncDiv(g.sum[c], g.n)] IN
  MpVals(d, t, p + 1, Append(vals, [c \in 1..3 |-> IA!Unwrap(pred[c], corr[c], lo, hi)]), lo, hi)
MpPos(r, nf, lo, hi) ==
  IF r.out # "acc" THEN <<>> ELSE
  LET t == Traverse(r.d, nf) IN
  IF t.err # "" THEN <<>> ELSE
  LET m == MpVals(r.d, t, 0, <<>>, lo, hi) IN
  IF m.err # "" THEN <<>> ELSE [pt \in 1..r.np |-> LET e == EntryOf(t.order, pt - 1) IN IF e < 0 THEN <<>> ELSE m.vals[e + 1]]

\* ---------------------------------------------------------------- attribute seams: a second attribute with its own connectivity
\* After the connectivity, face by face and corner by corner (3f, 3f+1, 3f+2): an edge without opposite face is a seam by definition; an edge whose
\* opposite face has a smaller id was decided there; every other edge reads one bit.  A seam edge cuts the attribute's corner table
\* (MeshAttributeCornerTable: Opposite across a seam is invalid); RecomputeVertices renumbers the attribute's vertices fan by fan;
\* AssignPointsToCorners gives every corner its point: one per piece of a vertex' fan between seams.
SeamCorners(d, nf, bits) ==       \* [sc |-> set of seam corners, used |-> bits consumed]
  LET RECURSIVE Go(_, _, _)
      Go(c, k, acc) == IF c = 3 * nf THEN [sc |-> acc, used |-> k]
                       ELSE LET o == Opp(d, c) IN
                            IF o = INV THEN Go(c + 1, k, acc \cup {c})
                            ELSE IF o \div 3 < c \div 3 THEN Go(c + 1, k, acc)
                            ELSE Go(c + 1, k + 1, IF k + 1 <= Len(bits) /\ bits[k + 1] = 1 THEN acc \cup {c} ELSE acc)
  IN Go(0, 0, {})
EdgeSeams(d, sc) == sc \cup {Opp(d, c) : c \in {x \in sc : Opp(d, x) # INV}}
VertSeams(d, es) == {Vtx(d, Nx(c)) : c \in es} \cup {Vtx(d, Pv(c)) : c \in es}
AOpp(d, es, c) == IF c = INV \/ c \in es THEN INV ELSE Opp(d, c)
ASwingL(d, es, c) == Nx(AOpp(d, es, Nx(c)))
ASwingR(d, es, c) == Pv(AOpp(d, es, Pv(c)))
\* RecomputeVertices(nullptr, nullptr): am corner -> attribute vertex (INV unset), alm attribute vertex -> its first corner
RECURSIVE ALeft(_, _, _, _, _, _), ARight(_, _, _, _, _, _, _, _), ARecompute(_, _, _, _, _, _)
ALeft(d, es, c, first, act, fuel) ==            \* walk left (seam-aware) to the first corner of the fan piece; "loop" when it comes back to c
  IF act = INV THEN [ok |-> TRUE, first |-> first]
  ELSE IF fuel = 0 THEN [ok |-> FALSE, first |-> first]
  ELSE LET nx == ASwingL(d, es, act) IN IF nx = c THEN [ok |-> FALSE, first |-> act] ELSE ALeft(d, es, c, act, nx, fuel - 1)
ARight(d, es, first, act, id, am, alm, fuel) == \* walk right over the POSITION table from `first`; a seam edge on the way starts a new attribute vertex
  IF act = INV \/ act = first THEN [am |-> am, alm |-> alm, err |-> ""]
  ELSE IF fuel = 0 THEN [am |-> am, alm |-> alm, err |-> "ub:attribute-fan-does-not-end"]
  ELSE LET cut == Nx(act) \in es
           id1 == IF cut THEN Len(alm) ELSE id
           alm1 == IF cut THEN Append(alm, act) ELSE alm
       IN ARight(d, es, first, SwingR(d, act), id1, [am EXCEPT ![act] = id1], alm1, fuel - 1)
ARecompute(d, es, vs, v, am, alm) ==
  IF v = Len(d.vc) THEN [am |-> am, alm |-> alm, err |-> ""] ELSE
  LET c == d.vc[v + 1] IN
  IF c = INV THEN ARecompute(d, es, vs, v + 1, am, alm) ELSE
  LET l == IF v \in vs THEN ALeft(d, es, c, c, ASwingL(d, es, c), 3 * Len(d.vc) + 12) ELSE [ok |-> TRUE, first |-> c] IN
  IF ~l.ok THEN [am |-> am, alm |-> alm, err |-> "rej:attribute-fan-closed"] ELSE
  LET id == Len(alm)
      r == ARight(d, es, l.first, SwingR(d, l.first), id, [am EXCEPT ![l.first] = id], Append(alm, l.first), 3 * Len(d.vc) + 12)
  IN IF r.err # "" THEN r ELSE ARecompute(d, es, vs, v + 1, r.am, r.alm)
\* AssignPointsToCorners with one attribute: cp corner -> point, np
RECURSIVE FindFirst(_, _, _, _, _, _), Spread(_, _, _, _, _, _, _, _), Assign(_, _, _, _, _, _)
FindFirst(d, am, c, act, vid, fuel) ==          \* a vertex not on a hole, on a seam: the first corner (swinging right from c) whose attribute vertex differs
  IF act = c THEN [ok |-> TRUE, first |-> c]
  ELSE IF act = INV THEN [ok |-> FALSE, first |-> c]
  ELSE IF fuel = 0 THEN [ok |-> FALSE, first |-> INV]
  ELSE IF am[act] # vid THEN [ok |-> TRUE, first |-> act] ELSE FindFirst(d, am, c, SwingR(d, act), vid, fuel - 1)
Spread(d, am, first, prev, c, cp, np, fuel) ==
  IF c = INV \/ c = first THEN [cp |-> cp, np |-> np, err |-> ""]
  ELSE IF fuel = 0 THEN [cp |-> cp, np |-> np, err |-> "ub:point-fan-does-not-end"]
  ELSE IF cp[c] # -1 THEN [cp |-> cp, np |-> np, err |-> "rej:corner-assigned-twice"]       \* finding F24, fix 0aa0a7c: every corner gets its point exactly once
  ELSE IF am[c] # am[prev] THEN Spread(d, am, first, c, SwingR(d, c), [cp EXCEPT ![c] = np], np + 1, fuel - 1)
  ELSE Spread(d, am, first, c, SwingR(d, c), [cp EXCEPT ![c] = cp[prev]], np, fuel - 1)
Assign(d, vs, am, v, cp, np) ==
  IF v = Len(d.vc) THEN [cp |-> cp, np |-> np, err |-> ""] ELSE
  LET c == d.vc[v + 1] IN
  IF c = INV THEN Assign(d, vs, am, v + 1, cp, np) ELSE
  LET ff == IF v \notin d.nh \/ v \notin vs THEN [ok |-> TRUE, first |-> c]
            ELSE FindFirst(d, am, c, SwingR(d, c), am[c], 3 * Len(d.vc) + 12) IN
  IF ~ff.ok THEN [cp |-> cp, np |-> np, err |-> IF ff.first = INV THEN "ub:point-fan-does-not-end" ELSE "rej:assign-open-fan"] ELSE
  IF cp[ff.first] # -1 THEN [cp |-> cp, np |-> np, err |-> "rej:corner-assigned-twice"] ELSE
  LET sp == Spread(d, am, ff.first, ff.first, SwingR(d, ff.first), [cp EXCEPT ![ff.first] = np], np + 1, 3 * Len(d.vc) + 12) IN
  IF sp.err # "" THEN sp ELSE Assign(d, vs, am, v + 1, sp.cp, sp.np)
\* everything for one seam pattern.  Result: out, np, faces (points), used (bits consumed), pvidx / avidx (value index per point for the position
\* attribute -- traversal over the position table -- and for the second attribute -- the same traversal over the attribute's table)
Seamed(r, nf, bits) ==
  LET none == [out |-> "none", np |-> 0, faces |-> <<>>, used |-> 0, pe |-> 0, ae |-> 0, pvidx |-> <<>>, avidx |-> <<>>] IN
  IF r.out # "acc" THEN none ELSE
  \* with attribute data the decoder does NOT renumber the vertices isolated by S symbols (remove_invalid_vertices = attribute_data_.empty()):
  \* the seam layer works on the table as it is before Compact
  LET d == r.du
      s0 == SeamCorners(d, nf, bits)
      es == EdgeSeams(d, s0.sc)
      vs == VertSeams(d, es)
      C == 0..(3 * nf - 1)
      rc == ARecompute(d, es, vs, 0, [c \in C |-> INV], <<>>) IN
  IF rc.err # "" THEN [none EXCEPT !.out = rc.err, !.used = s0.used] ELSE
  LET asg == Assign(d, vs, rc.am, 0, [c \in C |-> -1], 0) IN
  IF asg.err # "" THEN [none EXCEPT !.out = asg.err, !.used = s0.used] ELSE
  IF \E c \in C : asg.cp[c] = -1 THEN [none EXCEPT !.out = "rej:corner-without-point", !.used = s0.used] ELSE
  LET tp == Traverse(d, nf)
      da == [opp |-> [c \in C |-> AOpp(d, es, c)], ctv |-> rc.am, vc |-> rc.alm]
      ta == Traverse(da, nf)
      EntryC(t, pred(_)) == LET K == {k \in 1..Len(t.cor) : pred(t.cor[k])} IN IF K = {} THEN -1 ELSE (CHOOSE k \in K : \A j \in K : k <= j) - 1
  IN IF tp.err # "" \/ ta.err # "" THEN [none EXCEPT !.out = "any:traversal", !.used = s0.used] ELSE
     [out |-> "acc", np |-> asg.np, faces |-> [c \in 1..(3 * nf) |-> asg.cp[c - 1]], used |-> s0.used, pe |-> Len(tp.order), ae |-> Len(ta.order),
      \* a point holds the value of the vertex its corners belong to: the entry at which that vertex was reported
      \* UpdatePointToAttributeIndexMapping walks the corners in order and the last one wins: a point holds the entry of the vertex of its LAST corner;
      \* a vertex the traversal never reported stands for entry 0 (the decoder's map starts as zeros); a point named by no face keeps no value (-1)
      pvidx |-> [pt \in 1..asg.np |-> IF \E c \in C : asg.cp[c] = pt - 1
                                       THEN LET c0 == CHOOSE c \in C : asg.cp[c] = pt - 1 /\ \A c2 \in C : asg.cp[c2] = pt - 1 => c2 <= c
                                                e == EntryC(tp, LAMBDA x : d.ctv[x] = d.ctv[c0]) IN IF e < 0 THEN 0 ELSE e
                                       ELSE -1],
      avidx |-> [pt \in 1..asg.np |-> IF \E c \in C : asg.cp[c] = pt - 1
                                       THEN LET c0 == CHOOSE c \in C : asg.cp[c] = pt - 1 /\ \A c2 \in C : asg.cp[c2] = pt - 1 => c2 <= c
                                                e == EntryC(ta, LAMBDA x : rc.am[x] = rc.am[c0]) IN IF e < 0 THEN 0 ELSE e
                                       ELSE -1]]

\* ---------------------------------------------------------------- two attributes with connectivity of their own
\* Both read a bit for the same edges, each from its own stream.  A vertex off every hole starts its points at the first corner where the FIRST
\* attribute that is on a seam at its left-most corner changes its vertex (later attributes are consulted only when earlier ones show no change); a new
\* point starts wherever ANY attribute changes.
RECURSIVE FindFirst2(_, _, _, _, _, _), Spread2(_, _, _, _, _, _, _, _), Assign2(_, _, _, _, _, _)
FindFirst2(d, vss, ams, v, c, i) ==
  IF i > Len(ams) THEN [ok |-> TRUE, first |-> c]
  ELSE IF v \notin vss[i] THEN FindFirst2(d, vss, ams, v, c, i + 1)
  ELSE LET ff == FindFirst(d, ams[i], c, SwingR(d, c), ams[i][c], 3 * Len(d.vc) + 12) IN
       IF ~ff.ok THEN ff
       ELSE IF ff.first # c THEN ff
       ELSE FindFirst2(d, vss, ams, v, c, i + 1)
Spread2(d, ams, first, prev, c, cp, np, fuel) ==
  IF c = INV \/ c = first THEN [cp |-> cp, np |-> np, err |-> ""]
  ELSE IF fuel = 0 THEN [cp |-> cp, np |-> np, err |-> "ub:point-fan-does-not-end"]
  ELSE IF cp[c] # -1 THEN [cp |-> cp, np |-> np, err |-> "rej:corner-assigned-twice"]
  ELSE IF \E i \in 1..Len(ams) : ams[i][c] # ams[i][prev] THEN Spread2(d, ams, first, c, SwingR(d, c), [cp EXCEPT ![c] = np], np + 1, fuel - 1)
  ELSE Spread2(d, ams, first, c, SwingR(d, c), [cp EXCEPT ![c] = cp[prev]], np, fuel - 1)
Assign2(d, vss, ams, v, cp, np) ==
  IF v = Len(d.vc) THEN [cp |-> cp, np |-> np, err |-> ""] ELSE
  LET c == d.vc[v + 1] IN
  IF c = INV THEN Assign2(d, vss, ams, v + 1, cp, np) ELSE
  LET ff == IF v \notin d.nh THEN [ok |-> TRUE, first |-> c] ELSE FindFirst2(d, vss, ams, v, c, 1) IN
  IF ~ff.ok THEN [cp |-> cp, np |-> np, err |-> IF ff.first = INV THEN "ub:point-fan-does-not-end" ELSE "rej:assign-open-fan"] ELSE
  IF cp[ff.first] # -1 THEN [cp |-> cp, np |-> np, err |-> "rej:corner-assigned-twice"] ELSE
  LET sp == Spread2(d, ams, ff.first, ff.first, SwingR(d, ff.first), [cp EXCEPT ![ff.first] = np], np + 1, 3 * Len(d.vc) + 12) IN
  IF sp.err # "" THEN sp ELSE Assign2(d, vss, ams, v + 1, sp.cp, sp.np)
Seamed2(r, nf, b1, b2) ==
  LET none == [out |-> "none", np |-> 0, faces |-> <<>>, used |-> 0, pe |-> 0, ae |-> 0, pvidx |-> <<>>, avidx |-> <<>>, avidx2 |-> <<>>] IN
  IF r.out # "acc" THEN none ELSE
  LET d == r.du
      C == 0..(3 * nf - 1)
      s1 == SeamCorners(d, nf, b1)  s2 == SeamCorners(d, nf, b2)
      e1 == EdgeSeams(d, s1.sc)  e2 == EdgeSeams(d, s2.sc)
      v1 == VertSeams(d, e1)  v2 == VertSeams(d, e2)
      r1 == ARecompute(d, e1, v1, 0, [c \in C |-> INV], <<>>)
      r2 == ARecompute(d, e2, v2, 0, [c \in C |-> INV], <<>>) IN
  IF r1.err # "" THEN [none EXCEPT !.out = r1.err, !.used = s1.used] ELSE
  IF r2.err # "" THEN [none EXCEPT !.out = r2.err, !.used = s1.used] ELSE
  LET asg == Assign2(d, <<v1, v2>>, <<r1.am, r2.am>>, 0, [c \in C |-> -1], 0) IN
  IF asg.err # "" THEN [none EXCEPT !.out = asg.err, !.used = s1.used] ELSE
  IF \E c \in C : asg.cp[c] = -1 THEN [none EXCEPT !.out = "rej:corner-without-point", !.used = s1.used] ELSE
  LET tp == Traverse(d, nf)
      t1 == Traverse([opp |-> [c \in C |-> AOpp(d, e1, c)], ctv |-> r1.am, vc |-> r1.alm], nf)
      t2 == Traverse([opp |-> [c \in C |-> AOpp(d, e2, c)], ctv |-> r2.am, vc |-> r2.alm], nf)
      EntryC(t, pred(_)) == LET K == {k \in 1..Len(t.cor) : pred(t.cor[k])} IN IF K = {} THEN 0 ELSE (CHOOSE k \in K : \A j \in K : k <= j) - 1
      Last(pt) == CHOOSE c \in C : asg.cp[c] = pt - 1 /\ \A c2 \in C : asg.cp[c2] = pt - 1 => c2 <= c
  IN IF tp.err # "" \/ t1.err # "" \/ t2.err # "" THEN [none EXCEPT !.out = "any:traversal", !.used = s1.used] ELSE
     [out |-> "acc", np |-> asg.np, faces |-> [c \in 1..(3 * nf) |-> asg.cp[c - 1]], used |-> s1.used, pe |-> Len(tp.order), ae |-> Len(t1.order),
      pvidx |-> [pt \in 1..asg.np |-> IF \E c \in C : asg.cp[c] = pt - 1 THEN EntryC(tp, LAMBDA x : d.ctv[x] = d.ctv[Last(pt)]) ELSE -1],
      avidx |-> [pt \in 1..asg.np |-> IF \E c \in C : asg.cp[c] = pt - 1 THEN EntryC(t1, LAMBDA x : r1.am[x] = r1.am[Last(pt)]) ELSE -1],
      avidx2 |-> [pt \in 1..asg.np |-> IF \E c \in C : asg.cp[c] = pt - 1 THEN EntryC(t2, LAMBDA x : r2.am[x] = r2.am[Last(pt)]) ELSE -1]]

\* ---------------------------------------------------------------- the attribute decoder headers (CreateAttributesDecoder)
\* nad attribute-data blocks were announced with the connectivity; every attribute decoder names one (id >= 0) or the position data (any negative
\* id), a decoder type (0: per vertex, over the position table; anything else: per corner, over the block's own table) and a traversal method.
RECURSIVE AttHeader(_, _, _, _, _)
AttHeader(nad, decs, i, used, pos) ==
  IF i > Len(decs) THEN "ok" ELSE
  LET id == decs[i][1]  ty == decs[i][2]  tr == decs[i][3] IN
  IF id >= 0 /\ id >= nad THEN "rej:attribute-data-id"
  ELSE IF id >= 0 /\ id \in used THEN "rej:attribute-data-used-twice"
  ELSE IF id < 0 /\ pos THEN "rej:position-data-used-twice"
  ELSE IF tr >= 2 THEN "rej:traversal-method"
  ELSE IF ty # 0 /\ tr # 0 THEN "rej:corner-attribute-traversal"
  ELSE IF ty # 0 /\ id < 0 THEN "rej:corner-attribute-without-data"
  ELSE AttHeader(nad, decs, i + 1, IF id >= 0 THEN used \cup {id} ELSE used, pos \/ id < 0)
\* values each decoder reads (one per vertex its traversal reports), and the geometry: with attribute data the points are those of Seamed under "no
\* interior seam" (every block reads its own all-zero seam bits)
HeaderCase(r, nf, nad, decs) ==
  LET h == AttHeader(nad, decs, 1, {}, FALSE)
      sm == IF nad = 0 THEN [out |-> r.out, np |-> r.np, faces |-> r.faces, used |-> 0] ELSE Seamed(r, nf, <<>>)
      d == IF nad = 0 THEN r.d ELSE r.du
      es == EdgeSeams(d, SeamCorners(d, nf, <<>>).sc)
      vs == VertSeams(d, es)
      C == 0..(3 * nf - 1)
      rc == ARecompute(d, es, vs, 0, [c \in C |-> INV], <<>>)
      da == [opp |-> [c \in C |-> AOpp(d, es, c)], ctv |-> rc.am, vc |-> rc.alm]
      cnt(k) == IF decs[k][2] # 0 THEN Len(Traverse(da, nf).order)
                ELSE IF decs[k][3] = 1 THEN Len(TraversePD(d, nf).order) ELSE Len(Traverse(d, nf).order)
  IN IF r.out # "acc" THEN [out |-> "none", np |-> 0, faces |-> <<>>, used |-> 0, cnt |-> <<>>]
     ELSE IF h # "ok" THEN [out |-> h, np |-> 0, faces |-> <<>>, used |-> sm.used, cnt |-> [k \in 1..Len(decs) |-> 0]]
     ELSE IF sm.out # "acc" THEN [out |-> sm.out, np |-> 0, faces |-> <<>>, used |-> sm.used, cnt |-> [k \in 1..Len(decs) |-> 0]]
     ELSE [out |-> "acc", np |-> sm.np, faces |-> sm.faces, used |-> sm.used, cnt |-> [k \in 1..Len(decs) |-> cnt(k)]]

\* ---------------------------------------------------------------- the whole connectivity decode
\* syms in DECODER order; ev = <<src, split, edge>> triples ascending in src; sb = start-face bits
Decode(syms, nv, nf, nss, ev, sb) ==
  LET nsym == Len(syms) h == Header(nv, nf, nsym, nss, Len(ev)) IN
  IF h # "ok" THEN [out |-> h, np |-> 0, faces |-> <<>>] ELSE
  IF ~EventsOK(ev) THEN [out |-> "rej:event-delta", np |-> 0, faces |-> <<>>] ELSE
  LET d1 == DecSyms(D0(nf, ev), syms, nsym, nv + nss) IN
  IF d1.out # "run" THEN [out |-> d1.out, np |-> 0, faces |-> <<>>] ELSE
  LET d2 == StartFaces(d1, sb, nf) IN
  IF d2.out # "run" THEN [out |-> d2.out, np |-> 0, faces |-> <<>>] ELSE
  IF d2.faces # nf THEN [out |-> "rej:face-count", np |-> 0, faces |-> <<>>] ELSE
  LET r == Compact(d2, d2.inval, Len(d2.vc)) IN
  IF r.d.out # "run" THEN [out |-> r.d.out, np |-> 0, faces |-> <<>>]
  ELSE [out |-> "acc", np |-> r.nvs, faces |-> [c \in 1..(3 * nf) |-> r.d.ctv[c - 1]], d |-> r.d, du |-> d2]

\* ---------------------------------------------------------------- the valence traversal (MeshEdgebreakerTraversalValenceDecoder)
\* The symbols are not one string: they sit in 6 context vectors (one per clamped valence 2..7 of the vertex the traversal is about to
\* reach), the first symbol is E by definition, every later symbol is popped from the back of the context selected by
\* NewActiveCornerReached after the previous symbol; an empty context yields TOPOLOGY_INVALID.  vertex_valences_ has exactly
\* maxv = declared vertices + declared split symbols entries.  The model replays a symbol string with an oracle and records which context
\* each symbol was popped from: the assembled stream stores exactly these vectors, so the real decoder must read the same string.
SymId(s) == CASE s = "C" -> 0 [] s = "S" -> 1 [] s = "L" -> 2 [] s = "R" -> 3 [] OTHER -> 4
AddVal(val, v, k) == [val EXCEPT ![v + 1] = @ + k]
\* valence bookkeeping after symbol s (the active corner is the new top of the stack); returns [ub, val, actx]
ValUpd(d, val, s) ==
  LET c == Top(d) vc_ == Vtx(d, c) vn == Vtx(d, Nx(c)) vp == Vtx(d, Pv(c))
      inc == CASE s = "C" \/ s = "S" -> <<0, 1, 1>> [] s = "R" -> <<1, 1, 2>> [] s = "L" -> <<1, 2, 1>> [] OTHER -> <<2, 2, 2>> IN
  IF (inc[1] > 0 /\ vc_ = INV) \/ vn = INV \/ vp = INV THEN [ub |-> TRUE, val |-> val, actx |-> -1] ELSE
  LET v1 == IF inc[1] > 0 THEN AddVal(val, vc_, inc[1]) ELSE val
      v2 == AddVal(AddVal(v1, vn, inc[2]), vp, inc[3])
      a == v2[vn + 1]
      cl == IF a < 2 THEN 2 ELSE IF a > 7 THEN 7 ELSE a IN
  [ub |-> FALSE, val |-> v2, actx |-> cl - 2]
\* state: d (as above), val, actx, log = sequence of <<context, symbol id>> in read order
RECURSIVE DecSymsV(_,_,_,_,_,_,_)
DecSymsV(d, val, actx, log, rs, nsym, maxv) ==
  IF d.out # "run" \/ rs = <<>> THEN [d |-> d, log |-> log] ELSE
  LET s == Head(rs)
      log2 == IF actx = -1 THEN log ELSE Append(log, <<actx, SymId(s)>>)
      \* S merges the valences of the two vertices it glues before anything else can fail on them
      pre == IF s = "S" /\ d.stack # <<>> THEN
                LET b == Top(d) st0 == SubSeq(d.stack, 1, Len(d.stack) - 1)
                    st1 == IF HasAct(d, d.sid) THEN Append(st0, ActOf(d, d.sid)) ELSE st0 IN
                IF st1 = <<>> THEN [ub |-> FALSE, val |-> val] ELSE
                LET a == st1[Len(st1)] p == Vtx(d, Pv(a)) n == Vtx(d, Nx(b)) IN
                IF a = b \/ Opp(d, a) # INV \/ Opp(d, b) # INV THEN [ub |-> FALSE, val |-> val]
                ELSE IF p = INV \/ n = INV THEN [ub |-> TRUE, val |-> val]
                ELSE [ub |-> FALSE, val |-> AddVal(val, p, val[n + 1])]
             ELSE [ub |-> FALSE, val |-> val] IN
  IF pre.ub THEN [d |-> Stop(d, "ub:V-merge(invalid vertex)"), log |-> log2] ELSE
  LET d1 == DecSym(d, s, nsym, maxv) IN
  IF d1.out # "run" THEN [d |-> d1, log |-> log2] ELSE
  \* NewActiveCornerReached runs before the split loop of the code, but the split loop does not touch the corner table: same result
  LET u == ValUpd(d1, pre.val, s) IN
  IF u.ub THEN [d |-> Stop(d1, "ub:V-valence(invalid vertex)"), log |-> log2]
  ELSE DecSymsV(d1, u.val, u.actx, log2, Tail(rs), nsym, maxv)
\* context vectors in STORAGE order (the decoder pops from the back): the symbols read from context k, reversed;
\* symbols the oracle never got to are parked in front of context 0 (never reached)
CtxOf(log, k) == LET I == SelectSeq(log, LAMBDA e : e[1] = k) IN [i \in 1..Len(I) |-> I[Len(I) - i + 1][2]]
DecodeV(syms, nv, nf, nss, ev, sb) ==
  LET nsym == Len(syms) h == Header(nv, nf, nsym, nss, Len(ev))
      none == [k \in 1..6 |-> <<>>] IN
  IF h # "ok" THEN [out |-> h, np |-> 0, faces |-> <<>>, ctx |-> none] ELSE
  IF ~EventsOK(ev) THEN [out |-> "rej:event-delta", np |-> 0, faces |-> <<>>, ctx |-> none] ELSE
  IF syms # <<>> /\ Head(syms) # "E" THEN [out |-> "skip", np |-> 0, faces |-> <<>>, ctx |-> none] ELSE
  LET maxv == nv + nss
      r1 == DecSymsV(D0(nf, ev), [v \in 1..maxv |-> 0], -1, <<>>, syms, nsym, maxv)
      ctx == [k \in 1..6 |-> CtxOf(r1.log, k - 1)]
      d1 == r1.d IN
  IF d1.out # "run" THEN [out |-> d1.out, np |-> 0, faces |-> <<>>, ctx |-> ctx] ELSE
  LET d2 == StartFaces(d1, sb, nf) IN
  IF d2.out # "run" THEN [out |-> d2.out, np |-> 0, faces |-> <<>>, ctx |-> ctx] ELSE
  IF d2.faces # nf THEN [out |-> "rej:face-count", np |-> 0, faces |-> <<>>, ctx |-> ctx] ELSE
  LET r == Compact(d2, d2.inval, Len(d2.vc)) IN
  IF r.d.out # "run" THEN [out |-> r.d.out, np |-> 0, faces |-> <<>>, ctx |-> ctx]
  ELSE [out |-> "acc", np |-> r.nvs, faces |-> [c \in 1..(3 * nf) |-> r.d.ctv[c - 1]], ctx |-> ctx, d |-> r.d, du |-> d2]

\* the attribute order of an accepted connectivity: [trav |-> "" | "rej:.." | "ub:..", vidx |-> value index per point]
Order(r, nf) == IF r.out # "acc" THEN [trav |-> "", vidx |-> <<>>]
                ELSE LET t == Traverse(r.d, nf) IN [trav |-> t.err, vidx |-> IF t.err = "" THEN VIdx(t.order, r.np) ELSE <<>>]
\* what C03 demands of an accepted connectivity: every face names three existing points
ConnValid(r) == r.out = "acc" => \A i \in 1..Len(r.faces) : r.faces[i] \in 0..(r.np - 1)
=============================================================================
