--------------------------------- MODULE Quant ---------------------------------
(* Uniform quantisation over a line of scaled integers (Quantizer / Dequantizer, AttributeQuantizationTransform).
   Anchors: core/quantization_utils.{h,cc}, attributes/attribute_quantization_transform.cc.
   Positions on the line are integers in units of step/S (S sub-steps per quantisation step), so x = 0 is the box
   minimum and x = S*MaxQ the box maximum.  float32 rounding is abstracted as a bounded per-operation error:
       Q(x)  = floor((x + e1) / S + 1/2)        |e1| <= A      (val * inverse_delta, + 0.5f, floor)
       D(k)  = k*S + e2                         |e2| <= A      (k * delta + min)
   Level A (C04): |D(Q(x)) - x| <= S/2 + allowance and D(Q(x)) stays within the box up to the allowance.          *)
EXTENDS Integers
CONSTANTS S, MaxQ, A
Abs(v) == IF v < 0 THEN -v ELSE v
FloorDiv(a, b) == a \div b              \* TLC's \div is floor division for positive b
Q(x, e1) == FloorDiv(2 * (x + e1) + S, 2 * S)
QFloor(x, e1) == FloorDiv(x + e1, S)    \* a broken quantiser (truncation), used to show the invariant is not vacuous
D(k, e2) == k * S + e2
Clip(k) == IF k < 0 THEN 0 ELSE IF k > MaxQ THEN MaxQ ELSE k
HalfStep(x, xd, allow) == 2 * Abs(xd - x) <= S + 2 * allow
InBox(xd, allow) == -allow <= xd /\ xd <= S * MaxQ + allow
\* two rounding errors of magnitude <= A give at most 2A extra error (plus A/S < 1 for the index decision)
Allowance == 2 * A
=============================================================================
