-------------------------------- MODULE Keyframe --------------------------------
(* KeyframeAnimation as a state machine over its public calls (animation/keyframe_animation.{h,cc}) and the Level-A
   relation of C20.  An animation is a point cloud: frame = point, timestamps = attribute with unique id 0,
   track k = attribute whose unique id is the value AddKeyframes returned.
   State: [frames (-1 = not fixed yet), ts (has timestamps), atts (sequence of unique ids in attribute order; 0 is the
   timestamp slot, which is a zero-sized placeholder until SetTimestamps is called)].                              *)
EXTENDS Integers, Sequences
Empty == [frames |-> -1, ts |-> FALSE, atts |-> <<>>]
\* SetTimestamps(n values): refused when timestamps exist already or n differs from the frame count fixed by keyframes
SetTimestamps(a, n) ==
  IF a.atts # <<>> /\ (a.ts \/ n # a.frames) THEN [ok |-> FALSE, a |-> a]
  ELSE [ok |-> TRUE, a |-> [frames |-> n, ts |-> TRUE, atts |-> IF a.atts = <<>> THEN <<0>> ELSE a.atts]]
\* AddKeyframes(components, n values per component ...): returns the new attribute id (= its position) or -1
AddKeyframes(a, comps, nframes) ==
  IF comps = 0 THEN [id |-> -1, a |-> a]
  ELSE LET a1 == IF a.atts = <<>> THEN [frames |-> nframes, ts |-> FALSE, atts |-> <<0>>] ELSE a    \* placeholder for the timestamps
       IN IF nframes # a1.frames THEN [id |-> -1, a |-> a1]
          ELSE [id |-> Len(a1.atts), a |-> [a1 EXCEPT !.atts = Append(@, Len(a1.atts))]]
\* ---------------- Level A on an observed round trip r:
\*   frames / order preserved, timestamps and unquantised tracks bit-exact (value ids per frame equal), every track
\*   retrievable under the id it was added with, timestamps under id 0
RoundTripOK(r) ==
  /\ r.out_frames = r.frames
  /\ r.ts_found /\ r.ts_out = r.ts_in
  /\ \A j \in 1..Len(r.tracks) : LET t == r.tracks[j] IN
        /\ t.found
        /\ t.comps_out = t.comps /\ t.dt_out = t.dt
        /\ (t.q = 0 => t.out = t.inp)
=============================================================================
