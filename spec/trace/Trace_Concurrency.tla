--------------------------- MODULE Trace_Concurrency ---------------------------
(* Per-thread observations of concurrent encode / decode runs (drv_c19: enforced TLC schedules and free-running stress):
   NoCrossTalk -- every thread's results equal the results of the same jobs run alone.                                  *)
EXTENDS TraceBase
CheckA(r) == r.e = "Thread" => r.got = r.solo
Conforms == ti <= N => CheckA(Recs[ti])
Spec == ShardInit /\ [][ShardNext]_tvars
=============================================================================
