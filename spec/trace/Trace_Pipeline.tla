----------------------------- MODULE Trace_Pipeline -----------------------------
(* One record per encode / decode call of drv_c19 events: the DRACO_VERIF_SCHED sites the call passed, in order, and its outcome.     *)
EXTENDS TraceBase, Pipeline
CheckB(r) == r.e = "Pipe" => Drift(IF r.op = "enc" THEN EncodeCallOK(r.ev, r.ok) ELSE DecodeCallOK(r.ev, r.ok), "stage order of a codec call")
Conforms == ti <= N => CheckB(Recs[ti])
Spec == ShardInit /\ [][ShardNext]_tvars
=============================================================================
