------------------------------- MODULE Trace_Geom -------------------------------
(* Round-trip observations of the real codec (drv_rt "RT" records) checked against the Level-A relations of
   module Geometry.  Prop selects which property's clause is the verdict:
     C01  encode ok => decode ok /\ Equivalent(in, out)          (big cases: ordered / sorted hash lists equal)
     C03  decode ok => StructValid (normal and skip-transform decode)
     C06  same input => same bytes; same bytes (with or without trailing bytes) => same geometry; exact consumption
     C09  encode ok => reported counts = decoded counts
     C10  skip-transform decode: same unique ids, described transform reproduces the normal decode, rest untouched *)
EXTENDS TraceBase, Geometry
CONSTANT Prop
C01(r) == r.eok => /\ r.dok
                   /\ IF r.big THEN r.in_atts = r.out_atts /\ (r.out_h = r.in_h \/ r.out_h = r.in_nd_h \/ (r.m = "eb" /\ r.between))
                      ELSE Equivalent(r.in, r.out, r.m, r.gt = "mesh")
C03(r) == r.dok => StructValid(r.sv) /\ (r.skipok => StructValid(r.sv2))
C06(r) == r.eok => /\ r.h_enc1 = r.h_enc2                       \* encoding twice (fresh / reused objects): identical bytes
                   /\ r.dok = r.trailok                         \* bytes after the stream change neither the result nor whether there is one
                   /\ r.dok => /\ r.h_dec1 = r.h_dec2            \* decoding twice: identical geometry in identical order
                               /\ r.trailok /\ r.h_dec1 = r.h_dec_trail   \* bytes after the stream do not matter
                               /\ r.remaining0 = 0 /\ r.remaining = r.trail   \* a successful decode consumes exactly the stream
                               /\ r.chain_ok                    \* two streams back to back in one buffer: each is read from where the previous one ended
                               /\ r.trunc_same                  \* a stream cut short: the outcome does not depend on the memory behind the declared size
\* what the encoder reports describes a stream that decodes, and to exactly those counts
C09(r) == (r.eok => r.dok) /\ (r.eok /\ r.dok => CountsAgree(r))
C10(r) == (r.dok /\ r.skip # <<>>) =>
            /\ r.skipok
            /\ \A j \in 1..Len(r.skip) : LET s == r.skip[j] IN
                  /\ s.uid_found                                  \* the attribute is there under its original unique id
                  /\ s.portable                                   \* integer values + transform description are exposed
                  /\ s.normal = s.rebuilt                          \* the described transform reproduces the normal decode bit for bit
            /\ r.skip_rest_same                                   \* other attributes and the connectivity are unaffected
            /\ r.cleared_same                                     \* a skip flag that was set and cleared again (value false) skips nothing
            /\ r.skip_missing = 0                                 \* every attribute the encoder quantised, of a skipped type, comes back with its transform description
Check(r) == IF r.e # "RT" THEN TRUE
            ELSE CASE Prop = "C01" -> C01(r) [] Prop = "C03" -> C03(r) [] Prop = "C06" -> C06(r)
                   [] Prop = "C09" -> C09(r) [] Prop = "C10" -> C10(r) [] OTHER -> FALSE
Conforms == ti <= N => Check(Recs[ti])
Spec == ShardInit /\ [][ShardNext]_tvars
=============================================================================
