CONSTANT Prop = "C01"
SPECIFICATION Spec
INVARIANT Conforms
CHECK_DEADLOCK FALSE
