------------------------------- MODULE Trace_Fault -------------------------------
(* Fault-enumeration observations (drv_fault) against the Level-A clauses of
   C02: every probe returns; no crash / sanitizer report / hang / uncaught exception except an allocation failure (oom);
        the caller's input bytes are untouched;
   C03: whatever decodes successfully is structurally valid;
   C18: allocation summary of every probe within Bound(len + declared).                                             *)
EXTENDS TraceBase, Geometry, Alloc
CONSTANT Prop
C02(r) == CASE r.e = "Abnormal" -> r.oom /\ ~r.timeout
            [] r.e = "Probe" -> ~r.modified
            [] r.e = "Batch" -> r.crashes = 0 /\ r.timeouts = 0
            [] r.e = "EbProbe" -> ~r.modified                        \* streams assembled from MC_EbDecoder rows (semantic faults)
            [] r.e = "EbBatch" -> r.crashes = 0 /\ r.timeouts = 0
            [] OTHER -> TRUE                                          \* "Nest": the probe returned (ok or Status) -- nothing more is demanded
C03(r) == (r.e \in {"Probe", "EbProbe"} /\ r.ok) => StructValid(r.sv)
\* Level B (drift, never a verdict): the real decoder against the predictions of module EbDecoder and the nesting rule of module Metadata.
\*   predicted reject  => rejected (connectivity is decoded first; nothing later can accept what it refused)
\*   predicted accept  => if the later stages accept too, the points and faces are the ones the model computed
\*   predicted "ub"    => the decoder would index a table with an invalid id: it cannot come back with a record at all
\*   nesting: a chain of D sub-metadata blocks has levels 0 .. D-1 (children of the root are level 0); refused when a level exceeds 1000
EbDrift(r) == (r.e = "EbProbe" /\ r.mode \notin {"kd", "ia", "hd"} /\ r.natt <= 6) =>
   Drift(/\ (r.pk = "rej" => ~r.ok)
         /\ ((r.pred = "acc" /\ r.ok) => (r.np = r.pred_np /\ r.faces = r.pred_faces))
         /\ ((r.pred = "acc" /\ r.natt = 0 /\ r.pred_np > 0) => r.ok)      \* without attribute decoders nothing later can refuse
         /\ r.pk # "ub", "EbDecoder prediction")
\* the order in which the attribute decoder visits the vertices (EbDecoder!Traverse): every point the model's traversal reports holds the attribute value
\* with the predicted index
\* (natt = 6: the same under the prediction-degree traversal, EbDecoder!TraversePD)
OrderDrift(r) == (r.e = "EbProbe" /\ r.mode \in {"std", "val"} /\ r.natt \in {1, 6} /\ r.pred = "acc" /\ r.ok /\ r.trav = "" /\ Len(r.pred_vidx) = r.np /\ Len(r.vidx) = r.np) =>
   Drift(\A p \in 1..r.np : r.pred_vidx[p] # -1 => r.vidx[p] = r.pred_vidx[p], "EbDecoder traversal order")
\* natt = 2: the same connectivity with the position attribute coded by the parallelogram scheme under the wrap transform (EbDecoder!ParaPos): every
\* reported point decodes to the predicted position
\* natt = 3, 4, 5: constrained multi-parallelogram prediction with all crease flags clear / set / alternating (EbDecoder!CmPos)
ParaDrift(r) == (r.e = "EbProbe" /\ r.mode \in {"std", "val"} /\ r.natt \in (2..5) \cup {-1} /\ r.pred = "acc" /\ r.ok /\ Len(r.pred_pts) = r.np /\ Len(r.pts) = r.np) =>
   Drift(\A p \in 1..r.np : r.pred_pts[p] # <<>> => r.pts[p] = r.pred_pts[p], "EbDecoder parallelogram prediction")
\* natt >= 7: a second attribute with its own connectivity under a pattern of seam bits (EbDecoder!Seamed): accepted exactly when the model accepts, with
\* the model's points and faces; every point holds the position of its vertex and the attribute value of its attribute vertex
SeamDrift(r) == (r.e = "EbProbe" /\ r.mode = "std" /\ r.natt >= 7 /\ r.pk \in {"acc", "rej"}) =>
   Drift(/\ (r.pk = "acc") = r.ok
         /\ (r.ok => /\ r.np = r.pred_np /\ r.faces = r.pred_faces
                      /\ Len(r.vidx) = r.np /\ Len(r.avidx) = r.np /\ Len(r.pred_vidx) = r.np /\ Len(r.pred_avidx) = r.np
                      /\ \A p \in 1..r.np : /\ (r.pred_vidx[p] # -1 => r.vidx[p] = r.pred_vidx[p])
                                              /\ (r.pred_avidx[p] # -1 => r.avidx[p] = r.pred_avidx[p])
                      /\ (r.pred_avidx2 # <<>> => /\ Len(r.avidx2) = r.np /\ Len(r.pred_avidx2) = r.np      \* two seamed attributes (EbDecoder!Seamed2)
                                                   /\ \A p2 \in 1..r.np : r.pred_avidx2[p2] # -1 => r.avidx2[p2] = r.pred_avidx2[p2])), "EbDecoder attribute seams")
\* attribute decoder headers (EbDecoder!AttHeader / HeaderCase, mode "hd"): accepted exactly when the model accepts, with the model's points and faces
HdDrift(r) == (r.e = "EbProbe" /\ r.mode = "hd" /\ r.pk \in {"acc", "rej"}) =>
   Drift((r.pk = "acc") = r.ok /\ (r.ok => r.np = r.pred_np /\ r.faces = r.pred_faces), "EbDecoder attribute decoder headers")
\* kd-tree rows (module KdTree): the real encoder writes the bytes assembled from the model's request lists (honest rows); the real decoder accepts
\* exactly what the model accepts -- nothing behind the kd-tree payload can refuse a uint32 attribute -- and returns the model's points in the model's order
\* integer attribute rows (module IntAttr, mode "ia"): the same clause; rows the model leaves open ("any:...") are exempt
KdDrift(r) == (r.e = "EbProbe" /\ r.mode \in {"kd", "ia"} /\ r.pk \in {"acc", "rej"}) =>
   Drift(/\ r.enc_same
         /\ (r.pred = "acc") = r.ok
         /\ (r.ok => r.pts = r.pred_pts), "KdTree prediction")
\* legacy kd-tree rows (module LegacyKd): nothing behind the kd-tree data can refuse the cloud, so a predicted accept is an accept with the header's count
LkDrift(r) == (r.e = "EbProbe" /\ r.mode \in {"lkd", "lkq"} /\ r.pk = "acc") => Drift(r.ok /\ r.np = r.pred_np, "LegacyKd prediction")
NestDrift(r) == r.e = "Nest" => Drift(r.ok = (r.depth - 1 <= 1000), "Metadata nesting limit")
C18(r) == (r.e = "Probe" /\ r.allocs) => AllocBounded(r)
Check(r) == CASE Prop = "C02" -> C02(r) [] Prop = "C03" -> C03(r) [] Prop = "C18" -> C18(r) [] OTHER -> FALSE
Conforms == ti <= N => (Check(Recs[ti]) /\ EbDrift(Recs[ti]) /\ OrderDrift(Recs[ti]) /\ SeamDrift(Recs[ti]) /\ HdDrift(Recs[ti]) /\ ParaDrift(Recs[ti]) /\ KdDrift(Recs[ti]) /\ LkDrift(Recs[ti]) /\ NestDrift(Recs[ti]))
Spec == ShardInit /\ [][ShardNext]_tvars
=============================================================================
