------------------------------- MODULE Trace_Fault -------------------------------
(* Fault-enumeration observations (drv_fault) against the Level-A clauses of
   C02: every probe returns; no crash / sanitizer report / hang / uncaught exception except an allocation failure (oom);
        the caller's input bytes are untouched;
   C03: whatever decodes successfully is structurally valid;
   C18: allocation summary of every probe within Bound(len + declared).                                             *)
EXTENDS TraceBase, Geometry, Alloc
CONSTANT Prop
C02(r) == CASE r.e = "Abnormal" -> r.oom /\ ~r.timeout
            [] r.e = "Probe" -> ~r.modified
            [] r.e = "Batch" -> r.crashes = 0 /\ r.timeouts = 0
            [] OTHER -> TRUE
C03(r) == (r.e = "Probe" /\ r.ok) => StructValid(r.sv)
C18(r) == (r.e = "Probe" /\ r.allocs) => AllocBounded(r)
Check(r) == CASE Prop = "C02" -> C02(r) [] Prop = "C03" -> C03(r) [] Prop = "C18" -> C18(r) [] OTHER -> FALSE
Conforms == ti <= N => Check(Recs[ti])
Spec == ShardInit /\ [][ShardNext]_tvars
=============================================================================
