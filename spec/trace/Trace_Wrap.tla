------------------------------ MODULE Trace_Wrap ------------------------------
(* Validates observations of the real PredictionSchemeWrap{Encoding,Decoding}Transform<int32_t>
   (drv_c16 wrap) against WrapTransform at word width 32 (H = 16).                              *)
EXTENDS TraceBase, WrapTransform
CONSTANT DecModel
Dec(l, h, pp, c) == IF DecModel = "written" THEN DecAsWritten(l, h, pp, c) ELSE DecWide(l, h, pp, c)
InDomain(r) == BoundsOK(r.lo, r.hi) /\ LeS(r.lo, r.o) /\ LeS(r.o, r.hi)
CheckA(r) ==
  IF r.e = "Wrap" THEN
     InDomain(r) => /\ r.initok
                    /\ Invertible(r.lo, r.hi, r.o, r.d)
                    /\ CorrInRange(r.lo, r.hi, r.c)
  ELSE TRUE
CheckB(r) ==
  IF r.e = "Wrap" /\ InDomain(r) THEN
       /\ Drift(r.c = Enc(r.lo, r.hi, r.o, r.p), "Enc")
       /\ Drift(r.d = Dec(r.lo, r.hi, r.p, r.c), "Dec")
  ELSE IF r.e = "WrapBounds" THEN Drift(r.initok = BoundsOK(r.lo, r.hi), "BoundsOK")
  ELSE TRUE
Conforms == ti <= N => (CheckA(Recs[ti]) /\ CheckB(Recs[ti]))
Spec == ShardInit /\ [][ShardNext]_tvars
=============================================================================
