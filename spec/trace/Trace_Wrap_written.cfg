CONSTANT H = 16
CONSTANT DecModel = "written"
SPECIFICATION Spec
INVARIANT Conforms
CHECK_DEADLOCK FALSE
