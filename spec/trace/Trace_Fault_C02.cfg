CONSTANT Prop = "C02"
SPECIFICATION Spec
INVARIANT Conforms
CHECK_DEADLOCK FALSE
