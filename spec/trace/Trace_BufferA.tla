----------------------------- MODULE Trace_BufferA -----------------------------
(* Level A of C17 for EncoderBuffer / DecoderBuffer call traces (drv_c17 buffer): the buffer pair is a FIFO of
   values.  Every accepted write is enqueued; every mirrored read must return the head of the queue; after
   the last read the reader stands at the writer's size; reads past the end fail or yield zeros; the input
   bytes are untouched.  One action per trace event; a line no action accepts rejects the trace.           *)
EXTENDS Integers, Sequences, TLC, Json, IOUtils, BitStream
Recs == ndJsonDeserialize(IOEnv.TRACE)
VARIABLES l, q, wsize, rpos
vars == <<l, q, wsize, rpos>>
Ev == Recs[l]
IsEvent(e) == l <= Len(Recs) /\ Recs[l].e = e /\ l' = l + 1
Enq(item) == q' = IF Ev.ok THEN Append(q, item) ELSE q
Init == l = 1 /\ q = <<>> /\ wsize = 0 /\ rpos = 0
TReset == IsEvent("Reset") /\ q = <<>> /\ q' = <<>> /\ wsize' = 0 /\ rpos' = 0
TWEncode == IsEvent("WEncode") /\ Enq([k |-> "bytes", v |-> Ev.bytes]) /\ wsize' = Ev.size /\ UNCHANGED rpos
TWVarint == IsEvent("WVarint") /\ Enq([k |-> "varint", v |-> Ev.d]) /\ wsize' = Ev.size /\ UNCHANGED rpos
TWStart == IsEvent("WStart") /\ Enq([k |-> "start", v |-> Ev.store]) /\ UNCHANGED <<wsize, rpos>>
TWPut == IsEvent("WPut") /\ Enq([k |-> "put", v |-> <<Ev.k, Ev.v>>]) /\ UNCHANGED <<wsize, rpos>>
TWEnd == IsEvent("WEnd") /\ Enq([k |-> "end", v |-> 0]) /\ wsize' = Ev.size /\ UNCHANGED rpos
TFlip == IsEvent("Flip") /\ Len(Ev.bytes) = wsize /\ UNCHANGED <<q, wsize, rpos>>
Deq(kind) == q # <<>> /\ Head(q).k = kind /\ q' = Tail(q)
TRDecode == IsEvent("RDecode") /\ Deq("bytes") /\ Ev.ok /\ Ev.bytes = Head(q).v /\ rpos' = Ev.pos /\ UNCHANGED wsize
TRVarint == IsEvent("RVarint") /\ Deq("varint") /\ Ev.ok /\ SameValue(Ev.d, Head(q).v) /\ rpos' = Ev.pos /\ UNCHANGED wsize
TRStart == IsEvent("RStart") /\ Deq("start") /\ Ev.ok /\ Ev.sized = Head(q).v /\ rpos' = Ev.pos /\ UNCHANGED wsize
TRGet == IsEvent("RGet") /\ Deq("put") /\ Ev.ok /\ <<Ev.k, Ev.v>> = Head(q).v /\ UNCHANGED <<wsize, rpos>>
TREnd == IsEvent("REnd") /\ Deq("end") /\ rpos' = Ev.pos /\ UNCHANGED wsize
TPastDecode == IsEvent("PastDecode") /\ q = <<>> /\ ~Ev.ok /\ ~Ev.okv /\ Ev.pos = rpos /\ UNCHANGED <<q, wsize, rpos>>
TPastGet == IsEvent("PastGet") /\ q = <<>> /\ (~Ev.ok \/ Ev.v = <<0, 0>>) /\ UNCHANGED <<q, wsize, rpos>>
TDone == IsEvent("Done") /\ q = <<>> /\ Ev.pos = Ev.size /\ Ev.size = wsize /\ rpos = wsize /\ Ev.input_unchanged /\ UNCHANGED <<q, wsize, rpos>>
Next == TReset \/ TWEncode \/ TWVarint \/ TWStart \/ TWPut \/ TWEnd \/ TFlip \/ TRDecode \/ TRVarint \/ TRStart
        \/ TRGet \/ TREnd \/ TPastDecode \/ TPastGet \/ TDone
Spec == Init /\ [][Next]_vars
=============================================================================
