------------------------------ MODULE Trace_Prims ------------------------------
(* Stateless observations of the primitive coders (drv_c17 varint | coders | rabs | pastend) checked against
   BitStream (varints, zig-zag), Rans / BitCoders at production constants (P = 256, L = 4096, 8-bit units).
   Level A (verdict): every value comes back, the reader ends where the writer ended (sentinel found),
   readers with an end yield zeros past it.  Level B (drift only): exact bytes, every rABS step.           *)
EXTENDS TraceBase, BitStream, BitCoders
Limb(h, l, j) == <<h[j], l[j]>>
\* bits of op j in coding order (most significant of the k bits first; k = 0 stands for EncodeBit)
OpBits(r, j) == LET kk == IF r.k[j] = 0 THEN 1 ELSE r.k[j]
                    b == BitsOfLimbs(<<r.ih[j], r.il[j]>>, kk)
                IN [t \in 1..kk |-> b[kk - t + 1]]
RECURSIVE Flat(_, _)
Flat(r, j) == IF j > Len(r.k) THEN <<>> ELSE OpBits(r, j) \o Flat(r, j + 1)
\* 32-bit little-endian words of a padded MSB-first bit string
WordBytes(bits, wi) == LET v(byteIdx) ==   \* byteIdx 0..3, little endian: byte 0 holds bits 25..32 of the word (LSBs)
                              LET base == 32 * wi + 8 * (3 - byteIdx)
                                  RECURSIVE Acc(_, _)
                                  Acc(t, a) == IF t > 8 THEN a ELSE Acc(t + 1, 2 * a + bits[base + t])
                              IN Acc(1, 0)
                       IN <<v(0), v(1), v(2), v(3)>>
RECURSIVE AllWords(_, _, _)
AllWords(bits, wi, n) == IF wi = n THEN <<>> ELSE WordBytes(bits, wi) \o AllWords(bits, wi + 1, n)
CheckA(r) ==
  CASE r.e = "Varint" -> /\ r.eok /\ r.dok /\ SameValue(r.rd, r.d) /\ r.pos = r.len
    [] r.e = "Coder" -> /\ r.startok /\ r.sentinel /\ r.oh = r.ih /\ r.ol = r.il /\ r.pos = r.size
    [] r.e = "RabsSeq" -> r.same
    [] r.e = "PastEnd" -> r.first_ok /\ (r.has_end => r.nonzero = 0)
    [] OTHER -> TRUE
CheckB(r) ==
  CASE r.e = "Varint" -> Drift(r.bytes = EncDigits(SymbolDigits(r.d, r.w, r.sg)), "varint bytes")
    [] r.e = "Coder" /\ r.hasbytes /\ r.coder = "rans" ->
         LET bits == Flat(r, 1) e == RansBitEncode(bits)
         IN Drift(r.bytes = <<e.p0>> \o EncDigits(DigitsOf(Len(e.payload))) \o e.payload, "rans bit encoder bytes")
    [] r.e = "Coder" /\ r.hasbytes /\ r.coder = "direct" ->
         LET bits == Flat(r, 1) n == DirectWords(bits)
         IN Drift(r.bytes = LE(4 * n, 4) \o AllWords(DirectPadded(bits), 0, n), "direct bit encoder bytes")
    [] r.e = "RabsW" -> LET s == RabsWrite([x |-> r.x0, out |-> <<>>], r.val, r.p0)
                        IN Drift(s.x = r.x1 /\ s.out = r.emit /\ StateInRange(r.x1), "rabs_write")
    [] r.e = "RabsR" -> LET buf == [j \in 1..r.off0 |-> IF j = r.off0 THEN r.next ELSE 0]
                            s == RabsRead([x |-> r.x0, off |-> r.off0], buf, r.p0)
                        IN Drift(s.val = r.val /\ s.d.x = r.x1 /\ s.d.off = r.off1, "rabs_read")
    [] r.e = "RabsEnd" -> Drift(WriteEnd([x |-> r.x, out |-> <<>>], 2) = r.tail, "ans_write_end")
    [] r.e = "RabsInit" -> LET s == ReadInit(r.tail, Len(r.tail), 2, TRUE)
                           IN Drift(s.ok = r.ok /\ (s.ok => s.d.x = r.x), "ans_read_init")
    [] OTHER -> TRUE
Conforms == ti <= N => (CheckA(Recs[ti]) /\ CheckB(Recs[ti]))
Spec == ShardInit /\ [][ShardNext]_tvars
=============================================================================
