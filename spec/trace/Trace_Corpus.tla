------------------------------ MODULE Trace_Corpus ------------------------------
(* C05: every stream of the frozen corpus (/verif/corpus: streams frozen once from the encoder over all methods, speeds,
   prediction schemes and layouts, plus the legacy files of testdata written by 0.9.1 .. 1.1.0 / 2.2 / 2.3 writers) decodes
   to its frozen ordered digest; header rewrites to unknown versions are refused with UNKNOWN_VERSION.            *)
EXTENDS TraceBase, Codec
CheckA(r) == CASE r.e = "Frozen" -> r.has_frozen => (FrozenOK(r.frozen, r.ok, r.now) /\ r.np = r.np_frozen /\ r.nf = r.nf_frozen)
               [] r.e = "Ver" -> VersionVerdictOK(r.type, r.maj, r.min, r.ok, r.code)
               [] OTHER -> TRUE
Conforms == ti <= N => CheckA(Recs[ti])
Spec == ShardInit /\ [][ShardNext]_tvars
=============================================================================
