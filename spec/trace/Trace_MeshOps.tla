------------------------------ MODULE Trace_MeshOps ------------------------------
(* Observations of the real mesh utilities (drv_c14) against the Level-A relations of module MeshOps.  *)
EXTENDS TraceBase, MeshOps
WF(r) == (r.e \in {"Build", "PcBuild", "Cleanup"} /\ r.ok) => (WellFormed(r.in) /\ WellFormed(r.out))
CheckA0(r) ==
  CASE r.e = "Build" -> r.ok => (SameAttributes(r.in, r.out) /\ SameBagTri(r.in, r.out) /\ NoDupValues(r.out) /\ NoDupPoints(r.out))
    \* Finalize(deduplicate = TRUE) merges points that are identical in every attribute (documented): the SET of points is preserved
    [] r.e = "PcBuild" -> r.ok => /\ SameAttributes(r.in, r.out)
                                  /\ IF r.dedup THEN /\ {PointTuple(r.in, p) : p \in 0..(r.in.np - 1)} = {PointTuple(r.out, p) : p \in 0..(r.out.np - 1)}
                                                     /\ NoDupValues(r.out) /\ NoDupPoints(r.out)
                                     ELSE r.in.np = r.out.np /\ r.in.pt = r.out.pt
    [] r.e = "Dedup2" -> r.out.np = r.in.np /\ r.out.sizes = r.in.sizes /\ r.out.pt = r.in.pt /\ r.out.faces = r.in.faces      \* idempotent
    [] r.e = "Cleanup" -> r.ok => CleanupOK(r.in, r.out, r.deg, r.dup, r.unused)
    [] r.e = "Strips" -> r.ok => StripsOK(r.in, IF r.mode = "restart" THEN TrisRestart(r.idx, r.restart) ELSE TrisDegenerate(r.idx), r.mode # "restart")
    [] OTHER -> TRUE
CheckA(r) == WF(r) /\ CheckA0(r)
Conforms == ti <= N => CheckA(Recs[ti])
Spec == ShardInit /\ [][ShardNext]_tvars
=============================================================================
