------------------------------ MODULE TraceBase ------------------------------
(* Common part of the observation-validating trace specs (stateless records).
   The driver writes one ndjson record per observed call of the implementation; TLC walks the file in
   NSHARDS independent chains (so that the BFS workers run in parallel) and evaluates the Level-A
   predicate of the extending module on every record.  Environment: TRACE (file), NSHARDS.
   Acceptance = TLC finishes without violating `Conforms` and has visited N states
   (checked by tools/vlib.py from the distinct-state count).                                     *)
EXTENDS Integers, Sequences, TLC, Json, IOUtils
Recs == ndJsonDeserialize(IOEnv.TRACE)
N == Len(Recs)
NSh == atoi(IOEnv.NSHARDS)
VARIABLES tk, ti
tvars == <<tk, ti>>
ShardInit == tk \in 1..NSh /\ ti = tk
ShardNext == ti + NSh <= N /\ ti' = ti + NSh /\ UNCHANGED tk
\* B-level disagreement is drift, reported but never a verdict: prints the record index, evaluates to TRUE
Drift(cond, what) == IF cond THEN TRUE ELSE PrintT(<<"DRIFT", what, ti>>)
=============================================================================
