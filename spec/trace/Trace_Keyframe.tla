----------------------------- MODULE Trace_Keyframe -----------------------------
(* Observations of the real KeyframeAnimation / KeyframeAnimationEncoder / KeyframeAnimationDecoder (drv_c20).
   Anim records: Level A RoundTripOK.  Hist records (replayed MC_Keyframe rows): the real class returns the ids and
   refusals of the model (drift) and every accepted track is retrievable under its id (Level A).                *)
EXTENDS TraceBase, Keyframe
\* must_encode: every integer track spans less than 2^30 (projection by the driver): inside the codec's reach a valid animation must encode
CheckA(r) == CASE r.e = "Anim" -> ((r.must_encode => r.eok) /\ (r.eok => (r.dok /\ RoundTripOK(r))))
               [] r.e = "Hist" -> r.retrievable
               [] OTHER -> TRUE
CheckB(r) == r.e = "Hist" => Drift(r.rets = r.model_rets /\ r.frames = r.model_frames, "KeyframeAnimation call history")
Conforms == ti <= N => (CheckA(Recs[ti]) /\ CheckB(Recs[ti]))
Spec == ShardInit /\ [][ShardNext]_tvars
=============================================================================
