CONSTANT Prop = "C09"
SPECIFICATION Spec
INVARIANT Conforms
CHECK_DEADLOCK FALSE
