SPECIFICATION Spec
INVARIANT Conforms
CHECK_DEADLOCK FALSE
