----------------------------- MODULE Trace_BufferB -----------------------------
(* Level B conformance of EncoderBuffer / DecoderBuffer call traces with the BitStream state machines:
   every logged result (ok flag, size(), decoded_size(), bytes, values) must be what the transcription
   computes.  A rejection here is drift (the code no longer works the way the mechanism spec says), not a
   verdict; the verdict is Trace_BufferA's.                                                              *)
EXTENDS Integers, Sequences, TLC, Json, IOUtils, BitStream
Recs == ndJsonDeserialize(IOEnv.TRACE)
VARIABLES l, w, r
vars == <<l, w, r>>
Ev == Recs[l]
IsEvent(e) == l <= Len(Recs) /\ Recs[l].e = e /\ l' = l + 1
Init == l = 1 /\ w = WInit /\ r = RInit(<<>>, 0)
TReset == IsEvent("Reset") /\ w' = WInit /\ r' = RInit(<<>>, 0)
TWEncode == IsEvent("WEncode") /\ LET x == WEncode(w, Ev.bytes) IN x.ok = Ev.ok /\ w' = x.w /\ Len(x.w.bytes) = Ev.size /\ UNCHANGED r
TWVarint == IsEvent("WVarint") /\ LET x == WVarint(w, SymbolDigits(Ev.d, Ev.w, Ev.sg)) IN x.ok = Ev.ok /\ w' = x.w /\ Len(x.w.bytes) = Ev.size /\ UNCHANGED r
TWStart == IsEvent("WStart") /\ LET x == WStartBits(w, Ev.n, Ev.store) IN x.ok = Ev.ok /\ w' = x.w /\ Len(x.w.bytes) = Ev.size /\ UNCHANGED r
TWPut == IsEvent("WPut") /\ LET x == WPutBits(w, BitsOfLimbs(Ev.v, Ev.k)) IN x.ok = Ev.ok /\ w' = x.w /\ UNCHANGED r
TWEnd == IsEvent("WEnd") /\ w' = WEndBits(w) /\ WActive(w) = Ev.ok /\ Len(w'.bytes) = Ev.size /\ UNCHANGED r
TFlip == IsEvent("Flip") /\ Ev.bytes = w.bytes /\ r' = RInit(Ev.bytes, Ev.ver) /\ UNCHANGED w
TRDecode == IsEvent("RDecode") /\ LET x == RDecode(r, Ev.n) IN x.ok = Ev.ok /\ (x.ok => x.bytes = Ev.bytes) /\ r' = x.r /\ x.r.pos = Ev.pos /\ UNCHANGED w
UnSym(d, widthBytes, signed) == IF signed THEN DigitsOfBits(UnZigZagBits(BitsOfDigits(d, 8 * widthBytes))) ELSE StripHigh(d)
TRVarint == IsEvent("RVarint") /\ LET x == RVarint(r, Ev.w) IN x.ok = Ev.ok /\ (x.ok => UnSym(x.digits, Ev.w, Ev.sg) = StripHigh(Ev.d)) /\ r' = x.r /\ x.r.pos = Ev.pos /\ UNCHANGED w
TRStart == IsEvent("RStart") /\ LET x == RStartBits(r, Ev.sized) IN x.ok = Ev.ok /\ r' = x.r /\ x.r.pos = Ev.pos /\ UNCHANGED w
TRGet == IsEvent("RGet") /\ LET x == RGetBits(r, Ev.k) IN x.ok = Ev.ok /\ x.v = BitsOfLimbs(Ev.v, Ev.k) /\ r' = x.r /\ UNCHANGED w
TREnd == IsEvent("REnd") /\ r' = REndBits(r) /\ r'.pos = Ev.pos /\ UNCHANGED w
TPastDecode == IsEvent("PastDecode") /\ RDecode(r, 1).ok = Ev.ok /\ RVarint(r, 4).ok = Ev.okv /\ UNCHANGED <<w, r>>
TPastGet == IsEvent("PastGet") /\ UNCHANGED <<w, r>>
TDone == IsEvent("Done") /\ r.pos = Ev.pos /\ UNCHANGED <<w, r>>
Next == TReset \/ TWEncode \/ TWVarint \/ TWStart \/ TWPut \/ TWEnd \/ TFlip \/ TRDecode \/ TRVarint \/ TRStart
        \/ TRGet \/ TREnd \/ TPastDecode \/ TPastGet \/ TDone
Spec == Init /\ [][Next]_vars
=============================================================================
