CONSTANTS P = 256 L = 4096 IOB = 8
SPECIFICATION Spec
INVARIANT Conforms
CHECK_DEADLOCK FALSE
