CONSTANT Prop = "C18"
SPECIFICATION Spec
INVARIANT Conforms
CHECK_DEADLOCK FALSE
