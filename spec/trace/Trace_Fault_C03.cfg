CONSTANT Prop = "C03"
SPECIFICATION Spec
INVARIANT Conforms
CHECK_DEADLOCK FALSE
