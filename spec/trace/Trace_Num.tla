-------------------------------- MODULE Trace_Num --------------------------------
(* Projected numeric observations (tools/project.py over drv_num output) checked against the Level-A clauses of
   C04 (Quant), C07 (Normal) and C12 (Explicit).  All quantities are integers in the units chosen by the projector:
   Quant:    errors and allowance in units of step/65536 (half a step = 32768)
   Normal:   angles in 1e-8 rad, length error in 1e-9
   Explicit: obs = <<component, input id, output id>> for every decoded coordinate of a two-tile scenario          *)
EXTENDS TraceBase
\* what was encoded successfully decodes (also with an unrelated attribute's transform skipped), and to the same bits either way
DecodesOK(r) == r.eok => (r.dok /\ r.other_skip_ok /\ r.other_skip_same)
CheckQuant(r) == DecodesOK(r) /\ ((r.eok /\ r.dok /\ r.n > 0) =>
    /\ r.nonfinite = 0
    /\ r.worst_err_u <= r.half_u + r.allow_u          \* at most half a step (+ float32 allowance)
    /\ r.worst_box_u <= r.allow_u                     \* never leaves the box by more than the allowance
    /\ r.bits_ok
    /\ r.worst_desc_u <= r.half_u + r.allow_u        \* the integers of the skip-transform view under the parameters the attribute describes itself with
    )
\* inputs with L1 norm <= 1e-6 are reported separately (tiny_inputs / worst_angle_tiny_u) so that they can be classified
CheckNormal(r) == (r.eok => r.dok) /\ ((r.eok /\ r.dok /\ r.n > 0) =>
    /\ r.nonfinite = 0
    /\ r.coord_oob = 0
    /\ r.skipok /\ r.bits_ok                         \* the octahedral coordinates are obtainable (transform skipped) and described as lying in the q-bit square
    /\ r.worst_len_ppb <= 1000                        \* | |n'| - 1 | <= 1e-6
    /\ r.worst_angle_u <= r.bound_u)
CheckNormalTiny(r) == (r.eok /\ r.dok /\ r.n > 0) => r.worst_angle_tiny_u <= r.bound_u
FunDep(obs) == \A a \in 1..Len(obs) : \A b \in 1..Len(obs) :
                  (obs[a][1] = obs[b][1] /\ obs[a][2] = obs[b][2]) => obs[a][3] = obs[b][3]
\* tiles_enc[j] => tiles_ok[j]: a tile that was encoded decodes (also with an unrelated attribute's transform skipped)
CheckExplicit(r) ==
  /\ \A j \in 1..Len(r.tiles_ok) : r.tiles_enc[j] => r.tiles_ok[j]
  /\ (\A j \in 1..Len(r.tiles_ok) : r.tiles_ok[j]) =>
    /\ FunDep(r.obs)                                  \* equal coordinate + equal parameters => equal decoded value, whatever the tile / method
    /\ r.worst_grid_u <= r.allow_u                    \* on the grid origin + k*range/(2^bits-1) of the CALLER's parameters
    /\ r.params_exact                                 \* the grid a decoder dequantises with IS the caller's: origin, range and bits are stored bit for bit
CONSTANT Clause
Check(r) == CASE r.e = "Quant" -> CheckQuant(r)
              [] r.e = "Normal" -> IF Clause = "tiny" THEN CheckNormalTiny(r) ELSE CheckNormal(r)
              [] r.e = "Explicit" -> CheckExplicit(r)
              [] OTHER -> TRUE
Conforms == ti <= N => Check(Recs[ti])
Spec == ShardInit /\ [][ShardNext]_tvars
=============================================================================
