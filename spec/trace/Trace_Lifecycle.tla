----------------------------- MODULE Trace_Lifecycle -----------------------------
(* Stateful validation of replayed call histories (drv_c06) and of multi-process determinism records.
   tab maps a (geometry, option set) key to the 64-bit hash of the bytes its FIRST encode produced; every later encode of the same key --
   on whichever object, after whichever history (failed calls, uncleared buffers, other geometries) -- must produce the same bytes.
   dtab does the same for decodes (stream hash -> ordered digest).                                                              *)
EXTENDS Integers, Sequences, TLC, Json, IOUtils
Recs == ndJsonDeserialize(IOEnv.TRACE)
VARIABLES l, tab, dtab, size
vars == <<l, tab, dtab, size>>
Ev == Recs[l]
IsEvent(e) == l <= Len(Recs) /\ Recs[l].e = e /\ l' = l + 1
Init == l = 1 /\ tab = [k \in {} |-> <<>>] /\ dtab = [k \in {} |-> <<>>] /\ size = 0
\* the two API levels select different defaults (e.g. the point cloud method), so a stream is identified by (api level, geometry, option set)
Key == <<Ev.api, Ev.g, Ev.o>>
Known(t, k) == k \in DOMAIN t
Put(t, k, v) == [x \in (DOMAIN t) \cup {k} |-> IF x = k THEN v ELSE t[x]]
\* a new history starts on fresh objects; the tables are global
TReset == IsEvent("Reset") /\ size' = 0 /\ UNCHANGED <<tab, dtab>>
TEncode == /\ IsEvent("Enc")
           /\ Ev.ok = (Ev.o # 3)                                           \* the invalid option set fails every time, valid ones succeed every time
           /\ Ev.before = size                                             \* nobody touched the buffer in between
           /\ IF Ev.ok THEN /\ Ev.after = size + Ev.len                    \* append-only: exactly the new stream is added
                            /\ (Known(tab, Key) => tab[Key] = Ev.hash)     \* same input, same bytes
                            /\ tab' = Put(tab, Key, Ev.hash)
                            /\ size' = Ev.after
                       ELSE /\ Ev.after = size /\ UNCHANGED <<tab, size>>   \* a failed encode leaves no trace in the buffer
           /\ UNCHANGED dtab
TClear == IsEvent("Clear") /\ size' = 0 /\ UNCHANGED <<tab, dtab>>
TDecode == /\ IsEvent("Dec") /\ Ev.ok
           /\ Ev.remaining = Ev.trail                                      \* exactly the stream is consumed
           /\ (Known(dtab, Ev.stream) => dtab[Ev.stream] = Ev.digest)      \* same bytes, same geometry in the same order
           /\ dtab' = Put(dtab, Ev.stream, Ev.digest)
           /\ UNCHANGED <<tab, size>>
\* the same case run in processes with different heap layouts / allocator fill patterns
TDet == IsEvent("Det") /\ Ev.a = Ev.b /\ Ev.a = Ev.c /\ UNCHANGED <<tab, dtab, size>>
Next == TReset \/ TEncode \/ TClear \/ TDecode \/ TDet
Spec == Init /\ [][Next]_vars
=============================================================================
