CONSTANT Prop = "C06"
SPECIFICATION Spec
INVARIANT Conforms
CHECK_DEADLOCK FALSE
