CONSTANT H = 16
CONSTANT DecModel = "wide"
SPECIFICATION Spec
INVARIANT Conforms
CHECK_DEADLOCK FALSE
