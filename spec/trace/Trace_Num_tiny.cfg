CONSTANT Clause = "tiny"
SPECIFICATION Spec
INVARIANT Conforms
CHECK_DEADLOCK FALSE
