------------------------------- MODULE Trace_Sym -------------------------------
(* Observations of the real rANS symbol coder (drv_c08) against Rans / SymbolCoding.
   Level A (verdict):  Sym      an input inside the coder's reach (must: values < 2^31; forced raw: <= 2^17 distinct symbols) is encoded;
                                EncodeSymbols ok => DecodeSymbols ok /\ same array /\ the sentinel that follows is
                                found at the position where the encoder stopped (exact consumption);
                       SymCrash the encoder crashed / aborted instead of returning false;
                       RansRow  RAnsDecoder<pb> returns the sequence RAnsEncoder<pb> coded (small-precision domain of MC_RansSym).
   Level B (drift):    RansRow bytes = model bytes; RansW = RansWrite at production precision; Create = Normalize.  *)
EXTENDS TraceBase
S(pb) == INSTANCE SymbolCoding WITH P <- 2^pb, L <- 4 * (2^pb), IOB <- 8
BS == INSTANCE BitStream
CheckA(r) ==
  CASE r.e = "Sym" -> (r.must => r.eok) /\ (r.eok => (r.dok /\ r.oh = r.ih /\ r.ol = r.il /\ r.sentinel /\ r.pos = r.blockend))
    [] r.e = "SymCrash" -> FALSE
    [] r.e = "RansRow" -> r.dok /\ r.dec = r.syms
    [] r.e = "Create" -> r.ok => r.dok            \* a table the encoder wrote is a table the decoder accepts
    [] OTHER -> TRUE
CheckB(r) ==
  CASE r.e = "RansRow" -> Drift(r.bytes = r.model, "RAnsEncoder bytes")
    [] r.e = "RansW" -> LET s == S(r.pb)!RansWrite([x |-> r.x0, out |-> <<>>], r.prob, r.cum)
                        IN Drift(s.x = r.x1 /\ s.out = r.emit /\ S(r.pb)!StateInRange(r.x1), "rans_write")
    [] r.e = "Create" ->
         LET hd == BS!DecDigits(r.bytes, 0, 1, 5)
             nsym == hd.digits[1] + (IF Len(hd.digits) > 1 THEN 128 * hd.digits[2] ELSE 0)
             tb == S(r.pb)!ReadTable(r.bytes, hd.pos, nsym, <<>>)
             small == r.pb <= 12 /\ S(r.pb)!Sum(r.freq) < 100000       \* exact-integer Normalize stays below 2^31
         IN /\ (r.ok => /\ Drift(tb.ok /\ tb.pos = Len(r.bytes), "serialised table parses")
                         /\ Drift(S(r.pb)!TableOK(S(r.pb)!Trim(r.freq), tb.pr), "TableOK")
                         /\ Drift(SubSeq(r.bytes, hd.pos + 1, Len(r.bytes)) = S(r.pb)!TableBytes(tb.pr, 1), "table bytes"))
            /\ (small => LET n == S(r.pb)!Normalize(r.freq) IN
                            /\ Drift(r.ok = n.ok, "Create result")
                            /\ (r.ok /\ n.ok) => Drift(tb.pr = n.pr, "normalised table"))
    [] OTHER -> TRUE
Conforms == ti <= N => (CheckA(Recs[ti]) /\ CheckB(Recs[ti]))
Spec == ShardInit /\ [][ShardNext]_tvars
=============================================================================
