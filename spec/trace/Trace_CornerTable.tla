--------------------------- MODULE Trace_CornerTable ---------------------------
(* Observations of the real CornerTable::Create (drv_c13) checked with the Level-A predicate CornerTableOK of
   module CornerTable; agreement with the transcription (Level B) is reported as drift only.               *)
EXTENDS TraceBase, CornerTable
Fn(s) == [c \in 0..(Len(s) - 1) |-> s[c + 1]]
AsCt(r) == [opp |-> Fn(r.opp), m |-> Fn(r.ctv), vc |-> r.vc, par |-> r.par]
\* the attribute connectivity derived from the table (MeshAttributeCornerTable over a seam-free attribute): it is built, every corner of a
\* non-degenerate face has an attribute vertex, and the vertices in use are below the reported count
\* ... and, the attribute being seam-free, two corners share an attribute vertex exactly when they share a vertex of the table (evaluated pairwise on lists
\* of up to 20 faces; on longer lists the driver's projection of the same relation, att_part_ok, stands in)
SamePartition(r) == \A a \in 1..Len(r.attv) : \A b \in 1..Len(r.attv) :
                       (r.attv[a] >= 0 /\ r.attv[b] >= 0 /\ r.ctv[a] >= 0 /\ r.ctv[b] >= 0) => ((r.attv[a] = r.attv[b]) <=> (r.ctv[a] = r.ctv[b]))
AttOK(r) == r.att_ok /\ r.att_inv = 0 /\ r.att_maxv < r.att_nv /\ r.att_part_ok /\ (Len(r.attv) <= 60 => SamePartition(r))
CheckA(r) == r.e = "CT" => (r.ok /\ Len(r.opp) = Len(r.f) /\ Len(r.ctv) = Len(r.f) /\ CornerTableOK(r.f, AsCt(r)) /\ AttOK(r))
CheckB(r) == (r.e = "CT" /\ r.ok /\ Len(r.f) <= 36) =>
                LET b == Create(r.f) IN
                Drift(Fn(r.opp) = b.opp /\ Fn(r.ctv) = b.m /\ r.vc = b.vc /\ r.par = b.par /\ r.iso = b.iso /\ r.deg = b.deg, "CornerTable::Create")
Conforms == ti <= N => (CheckA(Recs[ti]) /\ CheckB(Recs[ti]))
Spec == ShardInit /\ [][ShardNext]_tvars
=============================================================================
