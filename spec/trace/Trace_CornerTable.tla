--------------------------- MODULE Trace_CornerTable ---------------------------
(* Observations of the real CornerTable::Create (drv_c13) checked with the Level-A predicate CornerTableOK of
   module CornerTable; agreement with the transcription (Level B) is reported as drift only.               *)
EXTENDS TraceBase, CornerTable
Fn(s) == [c \in 0..(Len(s) - 1) |-> s[c + 1]]
AsCt(r) == [opp |-> Fn(r.opp), m |-> Fn(r.ctv), vc |-> r.vc, par |-> r.par]
\* the attribute connectivity derived from the table (MeshAttributeCornerTable over a seam-free attribute): it is built, every corner of a
\* non-degenerate face has an attribute vertex, and the vertices in use are below the reported count
\* ... and, the attribute being seam-free, two corners share an attribute vertex exactly when they share a vertex of the table (evaluated pairwise on lists
\* of up to 20 faces; on longer lists the driver's projection of the same relation, att_part_ok, stands in)
SamePartition(r) == \A a \in 1..Len(r.attv) : \A b \in 1..Len(r.attv) :
                       (r.attv[a] >= 0 /\ r.attv[b] >= 0 /\ r.ctv[a] >= 0 /\ r.ctv[b] >= 0) => ((r.attv[a] = r.attv[b]) <=> (r.ctv[a] = r.ctv[b]))
AttOK(r) == r.att_ok /\ r.att_inv = 0 /\ r.att_maxv < r.att_nv /\ r.att_part_ok /\ (Len(r.attv) <= 60 => SamePartition(r))
\* the table under an attribute with seams (every corner carries a value index s_val; s_av = its attribute vertex): for corners of non-degenerate faces
\*   corners of one attribute vertex belong to one table vertex and carry one value; that value is the vertex' entry (VertexParent);
\*   the left-most corner of an attribute vertex is one of its own corners;
\*   two corners of a table vertex that are neighbours across an edge on which both faces agree (at both ends) share their attribute vertex
NonDeg(r, c) == LET f == (c - 1) \div 3 IN r.f[3 * f + 1] # r.f[3 * f + 2] /\ r.f[3 * f + 1] # r.f[3 * f + 3] /\ r.f[3 * f + 2] # r.f[3 * f + 3]
NxS(c) == IF (c - 1) % 3 = 2 THEN c - 2 ELSE c + 1        \* 1-based corner positions in the record's sequences
PvS(c) == IF (c - 1) % 3 = 0 THEN c + 2 ELSE c - 1
SeamOK(r) == r.s_ok /\ Len(r.s_av) = Len(r.f) /\ Len(r.s_val) = Len(r.f) /\
   LET C == {c \in 1..Len(r.f) : NonDeg(r, c)} IN
   /\ \A c \in C : r.s_av[c] >= 0 /\ r.s_av[c] < Len(r.s_parent)
   /\ \A c \in C : r.s_parent[r.s_av[c] + 1] = r.s_val[c]
   /\ \A c1 \in C : \A c2 \in C : r.s_av[c1] = r.s_av[c2] => (r.ctv[c1] = r.ctv[c2] /\ r.s_val[c1] = r.s_val[c2])
   /\ \A v \in 1..Len(r.s_left) : r.s_left[v] >= 0 => (r.s_left[v] + 1 \in C /\ r.s_av[r.s_left[v] + 1] = v - 1)
   /\ \A c \in C : LET o == r.opp[PvS(c)] IN      \* the edge (corner c -> next corner) is opposite to the previous corner; across it lies corner Next(o) of the same vertex
        (o >= 0 /\ (o + 1) \in C) =>
           LET c2 == NxS(o + 1) IN
           (r.s_val[c] = r.s_val[c2] /\ r.s_val[NxS(c)] = r.s_val[PvS(c2)]) => r.s_av[c] = r.s_av[c2]
CheckA(r) == r.e = "CT" => (r.ok /\ Len(r.opp) = Len(r.f) /\ Len(r.ctv) = Len(r.f) /\ CornerTableOK(r.f, AsCt(r)) /\ AttOK(r) /\ (Len(r.f) <= 90 => SeamOK(r)))
CheckB(r) == (r.e = "CT" /\ r.ok /\ Len(r.f) <= 36) =>
                LET b == Create(r.f) IN
                Drift(Fn(r.opp) = b.opp /\ Fn(r.ctv) = b.m /\ r.vc = b.vc /\ r.par = b.par /\ r.iso = b.iso /\ r.deg = b.deg, "CornerTable::Create")
Conforms == ti <= N => (CheckA(Recs[ti]) /\ CheckB(Recs[ti]))
Spec == ShardInit /\ [][ShardNext]_tvars
=============================================================================
