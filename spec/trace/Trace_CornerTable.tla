--------------------------- MODULE Trace_CornerTable ---------------------------
(* Observations of the real CornerTable::Create (drv_c13) checked with the Level-A predicate CornerTableOK of
   module CornerTable; agreement with the transcription (Level B) is reported as drift only.               *)
EXTENDS TraceBase, CornerTable
Fn(s) == [c \in 0..(Len(s) - 1) |-> s[c + 1]]
AsCt(r) == [opp |-> Fn(r.opp), m |-> Fn(r.ctv), vc |-> r.vc, par |-> r.par]
\* the attribute connectivity derived from the table (MeshAttributeCornerTable over a seam-free attribute): it is built, every corner of a
\* non-degenerate face has an attribute vertex, and the vertices in use are below the reported count
AttOK(r) == r.att_ok /\ r.att_inv = 0 /\ r.att_maxv < r.att_nv
CheckA(r) == r.e = "CT" => (r.ok /\ Len(r.opp) = Len(r.f) /\ Len(r.ctv) = Len(r.f) /\ CornerTableOK(r.f, AsCt(r)) /\ AttOK(r))
CheckB(r) == (r.e = "CT" /\ r.ok /\ Len(r.f) <= 36) =>
                LET b == Create(r.f) IN
                Drift(Fn(r.opp) = b.opp /\ Fn(r.ctv) = b.m /\ r.vc = b.vc /\ r.par = b.par /\ r.iso = b.iso /\ r.deg = b.deg, "CornerTable::Create")
Conforms == ti <= N => (CheckA(Recs[ti]) /\ CheckB(Recs[ti]))
Spec == ShardInit /\ [][ShardNext]_tvars
=============================================================================
