------------------------------ MODULE Trace_Oct ------------------------------
(* Validates observations of the real canonicalised octahedral prediction transforms (drv_c16 oct)
   against OctTransform instantiated at the record's quantisation.                               *)
EXTENDS TraceBase
T(q) == INSTANCE OctTransform WITH Q <- q
P(x) == <<x[1], x[2]>>
CheckA(r) ==
  \* o and p are what the REAL quantiser emitted (OctahedronToolBox::IntegerVectorToQuantizedOctahedralCoords): "the unique representative of a direction
  \* that the encoder emits" is whatever it emits -- that it is the specification's canonical point is checked as drift below, not assumed here
  IF r.e = "Oct" THEN
         /\ T(r.q)!OctInvertible(P(r.o), P(r.d))
         /\ T(r.q)!OctCorrInRange(P(r.c))
  ELSE IF r.e = "OctInit" THEN r.ok
  ELSE TRUE
CheckB(r) ==
  IF r.e = "Oct" THEN /\ Drift(P(r.c) = T(r.q)!OctEnc(P(r.o), P(r.p)), "OctEnc")
                      /\ Drift(P(r.d) = T(r.q)!OctDec(P(r.p), P(r.c)), "OctDec")
                      /\ Drift(T(r.q)!IsCanonical(P(r.o)) /\ T(r.q)!IsCanonical(P(r.p)), "canonical")
  ELSE TRUE
Conforms == ti <= N => (CheckA(Recs[ti]) /\ CheckB(Recs[ti]))
Spec == ShardInit /\ [][ShardNext]_tvars
=============================================================================
