CONSTANT Prop = "C10"
SPECIFICATION Spec
INVARIANT Conforms
CHECK_DEADLOCK FALSE
