--------------------------------- MODULE Trace_IO ---------------------------------
(* C15: write -> read through the library's OBJ / PLY / STL encoders and decoders (and through the command-line tools).
   Value ids were assigned by the driver with the format's tolerance; TLC checks the structure (Geometry!Equivalent style bag
   equality of triangles of per-corner value tuples, or of points) and that the worst residual stays inside the format's bound:
   OBJ: |a-b| <= 0.5e-6 (+ 1 ulp32, already subtracted by the driver) -> excess_e9 <= 500;  PLY / STL: bit exact -> 0.        *)
EXTENDS TraceBase, Geometry
SameTriBag(A, B) == SubBagTri(A, Faces(A), B, Faces(B)) /\ SubBagTri(B, Faces(B), A, Faces(A))
SamePtSet(A, B) == {PointTuple(A, p) : p \in 0..(A.np - 1)} = {PointTuple(B, p) : p \in 0..(B.np - 1)}
CheckA(r) == r.e = "IO" =>
   /\ r.ok
   /\ WellFormed(r.in) /\ WellFormed(r.out)
   /\ SameAttributes(r.in, r.out)
   \* clouds: PLY stores one vertex per point, in order (coincident samples stay separate points); the OBJ reader merges points that
   \* agree in every attribute (obj_decoder.cc deduplicates by design), so only the set of points is demanded there
   /\ (IF r.mesh THEN SameTriBag(r.in, r.out)
       ELSE IF r.fmt = "ply" THEN r.in.np = r.out.np /\ r.in.pt = r.out.pt
       ELSE SamePtSet(r.in, r.out))
   /\ r.excess_e9 <= (IF r.fmt = "obj" THEN 500 ELSE 0)
Conforms == ti <= N => CheckA(Recs[ti])
Spec == ShardInit /\ [][ShardNext]_tvars
=============================================================================
