----------------------------- MODULE Trace_Metadata -----------------------------
(* Observations of the real metadata coder (drv_c11): direct MetadataEncoder/MetadataDecoder calls and the full
   codec (point clouds and meshes, every method).
   Level A (verdict): the encoder reported success => the decoder succeeded and returned the same tree
   (same names, byte-exact values, same nesting, same attribute metadata ids).
   Level B (drift): the encoder's verdict and bytes agree with module Metadata (MaxNameLen = 255).        *)
EXTENDS TraceBase
M == INSTANCE Metadata WITH MaxNameLen <- 255, Propagate <- TRUE, AcceptEmpty <- TRUE, MaxLevel <- 1000
\* attribute metadata is keyed by attribute unique id: the decoded geometry must still have the attributes under those ids
\* "Conc": the kept streams decoded by four threads at once -- every decode returns the tree the decode on its own returned
CheckA(r) == /\ r.e = "Meta" => (r.eok => (r.dok /\ r.out = r.tree /\ r.outatts = r.atts /\ r.out_uids = r.in_uids))
             /\ r.e = "Conc" => r.mismatches = 0
CheckB(r) == (r.e = "Meta" /\ r.via = "direct") =>
      /\ (r.hasmodel => Drift(r.eok = r.model_eok, "encoder verdict vs MC row"))
      /\ (r.hasbytes /\ r.eok) => Drift(r.bytes = r.model_bytes, "metadata bytes vs MC row")
Conforms == ti <= N => (CheckA(Recs[ti]) /\ CheckB(Recs[ti]))
Spec == ShardInit /\ [][ShardNext]_tvars
=============================================================================
