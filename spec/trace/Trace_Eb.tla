--------------------------------- MODULE Trace_Eb ---------------------------------
(* The Edgebreaker model bound to the real encoder (drv_eb): for every nice triangle list of the model's domain the real standard-traversal encoder
   must round-trip (Level A: Equivalent) and -- as drift, not verdict -- emit exactly the symbol string, topology split events and start-face bits
   that module Edgebreaker computes.                                                                                                       *)
EXTENDS TraceBase, Geometry
CheckA(r) == r.e = "Eb" => (r.eok => (r.dok /\ Equivalent(r.in, r.out, "eb", TRUE)))
CheckB(r) == r.e = "Eb" => /\ Drift(r.eok /\ r.parsed, "encoder accepts the nice list")
                           /\ (r.parsed => /\ Drift(r.syms = r.model_syms, "symbol string")
                                           /\ Drift(r.splits = r.model_splits, "topology split events")
                                           /\ Drift(r.sb = r.model_sb, "start-face bits"))
Conforms == ti <= N => (CheckA(Recs[ti]) /\ CheckB(Recs[ti]))
Spec == ShardInit /\ [][ShardNext]_tvars
=============================================================================
