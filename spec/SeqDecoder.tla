------------------------------ MODULE SeqDecoder ------------------------------
(* The sequential mesh connectivity DECODER on arbitrary field values (MeshSequentialDecoder::DecodeConnectivity and
   DecodeAndDecompressIndices, compression/mesh/mesh_sequential_decoder.cc), the second semantic fault space of C02 / C03 next to
   module EbDecoder: declared face and point counts that do not fit the indices, index differences that leave the index range.
     method 1 (stored indices)      the width of an index follows from the declared point count: < 2^8 one byte, < 2^16 two bytes, < 2^21 a
                                    varint, else four bytes -- the model sees the decoded numbers, the assembler picks the width
     method 0 (compressed indices)  3 * faces symbols; symbol = (|d| << 1) | sign; index = previous index + d, starting from 0; a negative
                                    result is refused, a sum above INT32_MAX is refused
   After either branch every face must name existing points (finding F5: the check was missing; fix b797de9).
   Level B (predictions = drift); the verdict on an assembled stream is Level A of C02 / C03 on what the real decoder did.          *)
EXTENDS Integers, Sequences
MaxI32 == 2147483647
\* index differences as the decoder reconstructs them from symbols
RECURSIVE Rebuild(_,_,_)
Rebuild(syms, last, acc) ==
  IF syms = <<>> THEN [ok |-> TRUE, idx |-> acc] ELSE
  LET e == Head(syms) d == e \div 2 IN
  IF e % 2 = 1 THEN IF d > last THEN [ok |-> FALSE, idx |-> acc] ELSE Rebuild(Tail(syms), last - d, Append(acc, last - d))
  ELSE IF d > MaxI32 - last THEN [ok |-> FALSE, idx |-> acc] ELSE Rebuild(Tail(syms), last + d, Append(acc, last + d))
\* vals: method 1: the stored indices; method 0: the symbols.  Len(vals) = 3 * nf (the assembler writes exactly what is declared)
Decode(nf, np, method, vals) ==
  IF method \notin {0, 1} THEN
     \* any other method byte takes the stored-index branch (the code tests `== 0` only)
     [out |-> "acc", np |-> np, faces |-> vals]
  ELSE LET r == IF method = 0 THEN Rebuild(vals, 0, <<>>) ELSE [ok |-> TRUE, idx |-> vals] IN
  IF ~r.ok THEN [out |-> "rej:index-difference", np |-> 0, faces |-> <<>>]
  ELSE IF \E i \in 1..Len(r.idx) : r.idx[i] >= np THEN [out |-> "rej:face-index", np |-> 0, faces |-> <<>>]
  ELSE [out |-> "acc", np |-> np, faces |-> r.idx]
ConnValid(r) == r.out = "acc" => \A i \in 1..Len(r.faces) : r.faces[i] \in 0..(r.np - 1)
=============================================================================
