------------------------------- MODULE BitCoders -------------------------------
(* Level-B transcriptions of the binary coders built on Rans / plain words:
     RAnsBitEncoder / RAnsBitDecoder  (bit_coders/rans_bit_{encoder,decoder}.cc)
     DirectBitEncoder / DirectBitDecoder (bit_coders/direct_bit_{encoder,decoder}.{h,cc})
   Bits are sequences over {0,1} in the order the caller coded them.                             *)
EXTENDS Integers, Sequences, Rans
Count(bits, b) == LET RECURSIVE C(_) C(s) == IF s = <<>> THEN 0 ELSE (IF Head(s) = b THEN 1 ELSE 0) + C(Tail(s)) IN C(bits)
\* RAnsBitEncoder::EndEncoding: zero probability from the counts, clamped to [1, P-1]
\* (the C++ computes uint32((c0/total)*P + 0.5) in double; exact for all counts < 2^32, see DESIGN C17)
ZeroProb(bits) == LET c0 == Count(bits, 0)
                      total == IF Len(bits) = 0 THEN 1 ELSE Len(bits)
                      raw == (2 * c0 * P + total) \div (2 * total)
                      cl == IF raw < P - 1 THEN raw ELSE P - 1
                  IN IF cl = 0 THEN 1 ELSE cl
\* bits are written last-to-first so that the decoder pops them first-to-last
RECURSIVE WriteAll(_, _, _)
WriteAll(st, bits, p0) == IF bits = <<>> THEN st
                          ELSE WriteAll(RabsWrite(st, bits[Len(bits)], p0), SubSeq(bits, 1, Len(bits) - 1), p0)
RansBitEncode(bits) == LET p0 == ZeroProb(bits)
                           st == WriteAll([x |-> L, out |-> <<>>], bits, p0)
                       IN [p0 |-> p0, payload |-> WriteEnd(st, 2)]
RECURSIVE ReadN(_, _, _, _, _)
ReadN(d, buf, p0, n, acc) == IF n = 0 THEN [bits |-> acc, d |-> d]
                             ELSE LET r == RabsRead(d, buf, p0) IN ReadN(r.d, buf, p0, n - 1, Append(acc, r.val))
RansBitDecode(p0, payload, n) == LET ini == ReadInit(payload, Len(payload), 2, TRUE)
                                 IN IF ~ini.ok THEN [ok |-> FALSE, bits |-> <<>>]
                                    ELSE [ok |-> TRUE, bits |-> ReadN(ini.d, payload, p0, n, <<>>).bits]

\* DirectBit: MSB-first packing into 32-bit words, one (possibly empty) trailing word always written;
\* result as the number of payload bytes and the padded bit string
DirectWords(bits) == (Len(bits) \div 32) + 1
DirectPadded(bits) == bits \o [j \in 1..(32 * DirectWords(bits) - Len(bits)) |-> 0]
DirectSizeField(bits) == 4 * DirectWords(bits)
=============================================================================
