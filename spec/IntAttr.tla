------------------------------- MODULE IntAttr -------------------------------
(* One integer attribute of a sequentially coded point cloud, as SequentialIntegerAttributeDecoder reads it (DecodeValues / DecodeIntegerValues /
   StoreValues; prediction_scheme_decoder_factory.h; PredictionSchemeDeltaDecoder; PredictionSchemeWrapDecodingTransform).  The stream part:
     i8 method [ i8 transform ]  u8 compressed  ( symbol block | u8 bytes-per-value, values )  [ i32 lo, i32 hi ]
   method      outside -2 .. 6 refused; -2 = no prediction; EVERYTHING else in a point cloud (including -1 "undefined" and the mesh schemes 1..6) falls
               back to delta coding -- there is no mesh to predict from;
   transform   read only when method # -2; outside -1 .. 3 refused; only 1 (wrap) creates a scheme, every other value silently means "no prediction";
   compressed  > 0: the values are one symbol block; 0: a byte count nb per value follows, then nb bytes per value (little endian, upper bytes stay 0;
               nb > 4 refused because 4 bytes per value is all the storage holds; nb = 0 reads nothing);
   the unsigned values are mapped to signed ones (even -> v/2, odd -> -(v+1)/2) -- also under the wrap transform, whose corrections are signed;
   wrap        lo > hi refused; hi - lo >= 2^31 - 1 refused; value = clamp(previous value, lo, hi) + correction, taken back into [lo, hi] by one
               +- (hi - lo + 1); the first value is predicted from 0; all components share lo / hi;
   store       the int32 results are cast to the attribute's declared type (int8 .. uint32); a non-integer type is refused.
   Decode returns accept(values per point) or reject(reason).  Small values only (no 32-bit overflow in this module; the word-level behaviour of the
   transform is module WrapTransform).  Level B (drift) against the real decoder over streams assembled from the rows of MC_IntAttr.            *)
EXTENDS Integers, Sequences
SymToSigned(u) == IF u % 2 = 0 THEN u \div 2 ELSE -(u \div 2) - 1
Pow256(n) == IF n = 0 THEN 1 ELSE IF n = 1 THEN 256 ELSE IF n = 2 THEN 65536 ELSE 16777216
Clamp(p, lo, hi) == IF p > hi THEN hi ELSE IF p < lo THEN lo ELSE p
Unwrap(p, c, lo, hi) == LET v == Clamp(p, lo, hi) + c  d == hi - lo + 1 IN IF v > hi THEN v - d ELSE IF v < lo THEN v + d ELSE v
\* data types (draco::DataType): 1 int8, 2 uint8, 3 int16, 4 uint16, 5 int32, 6 uint32; everything else is not an integer type
Cast(v, dt) == CASE dt = 1 -> ((v + 128) % 256) - 128  [] dt = 2 -> v % 256  [] dt = 3 -> ((v + 32768) % 65536) - 32768  [] dt = 4 -> v % 65536  [] OTHER -> v
RECURSIVE Delta(_, _, _, _, _, _)
\* corrections c (flat, NC per point) -> values; prev = the previous point's values (zeros for the first)
Delta(c, i, NC, prev, lo, hi) ==
  IF i > Len(c) THEN <<>>
  ELSE LET cur == [k \in 1..NC |-> Unwrap(prev[k], c[i + k - 1], lo, hi)] IN cur \o Delta(c, i + NC, NC, cur, lo, hi)
Decode(method, transform, compressed, nb, syms, lo, hi, NC, dt) ==
  IF method < -2 \/ method >= 7 THEN [out |-> "rej:method", vals |-> <<>>]
  ELSE IF method # -2 /\ (transform < -1 \/ transform >= 4) THEN [out |-> "rej:transform", vals |-> <<>>]
  ELSE IF compressed = 0 /\ nb > 4 /\ Len(syms) > 0 THEN [out |-> "rej:bytes-per-value", vals |-> <<>>]
  ELSE
    LET scheme == method # -2 /\ transform = 1
        u == IF compressed > 0 \/ nb = 4 THEN syms ELSE [i \in 1..Len(syms) |-> IF nb = 0 THEN 0 ELSE syms[i] % Pow256(nb)]
        s == [i \in 1..Len(u) |-> SymToSigned(u[i])]
    IN IF scheme /\ lo > hi THEN [out |-> "rej:wrap-bounds", vals |-> <<>>]
       ELSE LET v == IF scheme THEN Delta(s, 1, NC, [k \in 1..NC |-> 0], lo, hi) ELSE s IN
            IF dt \notin 1..6 THEN [out |-> "rej:store", vals |-> <<>>]
            ELSE IF dt = 6 /\ \E i \in 1..Len(v) : v[i] < 0 THEN [out |-> "any:uint32-of-negative", vals |-> <<>>]
            ELSE [out |-> "acc", vals |-> [i \in 1..Len(v) |-> Cast(v[i], dt)]]
\* design check: under the wrap transform every decoded value lies in [lo, hi] whatever the corrections are, provided they are within one period
InRange(c, NC, lo, hi) == LET v == Delta(c, 1, NC, [k \in 1..NC |-> 0], lo, hi) IN \A i \in 1..Len(v) : lo <= v[i] /\ v[i] <= hi
=============================================================================
