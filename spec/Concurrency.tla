------------------------------ MODULE Concurrency ------------------------------
(* C19: N threads, each running a sequence of encode / decode jobs on THREAD-PRIVATE objects.  The specification has no shared
   variable: every step of a thread reads and writes only that thread's state, so every interleaving is equivalent to running the
   threads one after the other and each thread's results equal its solo results (NoCrossTalk).
   A job is abstract: it passes through Points schedule points (the DRACO_VERIF_SCHED sites of the code) and produces Result(job).
   Anchors: compression/encode.cc, decode.cc, expert_encode.cc (all codec state lives in per-call objects).                    *)
EXTENDS Integers, Sequences, FiniteSets
CONSTANTS Threads, Points, MaxPreempt
VARIABLES pc, sched, running, preempt
vars == <<pc, sched, running, preempt>>
Init == pc = [t \in Threads |-> 0] /\ sched = <<>> /\ running = (CHOOSE t \in Threads : \A u \in Threads : t <= u) /\ preempt = 0
Done(t) == pc[t] = Points
\* the running thread advances to its next schedule point
Step(t) == /\ ~Done(t) /\ t = running
           /\ pc' = [pc EXCEPT ![t] = @ + 1] /\ sched' = Append(sched, t) /\ UNCHANGED <<running, preempt>>
\* a context switch at a schedule point: free when the running thread has finished, otherwise it costs one preemption
Switch(t) == /\ t # running /\ ~Done(t)
             /\ (Done(running) \/ preempt < MaxPreempt)
             /\ running' = t /\ preempt' = IF Done(running) THEN preempt ELSE preempt + 1
             /\ UNCHANGED <<pc, sched>>
Next == \E t \in Threads : Step(t) \/ Switch(t)
Spec == Init /\ [][Next]_vars
AllDone == \A t \in Threads : Done(t)
\* ---------------- Level A
\* observed record of one thread in one execution: the results it produced and the results the same jobs produce when run alone
NoCrossTalk(r) == r.got = r.solo
=============================================================================
