----------------------------- MODULE OctTransform -----------------------------
(* PredictionSchemeNormalOctahedronCanonicalized{Encoding,Decoding}Transform.
   Anchors: prediction_scheme_normal_octahedron_canonicalized_{transform_base,encoding_transform,
   decoding_transform}.h.   Level B = OctEnc / OctDec;  Level A = OctInvertible, OctCorrInRange. *)
EXTENDS Integers, Octahedron

RotCount(p) ==
  LET sx == p[1] sy == p[2]
  IN IF sx = 0 THEN (IF sy = 0 THEN 0 ELSE IF sy > 0 THEN 3 ELSE 1)
     ELSE IF sx > 0 THEN (IF sy >= 0 THEN 2 ELSE 1)
     ELSE (IF sy <= 0 THEN 0 ELSE 3)
Rot(p, n) == CASE n = 1 -> <<p[2], -p[1]>>
               [] n = 2 -> <<-p[1], -p[2]>>
               [] n = 3 -> <<-p[2], p[1]>>
               [] OTHER -> p
InBottomLeft(p) == (p[1] = 0 /\ p[2] = 0) \/ (p[1] < 0 /\ p[2] <= 0)

OctEnc(orig, pred) ==
  LET o0 == <<orig[1] - Ctr, orig[2] - Ctr>>
      p0 == <<pred[1] - Ctr, pred[2] - Ctr>>
      ind == IsInDiamond(p0[1], p0[2])
      o1 == IF ind THEN o0 ELSE InvertDiamond(o0[1], o0[2])
      p1 == IF ind THEN p0 ELSE InvertDiamond(p0[1], p0[2])
      bl == InBottomLeft(p1)
      rc == RotCount(p1)
      o2 == IF bl THEN o1 ELSE Rot(o1, rc)
      p2 == IF bl THEN p1 ELSE Rot(p1, rc)
  IN <<MakePositive(o2[1] - p2[1]), MakePositive(o2[2] - p2[2])>>

OctDec(pred, corr) ==
  LET p0 == <<pred[1] - Ctr, pred[2] - Ctr>>
      ind == IsInDiamond(p0[1], p0[2])
      p1 == IF ind THEN p0 ELSE InvertDiamond(p0[1], p0[2])
      bl == InBottomLeft(p1)
      rc == RotCount(p1)
      p2 == IF bl THEN p1 ELSE Rot(p1, rc)
      o2 == <<ModMax(p2[1] + corr[1]), ModMax(p2[2] + corr[2])>>
      o1 == IF bl THEN o2 ELSE Rot(o2, (4 - rc) % 4)
      o0 == IF ind THEN o1 ELSE InvertDiamond(o1[1], o1[2])
  IN <<o0[1] + Ctr, o0[2] + Ctr>>

\* ---------------- Level A ----------------
InSquare(pt) == pt[1] \in 0..MaxV /\ pt[2] \in 0..MaxV
IsCanonical(pt) == InSquare(pt) /\ Canon(pt[1], pt[2]) = pt
OctCorrInRange(c) == c[1] \in 0..(MaxQ - 1) /\ c[2] \in 0..(MaxQ - 1)
OctInvertible(orig, dec) == dec = orig
=============================================================================
