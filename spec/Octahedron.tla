------------------------------ MODULE Octahedron ------------------------------
(* Integer octahedron toolbox at quantisation q (2..30).
   Anchor: compression/attributes/normal_compression_utils.h (OctahedronToolBox).
   All intermediate values stay below 2^31 for in-range inputs, so plain TLC integers suffice. *)
EXTENDS Integers
CONSTANT Q
MaxQ == 2^Q - 1            \* max_quantized_value_  (modulus of the correction arithmetic)
MaxV == MaxQ - 1           \* max_value_            (largest coordinate)
Ctr == MaxV \div 2         \* center_value_
Abs(x) == IF x < 0 THEN -x ELSE x

\* CanonicalizeOctahedralCoords
Canon(s, t) ==
  IF (s = 0 /\ t = 0) \/ (s = 0 /\ t = MaxV) \/ (s = MaxV /\ t = 0) THEN <<MaxV, MaxV>>
  ELSE IF s = 0 /\ t > Ctr THEN <<s, Ctr - (t - Ctr)>>
  ELSE IF s = MaxV /\ t < Ctr THEN <<s, Ctr + (Ctr - t)>>
  ELSE IF t = MaxV /\ s < Ctr THEN <<Ctr + (Ctr - s), t>>
  ELSE IF t = 0 /\ s > Ctr THEN <<Ctr - (s - Ctr), t>>
  ELSE <<s, t>>

\* IntegerVectorToQuantizedOctahedralCoords; precondition |x|+|y|+|z| = Ctr
IntVecToOct(x, y, z) ==
  IF x >= 0 THEN Canon(y + Ctr, z + Ctr)
  ELSE Canon(IF y < 0 THEN Abs(z) ELSE MaxV - Abs(z),
             IF z < 0 THEN Abs(y) ELSE MaxV - Abs(y))

\* the integer vector a pair of octahedral coordinates stands for (inverse of IntVecToOct on canonical points):
\* mirrors OctahedralCoordsToUnitVector on the exact lattice (before normalisation)
OctToIntVec(s, t) ==
  LET y == s - Ctr  z == t - Ctr  x == Ctr - Abs(y) - Abs(z)
  IN IF x >= 0 THEN <<x, y, z>>
     ELSE \* left hemisphere: fold the corners back over the diamond edges
          LET xo == -x
              y2 == IF y < 0 THEN Abs(z) - Ctr ELSE Ctr - Abs(z)     \* sign of y kept, magnitude Ctr-|z|
              z2 == IF z < 0 THEN Abs(y) - Ctr ELSE Ctr - Abs(y)
          IN <<x, y2, z2>>

IsInDiamond(s, t) == Abs(s) + Abs(t) <= Ctr

\* InvertDiamond, as written (unsigned steps never overflow for |s|,|t| <= Ctr, so they are exact)
InvertDiamond(s, t) ==
  LET ss == IF s >= 0 /\ t >= 0 THEN 1 ELSE IF s <= 0 /\ t <= 0 THEN -1 ELSE IF s > 0 THEN 1 ELSE -1
      st == IF s >= 0 /\ t >= 0 THEN 1 ELSE IF s <= 0 /\ t <= 0 THEN -1 ELSE IF t > 0 THEN 1 ELSE -1
      cs == ss * Ctr  ct == st * Ctr
      us == s + s - cs  ut == t + t - ct
      us2 == IF ss * st >= 0 THEN -ut ELSE ut
      ut2 == IF ss * st >= 0 THEN -us ELSE us
      rs == us2 + cs  rt == ut2 + ct
      \* C++ '/ 2' truncates toward zero
      half(v) == IF v >= 0 THEN v \div 2 ELSE -((-v) \div 2)
  IN <<half(rs), half(rt)>>

ModMax(x) == IF x > Ctr THEN x - MaxQ ELSE IF x < -Ctr THEN x + MaxQ ELSE x
MakePositive(x) == IF x < 0 THEN x + MaxQ ELSE x
=============================================================================
