-------------------------------- MODULE Pipeline --------------------------------
(* The stage order of one encode / decode call as the DRACO_VERIF_SCHED sites report it (point_cloud_encoder.cc, point_cloud_decoder.cc,
   symbol_encoding.cc, symbol_decoding.cc):
     encode:  enc:header , enc:geometry , enc:attributes   (each site marks the END of its stage) with any number of enc:symbols after
              enc:header (connectivity and attribute data are entropy coded); a failed call stops somewhere on the way
     decode:  dec:header , dec:geometry                     with any number of dec:symbols after dec:header (the connectivity is decoded
              between the two sites, the attributes after the second)
   A call reports events of its own kind only.  Level B (mechanism): checked as drift on recorded calls (Trace_Pipeline).            *)
EXTENDS Sequences, SequencesExt
Core(ev, sym) == SelectSeq(ev, LAMBDA e : e # sym)
FirstIndex(ev, x) == IF \E i \in 1..Len(ev) : ev[i] = x THEN CHOOSE i \in 1..Len(ev) : ev[i] = x /\ \A j \in 1..(i - 1) : ev[j] # x ELSE 0
EncStages == <<"enc:header", "enc:geometry", "enc:attributes">>
DecStages == <<"dec:header", "dec:geometry">>
EncodeCallOK(ev, ok) ==
  LET core == Core(ev, "enc:symbols") g == FirstIndex(ev, "enc:header") IN
  /\ \A i \in 1..Len(ev) : ev[i] \in {"enc:header", "enc:geometry", "enc:attributes", "enc:symbols"}
  /\ IsPrefix(core, EncStages)
  /\ (ok => core = EncStages)
  /\ \A i \in 1..Len(ev) : ev[i] = "enc:symbols" => (g > 0 /\ i > g)
DecodeCallOK(ev, ok) ==
  LET core == Core(ev, "dec:symbols") h == FirstIndex(ev, "dec:header") IN
  /\ \A i \in 1..Len(ev) : ev[i] \in {"dec:header", "dec:geometry", "dec:symbols"}
  /\ IsPrefix(core, DecStages)
  /\ (ok => core = DecStages)
  /\ \A i \in 1..Len(ev) : ev[i] = "dec:symbols" => (h > 0 /\ i > h)
=============================================================================
