------------------------------- MODULE Words -------------------------------
(* Two's-complement machine words of width 2*H bits as limb pairs <<hi, lo>>, each limb in
   0 .. 2^H - 1.  TLC integers are 32-bit and TLC throws on overflow, so 32-bit C++ arithmetic
   (int32_t / uint32_t in bit_utils.h, math_utils.h, the wrap transform) is specified on limbs
   with H = 16 for trace validation and with H = 3 (6-bit words) for exhaustive model checking.
   The same operator definitions are used at both sizes.                                       *)
EXTENDS Integers
CONSTANT H
B == 2^H                       \* limb base
HalfB == 2^(H-1)
Word == (0..(B-1)) \X (0..(B-1))
Zero == <<0, 0>>
One == <<0, 1>>
MinW == <<HalfB, 0>>           \* most negative signed word
MaxW == <<HalfB - 1, B - 1>>   \* most positive signed word

Add(a, b) == LET lo == a[2] + b[2]
                 hi == a[1] + b[1] + (lo \div B)
             IN <<hi % B, lo % B>>              \* modulo 2^(2H): what uint32_t '+' does
Not(a) == <<B - 1 - a[1], B - 1 - a[2]>>
Neg(a) == Add(Not(a), One)
Sub(a, b) == Add(a, Neg(b))
IsNeg(a) == a[1] >= HalfB
\* signed comparison
LtS(a, b) == IF IsNeg(a) # IsNeg(b) THEN IsNeg(a)
             ELSE a[1] < b[1] \/ (a[1] = b[1] /\ a[2] < b[2])
LeS(a, b) == a = b \/ LtS(a, b)
GtS(a, b) == LtS(b, a)
\* unsigned comparison
LtU(a, b) == a[1] < b[1] \/ (a[1] = b[1] /\ a[2] < b[2])
\* logical shift right by one, as unsigned; arithmetic halving of a non-negative signed word is the same
Shr1(a) == <<a[1] \div 2, (a[2] \div 2) + (a[1] % 2) * HalfB>>
IsOdd(a) == a[2] % 2 = 1
\* Conversions (only meaningful when the value fits a TLC integer, i.e. H <= 15 or small values)
FromInt(x) == LET m == x % (B * B) IN <<m \div B, m % B>>
ToUInt(a) == a[1] * B + a[2]
ToInt(a) == IF IsNeg(a) THEN ToUInt(a) - B * B ELSE ToUInt(a)
\* Exact signed sum / difference of two words can need one more bit: (carry/borrow-aware) 64-bit style
\* arithmetic used by the repaired decoder is expressed as "does the mathematical sum stay in range".
AddOverflows(a, b) == /\ IsNeg(a) = IsNeg(b)
                      /\ IsNeg(Add(a, b)) # IsNeg(a)
SubOverflows(a, b) == /\ IsNeg(a) # IsNeg(b)
                      /\ IsNeg(Sub(a, b)) # IsNeg(a)
=============================================================================
