CONSTANTS Emit = TRUE Full = FALSE
SPECIFICATION Spec
INVARIANT Inv
CHECK_DEADLOCK FALSE
