CONSTANTS Emit = TRUE Full = TRUE
SPECIFICATION Spec
INVARIANT Inv
CHECK_DEADLOCK FALSE
