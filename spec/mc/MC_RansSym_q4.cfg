CONSTANTS P = 16 L = 64 IOB = 8 NSym = 3 MaxTotal = 9 MaxLen = 5 Emit = FALSE PBits = 4
SPECIFICATION Spec
INVARIANT StateRange NormalizeOK NeverFails TableRoundTrip RoundTrip EmitRow
CHECK_DEADLOCK FALSE
