CONSTANTS NF = 3 NV = 5 Emit = TRUE MinFaces = 1
SPECIFICATION Spec
INVARIANT Check Phase2Terminates EmitRow
CHECK_DEADLOCK FALSE
