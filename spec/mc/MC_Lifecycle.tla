------------------------------ MODULE MC_Lifecycle ------------------------------
(* Every call history of length MaxLen over 2 geometries x 3 option sets (one of them invalid) x {high-level Encoder, reused low-level
   encoder object} + Clear + Decode(with / without trailing bytes).  In the specification the outcome of every call is a function of its
   arguments only (AppendOnly, BadLeavesNoTrace hold by construction and are checked as invariants); each complete history is emitted
   and replayed on real, reused objects by drv_c06.                                                                              *)
EXTENDS Integers, Sequences, TLC, Json, Lifecycle
CONSTANTS MaxLen, Emit
Init == LInit
Next == Len(hist) < MaxLen /\ LNext
Spec == Init /\ [][Next]_lvars
\* the buffer holds exactly the successful encodes since the last clear, in order
Expected == LET RECURSIVE R(_, _)
                R(j, acc) == IF j > Len(hist) THEN acc
                             ELSE IF hist[j].a = "clear" THEN R(j + 1, <<>>)
                             ELSE IF hist[j].a \in {"hl", "ll", "ex"} /\ hist[j].o # BadOpt THEN R(j + 1, Append(acc, F(hist[j].g, hist[j].o)))
                             ELSE R(j + 1, acc)
            IN R(1, <<>>)
AppendOnly == buf = Expected
EmitRow == (Emit /\ Len(hist) = MaxLen) => PrintT(ToJson([calls |-> hist]))
=============================================================================
