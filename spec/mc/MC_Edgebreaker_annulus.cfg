CONSTANTS NF = 6 NV = 6 Emit = TRUE
INIT InitA
NEXT Nxt
INVARIANT RoundTripOK EmitRow
CHECK_DEADLOCK FALSE
