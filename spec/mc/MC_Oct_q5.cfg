CONSTANT Q = 5
SPECIFICATION Spec
INVARIANT InvInvertible InvCorrRange ToolboxOK
CHECK_DEADLOCK FALSE
