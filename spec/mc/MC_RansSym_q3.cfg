CONSTANTS P = 8 L = 32 IOB = 8 NSym = 3 MaxTotal = 7 MaxLen = 5 Emit = TRUE PBits = 3
SPECIFICATION Spec
INVARIANT StateRange NormalizeOK NeverFails TableRoundTrip RoundTrip EmitRow
CHECK_DEADLOCK FALSE
