CONSTANTS S = 16 MaxQ = 31 A = 2 UseFloor = TRUE
SPECIFICATION Spec
INVARIANT InvHalfStep
CHECK_DEADLOCK FALSE
