CONSTANTS Mode = "rows" D = 1 B = 1 MaxN = 0 T = 64 NV = 0 AV = 0 MaxNums = 0 MaxHalves = 0 MaxAxes = 0 Emit = TRUE
SPECIFICATION Spec
INVARIANT EmitRows
CHECK_DEADLOCK FALSE
