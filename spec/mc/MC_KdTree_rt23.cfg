CONSTANTS Mode = "roundtrip" D = 2 B = 3 MaxN = 3 T = 3 NV = 0 AV = 0 MaxNums = 0 MaxHalves = 0 MaxAxes = 0 Emit = FALSE
SPECIFICATION Spec
INVARIANT RoundTripInv
CHECK_DEADLOCK FALSE
