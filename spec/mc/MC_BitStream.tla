----------------------------- MODULE MC_BitStream -----------------------------
(* Every interleaving of up to MaxOps writer calls on an EncoderBuffer (byte writes, varints, sized and unsized
   bit sequences, including the calls the API refuses), followed by the mirrored reader.  Checks Level A:
   Mirror (every value comes back), SamePosition (the reader ends where the writer ended), RefusedCallsHarmless. *)
EXTENDS Integers, Sequences, TLC, BitStream
CONSTANTS MaxOps, Version
VARIABLES w, log, phase, r, ri, okA
vars == <<w, log, phase, r, ri, okA>>
ByteSeqs == {<<0>>, <<255>>, <<1, 128>>}
VarDigits == {<<0>>, <<127>>, <<0, 1>>, <<127, 127, 3>>, <<1, 0, 0, 0, 8>>}    \* 0, 127, 128, 65535, 2^31+1 (u32)
BitVals == {<<0>>, <<1>>, <<1, 0>>, <<0, 1, 1>>, <<1, 1, 1, 1, 1, 1, 1, 1, 1>>}
Init == w = WInit /\ log = <<>> /\ phase = "write" /\ r = RInit(<<>>, Version) /\ ri = 1 /\ okA = TRUE
Room(k) == w.bits + k <= 8 * w.res     \* contract of EncodeLeastSignificantBits32
DoEncode == \E bs \in ByteSeqs : LET x == WEncode(w, bs) IN
              /\ w' = x.w /\ log' = Append(log, [k |-> "bytes", v |-> bs, ok |-> x.ok])
DoVarint == \E d \in VarDigits : LET x == WVarint(w, d) IN
              /\ w' = x.w /\ log' = Append(log, [k |-> "varint", v |-> d, ok |-> x.ok])
DoStart == \E n \in {0, 3, 12} : \E st \in BOOLEAN : LET x == WStartBits(w, n, st) IN
              /\ w' = x.w /\ log' = Append(log, [k |-> "start", v |-> st, ok |-> x.ok])
DoPut == \E bs \in BitVals : (WActive(w) => Room(Len(bs))) /\ LET x == WPutBits(w, bs) IN
              /\ w' = x.w /\ log' = Append(log, [k |-> "put", v |-> bs, ok |-> x.ok])
DoEnd == /\ w' = WEndBits(w) /\ log' = Append(log, [k |-> "end", v |-> WActive(w), ok |-> WActive(w)])
CanWrite == phase = "write" /\ Len(log) < MaxOps
Keep == UNCHANGED <<phase, r, ri, okA>>
WrEncode == CanWrite /\ DoEncode /\ Keep
WrVarint == CanWrite /\ DoVarint /\ Keep
WrStart == CanWrite /\ DoStart /\ Keep
WrPut == CanWrite /\ DoPut /\ Keep
WrEnd == CanWrite /\ DoEnd /\ Keep
Flip == /\ phase = "write" /\ ~WActive(w)
        /\ phase' = "read" /\ r' = RInit(w.bytes, Version) /\ UNCHANGED <<w, log, ri, okA>>
\* mirrored reader: replays the successful writer calls in order
Read == /\ phase = "read" /\ ri <= Len(log)
        /\ LET e == log[ri] IN
           IF ~e.ok THEN r' = r /\ okA' = okA
           ELSE IF e.k = "bytes" THEN LET x == RDecode(r, Len(e.v)) IN r' = x.r /\ okA' = (okA /\ x.ok /\ x.bytes = e.v)
           ELSE IF e.k = "varint" THEN LET x == RVarint(r, 4) IN r' = x.r /\ okA' = (okA /\ x.ok /\ SameValue(x.digits, e.v))
           ELSE IF e.k = "start" THEN LET x == RStartBits(r, e.v) IN r' = x.r /\ okA' = (okA /\ x.ok)
           ELSE IF e.k = "put" THEN LET x == RGetBits(r, Len(e.v)) IN r' = x.r /\ okA' = (okA /\ x.ok /\ x.v = e.v)
           ELSE r' = REndBits(r) /\ okA' = okA
        /\ ri' = ri + 1 /\ UNCHANGED <<w, log, phase>>
Next == WrEncode \/ WrVarint \/ WrStart \/ WrPut \/ WrEnd \/ Flip \/ Read
Spec == Init /\ [][Next]_vars
\* ---------------- Level A ----------------
Mirror == okA
SamePosition == (phase = "read" /\ ri > Len(log)) => (r.pos = Len(w.bytes) /\ ~r.bitmode)
NoOverrun == r.pos <= Len(r.data)
=============================================================================
