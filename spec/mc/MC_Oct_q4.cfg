CONSTANT Q = 4
SPECIFICATION Spec
INVARIANT InvInvertible InvCorrRange ToolboxOK
CHECK_DEADLOCK FALSE
