------------------------------- MODULE MC_Quant -------------------------------
(* Every position x of the box on a lattice of S sub-steps per step, every pair of rounding errors within the
   budget A: round-to-nearest + bounded error => HalfStep /\ InBox (Level A of C04); the same domain with the
   truncating quantiser violates HalfStep (checked as the negated invariant FloorBreaks in a second config).   *)
EXTENDS Integers, TLC, Quant
CONSTANT UseFloor
VARIABLES x, e1, e2, stage
vars == <<x, e1, e2, stage>>
Init == x = 0 /\ e1 = 0 /\ e2 = 0 /\ stage = 0
PickX == stage = 0 /\ \E v \in 0..(S * MaxQ) : x' = v /\ stage' = 1 /\ UNCHANGED <<e1, e2>>
PickE1 == stage = 1 /\ \E v \in (-A)..A : e1' = v /\ stage' = 2 /\ UNCHANGED <<x, e2>>
PickE2 == stage = 2 /\ \E v \in (-A)..A : e2' = v /\ stage' = 3 /\ UNCHANGED <<x, e1>>
Next == PickX \/ PickE1 \/ PickE2
Spec == Init /\ [][Next]_vars
K == IF UseFloor THEN QFloor(x, e1) ELSE Q(x, e1)
XD == D(K, e2)
InvHalfStep == stage = 3 => HalfStep(x, XD, Allowance)
InvInBox == stage = 3 => InBox(XD, Allowance)
InvIndexRange == stage = 3 => K \in (-1)..(MaxQ + 1)
=============================================================================
