------------------------------ MODULE MC_RansSym ------------------------------
(* rANS symbol coding at small precision (P = 2^PB, L = 4P, 8-bit units as in the code, so that the real
   RAnsEncoder<PB>/RAnsDecoder<PB> templates can be instantiated on the same domain):
   every frequency table over NSym symbols with total <= MaxTotal  -> Normalize -> TableOK, table round trip;
   every symbol sequence up to MaxLen over the used symbols -> state range after every write, Lossless,
   exact consumption.  Emits one JSON row per finished sequence (replayed into the real templates).   *)
EXTENDS Integers, Sequences, TLC, Json, SymbolCoding
CONSTANTS NSym, MaxTotal, MaxLen, Emit, PBits
VARIABLES freq, stage, pr, syms, st, wi, done
vars == <<freq, stage, pr, syms, st, wi, done>>
Init == freq = <<>> /\ stage = "freq" /\ pr = <<>> /\ syms = <<>> /\ st = [x |-> L, out |-> <<>>] /\ wi = 0 /\ done = FALSE
AddFreq == /\ stage = "freq" /\ Len(freq) < NSym
           /\ \E f \in 0..MaxTotal : Sum(freq) + f <= MaxTotal /\ freq' = Append(freq, f)
           /\ UNCHANGED <<stage, pr, syms, st, wi, done>>
DoNormalize == /\ stage = "freq" /\ Len(freq) = NSym /\ Sum(freq) > 0
               /\ LET n == Normalize(freq) IN
                  /\ pr' = n.pr /\ stage' = (IF n.ok THEN "syms" ELSE "createfail")
               /\ UNCHANGED <<freq, syms, st, wi, done>>
AddSym == /\ stage = "syms" /\ Len(syms) < MaxLen
          /\ \E s \in 0..(Len(pr) - 1) : pr[s + 1] > 0 /\ syms' = Append(syms, s)
          /\ UNCHANGED <<freq, stage, pr, st, wi, done>>
StartWrite == /\ stage = "syms" /\ Len(syms) > 0 /\ stage' = "write" /\ wi' = Len(syms)
              /\ UNCHANGED <<freq, pr, syms, st, done>>
WriteSym == /\ stage = "write" /\ wi > 0
            /\ LET s == syms[wi] + 1 IN st' = RansWrite(st, pr[s], Cums(pr)[s])
            /\ wi' = wi - 1 /\ UNCHANGED <<freq, stage, pr, syms, done>>
Finish == /\ stage = "write" /\ wi = 0 /\ stage' = "done" /\ done' = TRUE
          /\ UNCHANGED <<freq, pr, syms, st, wi>>
Next == AddFreq \/ DoNormalize \/ AddSym \/ StartWrite \/ WriteSym \/ Finish
Spec == Init /\ [][Next]_vars
\* ---------------- Level A (and mechanism invariants) ----------------
StateRange == stage \in {"write", "done"} => StateInRange(st.x)
NormalizeOK == stage \in {"syms", "write", "done"} => TableOK(Trim(freq), pr)
\* with every used symbol at probability >= 1 and the sum exact, Create never has to fail on this domain
NeverFails == stage # "createfail"
TableRoundTrip == stage = "syms" /\ syms = <<>> =>
     LET tb == TableBytes(pr, 1) rd == ReadTable(tb, 0, Len(pr), <<>>) IN rd.ok /\ rd.pr = pr /\ rd.pos = Len(tb)
Settled(buf, e) == LET RECURSIVE R(_) R(d) == IF d.x < L /\ d.off > 0 THEN R([x |-> d.x * IO + buf[d.off], off |-> d.off - 1]) ELSE d IN R(e)
RoundTrip == stage = "done" =>
     LET buf == WriteEnd(st, 3) dec == RansDecode(buf, pr, Len(syms)) IN
       /\ buf = RansEncode(syms, pr)                     \* stepwise machine = whole-sequence operator
       /\ dec.ok /\ Lossless(syms, dec.syms)
       /\ Settled(buf, dec.d).off = 0 /\ Settled(buf, dec.d).x = L      \* exact consumption
Row == [pb |-> PBits, pr |-> pr, syms |-> syms, bytes |-> WriteEnd(st, 3)]
EmitRow == (stage = "done" /\ Emit) => PrintT(ToJson(Row))
=============================================================================
