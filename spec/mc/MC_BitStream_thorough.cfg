CONSTANT MaxOps = 5
CONSTANT Version = 514
SPECIFICATION Spec
INVARIANT Mirror SamePosition NoOverrun
CHECK_DEADLOCK FALSE
