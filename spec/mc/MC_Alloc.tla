------------------------------- MODULE MC_Alloc -------------------------------
(* Design-level argument for C18 on a bounded domain: every array whose element count passed the guard named in the
   property is dominated by Bound(len + declared).  Counts and lengths range over powers of two up to 2^24 (remaining
   bytes) / 2^22 (points, faces).                                                                                  *)
EXTENDS Integers, TLC, Alloc
Pows == {2^k : k \in 0..22}
VARIABLES rem, np, nf, stage
vars == <<rem, np, nf, stage>>
Init == rem = 1 /\ np = 1 /\ nf = 1 /\ stage = 0
Pick == stage = 0 /\ \E a \in Pows, b \in Pows, c \in Pows : rem' = a /\ np' = b /\ nf' = c /\ stage' = 1
Spec == Init /\ [][Pick]_vars
DeclB == 4 * (np * 4 + 3 * nf)
\* guard : array it protects (element size)
Guards == stage = 1 =>
  /\ \A n \in Pows : (n \div 64 <= rem) => Dominated(n, 4, rem, DeclB)            \* num_symbols_/64 > remaining_size : probability table (u32)
  /\ \A n \in Pows : (n <= 5 * rem) => Dominated(n, 8, rem, DeclB)               \* num_attributes > 5*remaining_size : attribute id tables
  /\ (nf <= rem \div 3 => Dominated(nf, 12, rem, DeclB))                         \* faces_64 > remaining_size/3 : sequential faces
  /\ \A n \in Pows : (n <= 3 * nf) => Dominated(n, 1, rem, DeclB)                \* num_flags > num_corners : crease / orientation flags
  /\ \A n \in Pows : (n <= nf) => Dominated(n, 16, rem, DeclB)                   \* num_topology_splits > num_faces : split events
  /\ \A n \in Pows : (n <= 3 * nf) => Dominated(n, 4, rem, DeclB)                \* num_encoded_vertices > 3*num_faces : vertex tables
  /\ \A n \in Pows : (n <= rem) => Dominated(n, 1, rem, DeclB)                   \* data_size / size_in_bytes > remaining_size : metadata values, bit buffers
  /\ \A n \in Pows : (n <= rem) => Dominated(n, 64, rem, DeclB)                  \* num_sub_metadata > remaining_size : stack tuples
\* without a guard a 2^28-element request from a 224-byte stream is three orders of magnitude above the bound (finding F14's shape)
Unguarded == ~Dominated(2^28, 1, 224, 64)
=============================================================================
