CONSTANTS MaxFaces = 2 MaxVal = 3 Emit = TRUE
  Points = {0, 1, 2, 3, 4}
  WidthPoints = {255, 256, 65535, 65536, 2097151, 2097152}
INIT Init
NEXT Next
INVARIANT Guards EmitRows HugeRows
CHECK_DEADLOCK FALSE
