------------------------------- MODULE MC_Oct -------------------------------
(* Exhaustive check at quantisation Q of
   (1) the octahedron toolbox: every integer vector with |x|+|y|+|z| = Ctr maps into the Q-bit square, to a
       canonical point, and OctToIntVec inverts it (C07, integer half);
   (2) the canonicalised prediction transform: every ordered pair (orig, pred) of canonical points is
       inverted exactly and its correction lies in [0, 2^Q - 2] (C16).
   Points are built by actions (PickOrig, PickPred).                                            *)
EXTENDS Integers, TLC, FiniteSets, OctTransform
VARIABLES stage, orig, pred, res
vars == <<stage, orig, pred, res>>
\* the set of canonical points = image of the lattice vectors
Vecs == {v \in (-Ctr..Ctr) \X (-Ctr..Ctr) \X (-Ctr..Ctr) : Abs(v[1]) + Abs(v[2]) + Abs(v[3]) = Ctr}
CanonPts == {IntVecToOct(v[1], v[2], v[3]) : v \in Vecs}
Init == stage = 0 /\ orig = <<0, 0>> /\ pred = <<0, 0>> /\ res = <<>>
PickOrig == stage = 0 /\ \E pt \in CanonPts : orig' = pt /\ stage' = 1 /\ UNCHANGED <<pred, res>>
PickPred == stage = 1 /\ \E pt \in CanonPts : pred' = pt /\ stage' = 2 /\ UNCHANGED <<orig, res>>
Compute == /\ stage = 2
           /\ LET c == OctEnc(orig, pred) IN res' = <<c, OctDec(pred, c)>>
           /\ stage' = 3 /\ UNCHANGED <<orig, pred>>
Next == PickOrig \/ PickPred \/ Compute
Spec == Init /\ [][Next]_vars
InvInvertible == stage = 3 => OctInvertible(orig, res[2])
InvCorrRange == stage = 3 => OctCorrInRange(res[1])
\* toolbox facts, evaluated once in the initial state
ToolboxOK == stage = 0 =>
   /\ \A v \in Vecs : LET pt == IntVecToOct(v[1], v[2], v[3]) IN
         /\ InSquare(pt) /\ IsCanonical(pt)
         /\ LET w == OctToIntVec(pt[1], pt[2]) IN IntVecToOct(w[1], w[2], w[3]) = pt
   /\ \A pt \in CanonPts : Canon(pt[1], pt[2]) = pt
   /\ \A s \in 0..MaxV : \A t \in 0..MaxV : LET c == Canon(s, t) IN Canon(c[1], c[2]) = c /\ InSquare(c)
=============================================================================
