------------------------------ MODULE MC_Keyframe ------------------------------
(* Every call history of up to MaxCalls SetTimestamps / AddKeyframes calls (frame counts 1..2, components 0..2):
   ids returned by AddKeyframes are pairwise distinct and never 0, id 0 is the timestamp slot, the frame count never
   changes once fixed.  Each history is emitted as a row and replayed on the real KeyframeAnimation class.       *)
EXTENDS Integers, Sequences, TLC, Json, Keyframe
CONSTANTS MaxCalls, Emit
VARIABLES a, hist
vars == <<a, hist>>
Init == a = Empty /\ hist = <<>>
DoTs == \E n \in 1..2 : LET x == SetTimestamps(a, n) IN a' = x.a /\ hist' = Append(hist, [c |-> "ts", n |-> n, comps |-> 1, ret |-> IF x.ok THEN 1 ELSE 0])
DoKf == \E n \in 1..2 : \E k \in 0..2 : LET x == AddKeyframes(a, k, n) IN a' = x.a /\ hist' = Append(hist, [c |-> "kf", n |-> n, comps |-> k, ret |-> x.id])
Next == Len(hist) < MaxCalls /\ (DoTs \/ DoKf)
Spec == Init /\ [][Next]_vars
Ids == {hist[j].ret : j \in {t \in 1..Len(hist) : hist[t].c = "kf" /\ hist[t].ret # -1}}
IdsDistinct == \A i, j \in 1..Len(hist) : (i # j /\ hist[i].c = "kf" /\ hist[j].c = "kf" /\ hist[i].ret # -1 /\ hist[j].ret # -1) => hist[i].ret # hist[j].ret
IdsNotZero == 0 \notin Ids
FramesStable == \A j \in 1..Len(hist) : (hist[j].c = "kf" /\ hist[j].ret # -1) => hist[j].n = a.frames
EmitRow == (Emit /\ Len(hist) = MaxCalls) => PrintT(ToJson([calls |-> hist, frames |-> a.frames, atts |-> a.atts, ts |-> a.ts]))
=============================================================================
