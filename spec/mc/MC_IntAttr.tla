------------------------------ MODULE MC_IntAttr ------------------------------
(* Rows for drv_fault hostile (mode "ia"): every header combination (method -3..7, transform -2..4, compressed 0/1, bytes per value 0..5 and 8) over a few
   symbol lists, component counts and declared data types; wrap bounds around the values, reversed, and the widest pair (written by the assembler).
   Design check WrapStaysInRange: corrections within one period never leave [lo, hi].                                                              *)
EXTENDS IntAttr, Json, TLC
CONSTANTS Emit, Full
SymLists == { <<0, 1, 2, 3>>, <<5, 4, 300, 7>>, <<70000, 2, 1, 65535>>, <<9, 9, 9, 9, 9, 9>>, <<255, 256, 511, 512>> }
Bounds == { <<-4, 4>>, <<0, 2>>, <<3, 3>>, <<2, -2>>, <<-40000, 40000>> }
Methods == IF Full THEN -3..7 ELSE {-3, -2, -1, 0, 1, 6, 7}
Transforms == IF Full THEN -2..4 ELSE {-2, -1, 0, 1, 3, 4}
Row(m, t, cmp, nb, syms, b, nc, dt) ==
  LET r == Decode(m, t, cmp, nb, syms, b[1], b[2], nc, dt) IN
  [mode |-> "ia", method |-> m, transform |-> t, compressed |-> cmp, nb |-> nb, syms |-> syms, lo |-> b[1], hi |-> b[2], NC |-> nc, dt |-> dt,
   out |-> r.out, np |-> IF r.out = "acc" THEN Len(syms) \div nc ELSE 0, hp |-> Len(syms) \div nc,
   pts |-> IF r.out = "acc" THEN [i \in 1..(Len(syms) \div nc) |-> SubSeq(r.vals, (i - 1) * nc + 1, i * nc)] ELSE <<>>, faces |-> <<>>, s |-> "", nv |-> 0, nf |-> 0, nss |-> 0, npd |-> 0]
EmitRows == Emit =>
  \A m \in Methods, t \in Transforms, cmp \in {0, 1}, syms \in SymLists, nc \in {1, 2} :
    \A nb \in (IF cmp = 0 THEN {0, 1, 2, 3, 4, 5, 8} ELSE {4}) :
      \A b \in (IF m # -2 /\ t = 1 THEN Bounds ELSE {<<0, 0>>}) :
        \A dt \in (IF m \in {-2, 0} /\ t \in {-1, 1} THEN {1, 2, 3, 4, 5, 6, 9} ELSE {5}) :
          (Len(syms) % nc = 0) => PrintT(ToJson(Row(m, t, cmp, nb, syms, b, nc, dt)))
Corr == -4..4
WrapStaysInRange == \A lo \in -2..1, hi \in -1..2 : lo <= hi =>
   \A c1 \in Corr, c2 \in Corr, c3 \in Corr :
      (\A c \in {c1, c2, c3} : -(hi - lo + 1) <= c /\ c <= hi - lo + 1) => InRange(<<c1, c2, c3>>, 1, lo, hi)
VARIABLE x
Init == x = 0
Next == UNCHANGED x
Spec == Init /\ [][Next]_x
Inv == EmitRows /\ WrapStaysInRange
=============================================================================
