------------------------------- MODULE MC_Wrap -------------------------------
(* Exhaustive check of the wrap transform at word width 2*H (H = 3: 6-bit words):
   every (min, max, orig, pred) with BoundsOK, orig in [min,max], pred anywhere in the word.
   Inputs are built by actions so that the BFS workers share the enumeration.
   DecModel selects the decoder transcription: "written" (pinned commit) or "wide" (after fix F1). *)
EXTENDS Integers, TLC, WrapTransform
CONSTANT DecModel
VARIABLES stage, lo, hi, o, p, res
vars == <<stage, lo, hi, o, p, res>>
SInts == (-((B*B) \div 2))..(((B*B) \div 2) - 1)
Init == stage = 0 /\ lo = Zero /\ hi = Zero /\ o = Zero /\ p = Zero /\ res = <<>>
PickLo == stage = 0 /\ \E x \in SInts : lo' = FromInt(x) /\ stage' = 1 /\ UNCHANGED <<hi, o, p, res>>
PickHi == stage = 1 /\ \E x \in SInts : /\ BoundsOK(lo, FromInt(x))
                                        /\ hi' = FromInt(x) /\ stage' = 2 /\ UNCHANGED <<lo, o, p, res>>
PickO == stage = 2 /\ \E x \in ToInt(lo)..ToInt(hi) : o' = FromInt(x) /\ stage' = 3 /\ UNCHANGED <<lo, hi, p, res>>
PickP == stage = 3 /\ \E x \in SInts : p' = FromInt(x) /\ stage' = 4 /\ UNCHANGED <<lo, hi, o, res>>
Dec(l, h, pp, c) == IF DecModel = "written" THEN DecAsWritten(l, h, pp, c) ELSE DecWide(l, h, pp, c)
Compute == /\ stage = 4
           /\ LET c == Enc(lo, hi, o, p) IN res' = <<c, Dec(lo, hi, p, c)>>
           /\ stage' = 5 /\ UNCHANGED <<lo, hi, o, p>>
Next == PickLo \/ PickHi \/ PickO \/ PickP \/ Compute
Spec == Init /\ [][Next]_vars
\* B => A on the whole domain
InvInvertible == stage = 5 => Invertible(lo, hi, o, res[2])
InvCorrRange == stage = 5 => CorrInRange(lo, hi, res[1])
\* limb arithmetic agrees with integer arithmetic where the latter is defined (sanity of Words)
InvWords == stage = 5 =>
   /\ ToInt(MaxDif(lo, hi)) = 1 + ToInt(hi) - ToInt(lo)
   /\ ToInt(MaxCorr(lo, hi)) = (LET d == 1 + ToInt(hi) - ToInt(lo) IN IF d % 2 = 0 THEN (d \div 2) - 1 ELSE d \div 2)
   /\ ToInt(MinCorr(lo, hi)) = -((1 + ToInt(hi) - ToInt(lo)) \div 2)
   /\ ToInt(Clamp(p, lo, hi)) = (IF ToInt(p) > ToInt(hi) THEN ToInt(hi) ELSE IF ToInt(p) < ToInt(lo) THEN ToInt(lo) ELSE ToInt(p))
=============================================================================
