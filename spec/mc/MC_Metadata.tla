------------------------------ MODULE MC_Metadata ------------------------------
(* All metadata trees of a bounded shape: entries over names Names with values Vals, sub-metadata over names
   Names, nesting depth <= 2 (the second level restricted to one sub-tree to keep the domain ~10^4), plus
   attribute-metadata lists of length <= 1.  Checks RoundTrip (Level A) on the transcription and emits one row
   per tree for the replay through the real MetadataEncoder / MetadataDecoder and the full codec.            *)
EXTENDS Integers, Sequences, FiniteSets, TLC, Json, Metadata
CONSTANT Emit
NameA == <<97>>
NameB == <<98>>
Long == [j \in 1..(MaxNameLen + 1) |-> 120]
Names == <<NameA, Long>>                  \* in byte order
EntryNames == << <<>>, NameA, Long >>
Vals == {<<>>, <<7>>, <<1, 2>>}
\* entry lists: each name absent or bound to a value, in name order
RECURSIVE EntryLists(_)
EntryLists(j) == IF j > Len(EntryNames) THEN {<<>>}
                 ELSE LET rest == EntryLists(j + 1) IN rest \cup {<< <<EntryNames[j], v>> >> \o r : v \in Vals, r \in rest}
E == EntryLists(1)
RECURSIVE SubLists(_, _)
SubLists(j, T) == IF j > Len(Names) THEN {<<>>}
                  ELSE LET rest == SubLists(j + 1, T) IN rest \cup {<< <<Names[j], t>> >> \o r : t \in T, r \in rest}
T0 == {[e |-> es, s |-> <<>>] : es \in E}
T1 == {[e |-> es, s |-> ss] : es \in {<<>>, << <<NameA, <<7>> >> >>, << <<NameA, <<>> >> >>}, ss \in SubLists(1, T0)}
\* depth 2: exactly one sub-tree from T1 under name a or LONG, entries from a 2-element set
T2 == {[e |-> es, s |-> << <<n, t>> >>] : es \in {<<>>, << <<NameB, <<1, 2>> >> >>}, n \in {NameA, Long}, t \in T1}
Trees == T0 \cup T1 \cup T2
AttLists == {<<>>} \cup {<< <<5, t>> >> : t \in {[e |-> <<>>, s |-> <<>>], [e |-> << <<NameA, <<7>> >> >>, s |-> <<>>],
                                                  [e |-> << <<Long, <<7>> >> >>, s |-> <<>>],
                                                  [e |-> <<>>, s |-> << <<NameA, [e |-> << <<Long, <<>> >> >>, s |-> <<>>]>> >>]}}
VARIABLES t, atts
vars == <<t, atts>>
Init == t \in Trees /\ atts \in AttLists
Next == UNCHANGED vars
Spec == Init /\ [][Next]_vars
InvRoundTrip == RoundTrip(atts, t)
\* sanity against vacuity: some trees encode, some do not
Row == LET e == EncGeometry(atts, t) IN [tree |-> t, atts |-> atts, eok |-> e.ok, bytes |-> IF e.ok THEN TokBytes(e.toks, 1) ELSE <<>>]
EmitRow == (Emit /\ (atts = <<>> \/ t \in T0)) => PrintT(ToJson(Row))
=============================================================================
