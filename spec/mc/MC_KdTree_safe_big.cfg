CONSTANTS Mode = "safe" D = 2 B = 3 MaxN = 9 T = 4 NV = 4 AV = 3 MaxNums = 4 MaxHalves = 3 MaxAxes = 2 Emit = FALSE
SPECIFICATION Spec
INVARIANT SafeInv
CHECK_DEADLOCK FALSE
