CONSTANT MaxOps = 4
CONSTANT Version = 514
SPECIFICATION Spec
INVARIANT Mirror SamePosition NoOverrun
CHECK_DEADLOCK FALSE
