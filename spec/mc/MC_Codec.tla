------------------------------- MODULE MC_Codec -------------------------------
(* Sanity of the version predicate and gate table over every (type, major, minor) in 0..1 x 0..4 x 0..6:
   accepted versions form a down-closed set below the current version (nothing newer than what the encoder writes is
   accepted), gates are monotone (once the new layout is taken it stays taken for later versions).           *)
EXTENDS Integers, TLC, Codec
VARIABLES type, maj, min, stage
vars == <<type, maj, min, stage>>
Init == type = 0 /\ maj = 0 /\ min = 0 /\ stage = 0
Pick == stage = 0 /\ \E t \in 0..1, a \in 0..4, b \in 0..6 : type' = t /\ maj' = a /\ min' = b /\ stage' = 1
Spec == Init /\ [][Pick]_vars
NothingNewer == (stage = 1 /\ Supported(type, maj, min)) => V(maj, min) <= V(MaxMajor(type), MaxMinor(type))
CurrentAccepted == Supported(PointCloudType, 2, 3) /\ Supported(MeshType, 2, 2) /\ ~Supported(MeshType, 2, 3) /\ ~Supported(PointCloudType, 2, 4) /\ ~Supported(MeshType, 0, 9) /\ ~Supported(MeshType, 3, 0)
Monotone == stage = 1 => \A f \in DOMAIN Gate : \A a \in 0..4, b \in 0..6 :
               (V(a, b) >= V(maj, min) /\ ~LegacyLayout(f, maj, min)) => ~LegacyLayout(f, a, b)
InvGates == GatesInRange
=============================================================================
