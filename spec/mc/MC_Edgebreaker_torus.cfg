CONSTANTS NF = 14 NV = 7 Emit = TRUE
INIT InitT
NEXT Nxt
INVARIANT RoundTripOK EmitRow
CHECK_DEADLOCK FALSE
