CONSTANTS Mode = "roundtrip" D = 3 B = 1 MaxN = 5 T = 3 NV = 0 AV = 0 MaxNums = 0 MaxHalves = 0 MaxAxes = 0 Emit = FALSE
SPECIFICATION Spec
INVARIANT RoundTripInv
CHECK_DEADLOCK FALSE
