CONSTANTS MaxSyms = 6 Pairs = FALSE Emit = FALSE
INIT Init
NEXT Next
INVARIANT Guards GuardsV
CHECK_DEADLOCK FALSE
