SPECIFICATION Spec
INVARIANT NothingNewer CurrentAccepted Monotone InvGates
CHECK_DEADLOCK FALSE
