CONSTANT H = 3
CONSTANT DecModel = "wide"
SPECIFICATION Spec
INVARIANT InvInvertible InvCorrRange InvWords
CHECK_DEADLOCK FALSE
