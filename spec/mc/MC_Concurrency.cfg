CONSTANTS Threads = {0, 1} Points = 8 MaxPreempt = 3 Emit = TRUE
SPECIFICATION Spec
INVARIANT OwnCounterOnly EmitRow
CHECK_DEADLOCK FALSE
