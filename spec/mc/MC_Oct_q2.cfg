CONSTANT Q = 2
SPECIFICATION Spec
INVARIANT InvInvertible InvCorrRange ToolboxOK
CHECK_DEADLOCK FALSE
