---------------------------- MODULE MC_CornerTable ----------------------------
(* All triangle lists of NF faces over NV vertex ids in restricted-growth canonical labelling (vertex ids appear
   in order of first use), built by AddCorner so that BFS workers share the enumeration; for each complete list
   the transcription is run ONCE (Compute) and CornerTableOK is checked on its result.  With Emit = TRUE one JSON
   row per list (input + every field of the result) is printed for the replay through CornerTable::Create.
   Shard/NShards select a slice of the complete lists (by a hash of the list) for sharded thorough runs.   *)
EXTENDS Integers, Sequences, TLC, Json, CornerTable
CONSTANTS NF, NV, Emit, MinFaces
VARIABLES inp, res
vars == <<inp, res>>
Init == inp = <<>> /\ res = <<>>
AddCorner == /\ Len(inp) < 3 * NF /\ res = <<>>
             /\ \E v \in 0..(NV - 1) : v <= MaxId(inp) + 1 /\ inp' = Append(inp, v)
             /\ UNCHANGED res
\* every list whose length is a whole number of faces (>= MinFaces) is a complete input
Compute == /\ Len(inp) % 3 = 0 /\ Len(inp) >= 3 * MinFaces /\ res = <<>>
           /\ res' = <<Create(inp)>> /\ UNCHANGED inp
Next == AddCorner \/ Compute
Spec == Init /\ [][Next]_vars
\* B => A
Check == res # <<>> => (~res[1].stuck /\ CornerTableOK(inp, res[1]))
Phase2Terminates == res # <<>> => res[1].iters <= Len(inp)
Row == LET r == res[1] NC == Len(inp) IN
       [f |-> inp, opp |-> [j \in 1..NC |-> r.opp[j - 1]], ctv |-> [j \in 1..NC |-> r.m[j - 1]], vc |-> r.vc, par |-> r.par,
        iso |-> r.iso, deg |-> r.deg]
EmitRow == (res # <<>> /\ Emit) => PrintT(ToJson(Row))
=============================================================================
