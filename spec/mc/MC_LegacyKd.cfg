CONSTANTS MaxN = 3 Emit = TRUE
INIT Init
NEXT Next
INVARIANT EmitRow
CHECK_DEADLOCK FALSE
