------------------------------ MODULE Edgebreaker ------------------------------
(* Position-only Edgebreaker connectivity coding, functional small-step transcription of
     MeshEdgebreakerEncoderImpl::EncodeConnectivity (hole finding, init-face configuration, the corner-stack traversal, topology split events)
     MeshEdgebreakerDecoderImpl::DecodeConnectivity (symbols in reverse, split table consumed from the back, start-face phase)
   for the standard traversal.  Input: a triangle list in restricted-growth labelling (state variable ctv, built by AddCorner).
   The corner table operators are valid on NICE inputs (no degenerate face, every directed edge once, one fan per vertex); other inputs
   are covered by module CornerTable.  Anchors: compression/mesh/mesh_edgebreaker_encoder_impl.cc, mesh_edgebreaker_decoder_impl.cc,
   mesh_edgebreaker_traversal_encoder.h / _decoder.h.                                                                              *)
EXTENDS Integers, Sequences, FiniteSets, TLC, Json
CONSTANTS NF, NV, Emit
NC == 3 * NF
Corners == 0..(NC-1)
INV == -1
Nx(c) == IF c = INV THEN INV ELSE IF c % 3 = 2 THEN c - 2 ELSE c + 1
Pv(c) == IF c = INV THEN INV ELSE IF c % 3 = 0 THEN c + 2 ELSE c - 1
Fc(c) == IF c = INV THEN INV ELSE c \div 3
VARIABLES ctv, n
vars == <<ctv, n>>
MaxSoFar(s) == IF s = <<>> THEN -1 ELSE LET S == {s[i] : i \in 1..Len(s)} IN CHOOSE m \in S : \A x \in S : x <= m
Init == ctv = <<>> /\ n = 0
AddCorner == /\ n < NC /\ \E v \in 0..(NV-1) : v <= MaxSoFar(ctv) + 1 /\ ctv' = Append(ctv, v)
             /\ n' = n + 1
Done == n = NC /\ UNCHANGED vars
Nxt == AddCorner \/ Done
V0(c) == ctv[c+1]
Degenerate(f) == LET a == V0(3*f) b == V0(3*f+1) c == V0(3*f+2) IN a = b \/ a = c \/ b = c
\* ---- corner table (phase 1 faithful; phases 2/3 only valid on "nice" inputs) ----
RECURSIVE OppR(_,_,_)
OppR(c, buckets, opp) ==
  IF c = NC THEN opp
  ELSE IF Degenerate(c \div 3) THEN OppR(c + 1, buckets, opp)
  ELSE LET tip == V0(c) src == V0(Nx(c)) snk == V0(Pv(c))
           b == buckets[snk]
           cand == { i \in 1..Len(b) : b[i].sink = src /\ V0(b[i].corner) # tip }
       IN IF cand # {} THEN
             LET i == CHOOSE j \in cand : \A k \in cand : j <= k
                 o == b[i].corner
                 nb == [buckets EXCEPT ![snk] = SubSeq(b, 1, i-1) \o SubSeq(b, i+1, Len(b))]
             IN OppR(c + 1, nb, [opp EXCEPT ![c] = o, ![o] = c])
          ELSE OppR(c + 1, [buckets EXCEPT ![src] = Append(@, [sink |-> snk, corner |-> c])], opp)
OPP == OppR(0, [v \in 0..(NV-1) |-> <<>>], [c \in Corners |-> INV])
Verts == {V0(c) : c \in Corners}
NumVerts == Cardinality(Verts)      \* canonical labelling => Verts = 0..NumVerts-1
\* nice: no degenerate face, every directed edge at most once, every undirected edge with 2 faces is paired,
\* and every vertex has exactly one fan
DirEdges == { <<V0(Nx(c)), V0(Pv(c))>> : c \in Corners }
RECURSIVE FanL(_,_,_), FanR(_,_,_)
FanL(o, c, acc) == IF c = INV \/ c \in acc THEN acc ELSE FanL(o, Nx(o[Nx(c)]), acc \cup {c})
FanR(o, c, acc) == IF c = INV \/ c \in acc THEN acc ELSE FanR(o, Pv(o[Pv(c)]), acc \cup {c})
Fan(o, c) == FanL(o, c, {}) \cup FanR(o, c, {})
Nice == /\ \A f \in 0..(NF-1) : ~Degenerate(f)
        /\ Cardinality(DirEdges) = NC
        /\ \A c \in Corners : OPP[c] = INV => <<V0(Pv(c)), V0(Nx(c))>> \notin DirEdges
        /\ \A c \in Corners : Fan(OPP, c) = {d \in Corners : V0(d) = V0(c)}
\* vertex corners as ComputeVertexCorners leaves them (nice case)
RECURSIVE LeftWalk(_,_,_)
LeftWalk(c0, c, last) == IF c = INV THEN last ELSE
    LET nx == Nx(OPP[Nx(c)]) IN IF nx = c0 THEN c ELSE LeftWalk(c0, nx, c)
FirstCornerOf(v) == CHOOSE c \in Corners : V0(c) = v /\ \A d \in Corners : V0(d) = v => c <= d
VC == [v \in 0..(NumVerts-1) |-> LeftWalk(FirstCornerOf(v), FirstCornerOf(v), INV)]
\* ================= ENCODER (position only) =================
SwingRightO(c) == Pv(OPP[Pv(c)])
OppC(c) == IF c = INV THEN INV ELSE OPP[c]
VV(c) == IF c = INV THEN INV ELSE V0(c)
\* FindHoles
RECURSIVE HoleWalk(_,_,_,_), SkipToBoundary(_)
SkipToBoundary(c) == IF OPP[c] = INV THEN c ELSE SkipToBoundary(Nx(OPP[c]))
HoleWalk(hid, c, bv, id) == IF hid[bv] # -1 THEN hid ELSE
   LET c2 == SkipToBoundary(Nx(c)) IN HoleWalk([hid EXCEPT ![bv] = id], c2, V0(Nx(c2)), id)
RECURSIVE FindHolesR(_,_,_)
FindHolesR(i, hid, nh) == IF i = NC THEN [hid |-> hid, nh |-> nh] ELSE
   IF OPP[i] # INV THEN FindHolesR(i+1, hid, nh) ELSE
   LET bv == V0(Nx(i)) IN IF hid[bv] # -1 THEN FindHolesR(i+1, hid, nh)
   ELSE FindHolesR(i+1, HoleWalk(hid, i, bv, nh), nh + 1)
HOLES == FindHolesR(0, [v \in 0..(NumVerts-1) |-> -1], 0)
HID == HOLES.hid
\* EncodeHole: returns set of vertices visited on the hole loop (excluding start unless first)
RECURSIVE HoleVerts(_,_,_)
HoleVerts(corner, startV, acc) == LET act == V0(Pv(corner)) IN
   IF act = startV THEN acc ELSE HoleVerts(SkipToBoundary(Nx(corner)), startV, acc \cup {act})
EncodeHoleSet(startCorner, first) == LET c == SkipToBoundary(Pv(startCorner)) sv == V0(startCorner) IN
   HoleVerts(c, sv, IF first THEN {sv} ELSE {})
\* FindInitFaceConfiguration
RECURSIVE RightMost(_)
RightMost(c) == LET r == SwingRightO(c) IN IF r = INV THEN c ELSE RightMost(r)
InitCfg(f) == LET c0 == 3*f c1 == c0+1 c2 == c0+2
      chk(c) == IF OPP[c] = INV THEN [hit |-> TRUE, interior |-> FALSE, corner |-> c]
                ELSE IF HID[V0(c)] # -1 THEN [hit |-> TRUE, interior |-> FALSE, corner |-> Pv(RightMost(c))]
                ELSE [hit |-> FALSE, interior |-> TRUE, corner |-> c] IN
   IF chk(c0).hit THEN chk(c0) ELSE IF chk(c1).hit THEN chk(c1) ELSE IF chk(c2).hit THEN chk(c2)
   ELSE [hit |-> FALSE, interior |-> TRUE, corner |-> c0]
\* encoder state record
E0 == [vf |-> {}, vv |-> {}, vh |-> {}, syms |-> <<>>, sb |-> <<>>, splits |-> <<>>, f2s |-> <<>>, f2sDom |-> {},
       stack |-> <<>>, cur |-> INV, pc |-> "outer", cid |-> 0, order |-> <<>>, initc |-> <<>>]
F2S(st, f) == IF f \in st.f2sDom THEN (CHOOSE p \in {st.f2s[i] : i \in 1..Len(st.f2s)} : p[1] = f)[2] ELSE -1
ChkSplit(st, edge, nf) == IF nf = INV \/ nf \notin st.f2sDom THEN st.splits
   ELSE Append(st.splits, [split |-> F2S(st, nf), src |-> Len(st.syms), edge |-> edge])
\* NB: src = last_encoded_symbol_id = index of the symbol being emitted = Len(syms) (0-based, before append)
EncStep(st) ==
  IF st.pc = "outer" THEN
     IF st.cid = NC THEN [st EXCEPT !.pc = "done"]
     ELSE LET f == st.cid \div 3 IN
       IF f \in st.vf THEN [st EXCEPT !.cid = @ + 1]
       ELSE LET cfg == InitCfg(f) IN
         IF cfg.interior THEN
            LET c == cfg.corner  oc == OPP[Nx(c)]
                st1 == [st EXCEPT !.sb = Append(@, TRUE), !.vv = @ \cup {V0(c), V0(Nx(c)), V0(Pv(c))},
                                  !.vf = @ \cup {f}, !.initc = Append(@, Nx(c)), !.cid = @ + 1] IN
            IF oc # INV /\ Fc(oc) \notin st1.vf THEN [st1 EXCEPT !.stack = <<oc>>, !.pc = "stk"] ELSE st1
         ELSE LET sc == cfg.corner hs == EncodeHoleSet(Nx(sc), TRUE) IN
            [st EXCEPT !.sb = Append(@, FALSE), !.vv = @ \cup hs, !.vh = @ \cup {HID[V0(Nx(sc))]},
                       !.stack = <<sc>>, !.pc = "stk", !.cid = @ + 1]
  ELSE IF st.pc = "stk" THEN
     IF st.stack = <<>> THEN [st EXCEPT !.pc = "outer"]
     ELSE LET c == st.stack[Len(st.stack)] IN
       IF c = INV \/ Fc(c) \in st.vf THEN [st EXCEPT !.stack = SubSeq(@, 1, Len(@)-1)]
       ELSE [st EXCEPT !.cur = c, !.pc = "inner"]
  ELSE \* inner: process corner st.cur
     LET c == st.cur f == Fc(c) v == V0(c) onB == HID[v] # -1
         st1 == [st EXCEPT !.vf = @ \cup {f}, !.order = Append(@, c)] IN
     IF v \notin st.vv /\ ~onB THEN
        [st1 EXCEPT !.vv = @ \cup {v}, !.syms = Append(@, "C"), !.cur = OPP[Nx(c)]]
     ELSE LET st2 == [st1 EXCEPT !.vv = @ \cup {v}]
              r == OPP[Nx(c)] l == OPP[Pv(c)]
              rv == IF r # INV THEN Fc(r) \in st2.vf ELSE TRUE
              lv == IF l # INV THEN Fc(l) \in st2.vf ELSE TRUE IN
       IF rv THEN
          LET sp1 == ChkSplit(st2, 1, Fc(r)) IN
          IF lv THEN LET sp2 == ChkSplit([st2 EXCEPT !.splits = sp1], 0, Fc(l)) IN
               [st2 EXCEPT !.splits = sp2, !.syms = Append(@, "E"), !.stack = SubSeq(@, 1, Len(@)-1), !.pc = "stk"]
          ELSE [st2 EXCEPT !.splits = sp1, !.syms = Append(@, "R"), !.cur = l]
       ELSE IF lv THEN
               [st2 EXCEPT !.splits = ChkSplit(st2, 0, Fc(l)), !.syms = Append(@, "L"), !.cur = r]
       ELSE LET hs == IF onB /\ HID[v] \notin st2.vh THEN EncodeHoleSet(c, FALSE) ELSE {}
                vh2 == IF onB THEN st2.vh \cup {HID[v]} ELSE st2.vh IN
            [st2 EXCEPT !.vv = @ \cup hs, !.vh = vh2, !.f2s = Append(@, <<f, Len(st2.syms)>>), !.f2sDom = @ \cup {f},
                        !.syms = Append(@, "S"),
                        !.stack = Append([@ EXCEPT ![Len(@)] = l], r), !.pc = "stk"]
RECURSIVE RunEnc(_)
RunEnc(st) == IF st.pc = "done" THEN st ELSE RunEnc(EncStep(st))
ENC == RunEnc(E0)
\* ================= DECODER =================
D0(nsym) == [ctv |-> [c \in Corners |-> INV], opp |-> [c \in Corners |-> INV], vc |-> <<>>, stack |-> <<>>,
             faces |-> 0, sid |-> 0, act |-> <<>>, actDom |-> {}, ok |-> TRUE, why |-> ""]
Rej(d, w) == [d EXCEPT !.ok = FALSE, !.why = w]
DOp(d, c) == IF c = INV THEN INV ELSE d.opp[c]
DV(d, c) == IF c = INV THEN INV ELSE d.ctv[c]
SetO(o, a, b) == [o EXCEPT ![a] = b, ![b] = a]
ActOf(d, k) == (CHOOSE p \in {d.act[i] : i \in 1..Len(d.act)} : p[1] = k)[2]
RECURSIVE WalkD(_,_,_,_,_)
WalkD(cn, first, p, m, o) == IF cn = INV THEN [ok |-> TRUE, m |-> m] ELSE
   LET m2 == [m EXCEPT ![cn] = p] ox == o[Nx(cn)] nxt == Nx(ox) IN
   IF nxt = first THEN [ok |-> FALSE, m |-> m2] ELSE WalkD(nxt, first, p, m2, o)
\* consume split events whose source is this (encoder) symbol id; splits sorted by src ascending, consumed from the back
RECURSIVE SplitLoop(_,_,_,_)
SplitLoop(d, sp, encId, nsym) == IF sp = <<>> THEN [d |-> d, sp |-> sp] ELSE
   LET e == sp[Len(sp)] IN
   IF e.src > encId THEN [d |-> Rej(d, "split id"), sp |-> sp]
   ELSE IF e.src # encId THEN [d |-> d, sp |-> sp]
   ELSE LET top == d.stack[Len(d.stack)]
            nac == IF e.edge = 1 THEN Nx(top) ELSE Pv(top)
            k == nsym - e.split - 1
            d2 == [d EXCEPT !.act = Append(@, <<k, nac>>), !.actDom = @ \cup {k}] IN
        SplitLoop(d2, SubSeq(sp, 1, Len(sp)-1), encId, nsym)
DecSym(d, s, sp, nsym) == \* returns [d, sp]
  LET c == 3 * d.faces adv(x) == [x EXCEPT !.faces = @ + 1, !.sid = @ + 1] IN
  IF s = "C" THEN
     IF d.stack = <<>> THEN [d |-> Rej(d, "empty"), sp |-> sp] ELSE
     LET a == d.stack[Len(d.stack)] x == DV(d, Nx(a)) b == Nx(d.vc[x+1]) IN
     IF a = b THEN [d |-> Rej(d, "a=b"), sp |-> sp] ELSE
     IF DOp(d, a) # INV \/ DOp(d, b) # INV THEN [d |-> Rej(d, "paired"), sp |-> sp] ELSE
     LET vap == DV(d, Pv(a)) vbn == DV(d, Nx(b)) IN
     IF x = vap \/ x = vbn THEN [d |-> Rej(d, "degenerate"), sp |-> sp] ELSE
     [d |-> adv([d EXCEPT !.opp = SetO(SetO(@, a, c+1), b, c+2),
                          !.ctv = [@ EXCEPT ![c] = x, ![c+1] = vbn, ![c+2] = vap],
                          !.vc = [@ EXCEPT ![vap+1] = c+2],
                          !.stack = [@ EXCEPT ![Len(@)] = c]]), sp |-> sp]
  ELSE IF s = "R" \/ s = "L" THEN
     IF d.stack = <<>> THEN [d |-> Rej(d, "empty"), sp |-> sp] ELSE
     LET a == d.stack[Len(d.stack)] isR == s = "R"
         oc == IF isR THEN c+2 ELSE c+1  cl == IF isR THEN c+1 ELSE c  cr == IF isR THEN c ELSE c+2
         nvx == Len(d.vc) vr == DV(d, Pv(a)) IN
     IF DOp(d, a) # INV THEN [d |-> Rej(d, "paired"), sp |-> sp] ELSE
     LET d1 == [d EXCEPT !.opp = SetO(@, oc, a),
                         !.ctv = [@ EXCEPT ![oc] = nvx, ![cr] = vr, ![cl] = DV(d, Nx(a))],
                         !.vc = [Append(@, oc) EXCEPT ![vr+1] = cr],
                         !.stack = [@ EXCEPT ![Len(@)] = c]]
         r == SplitLoop(d1, sp, nsym - d.sid - 1, nsym) IN
     [d |-> adv(r.d), sp |-> r.sp]
  ELSE IF s = "E" THEN
     LET nvx == Len(d.vc)
         d1 == [d EXCEPT !.ctv = [@ EXCEPT ![c] = nvx, ![c+1] = nvx+1, ![c+2] = nvx+2],
                         !.vc = @ \o <<c, c+1, c+2>>, !.stack = Append(@, c)]
         r == SplitLoop(d1, sp, nsym - d.sid - 1, nsym) IN
     [d |-> adv(r.d), sp |-> r.sp]
  ELSE \* S
     IF d.stack = <<>> THEN [d |-> Rej(d, "empty"), sp |-> sp] ELSE
     LET b == d.stack[Len(d.stack)] st0 == SubSeq(d.stack, 1, Len(d.stack)-1)
         st1 == IF d.sid \in d.actDom THEN Append(st0, ActOf(d, d.sid)) ELSE st0 IN
     IF st1 = <<>> THEN [d |-> Rej(d, "empty2"), sp |-> sp] ELSE
     LET a == st1[Len(st1)] IN
     IF a = b THEN [d |-> Rej(d, "a=b"), sp |-> sp] ELSE
     IF DOp(d, a) # INV \/ DOp(d, b) # INV THEN [d |-> Rej(d, "paired"), sp |-> sp] ELSE
     LET o2 == SetO(SetO(d.opp, a, c+2), b, c+1)
         p == DV(d, Pv(a)) vbp == DV(d, Pv(b)) cn == Nx(b) nn == DV(d, cn)
         m1 == [d.ctv EXCEPT ![c] = p, ![c+1] = DV(d, Nx(a)), ![c+2] = vbp]
         vc1 == [d.vc EXCEPT ![vbp+1] = c+2]
         vc2 == [vc1 EXCEPT ![p+1] = vc1[nn+1]]
         w == WalkD(cn, cn, p, m1, o2) IN
     IF ~w.ok THEN [d |-> Rej(d, "cycle"), sp |-> sp] ELSE
     [d |-> adv([d EXCEPT !.opp = o2, !.ctv = w.m, !.vc = [vc2 EXCEPT ![nn+1] = INV],
                          !.stack = [st1 EXCEPT ![Len(st1)] = c]]), sp |-> sp]
RECURSIVE DecSyms(_,_,_,_)
DecSyms(d, rs, sp, nsym) == IF ~d.ok \/ rs = <<>> THEN [d |-> d, sp |-> sp]
   ELSE LET r == DecSym(d, Head(rs), sp, nsym) IN DecSyms(r.d, Tail(rs), r.sp, nsym)
RECURSIVE StartFaces(_,_)
StartFaces(d, bits) == IF ~d.ok \/ d.stack = <<>> THEN d ELSE
   IF bits = <<>> THEN Rej(d, "no bits") ELSE
   LET corner == d.stack[Len(d.stack)] st == SubSeq(d.stack, 1, Len(d.stack)-1) IN
   IF ~Head(bits) THEN StartFaces([d EXCEPT !.stack = st], Tail(bits)) ELSE
   IF d.faces >= NF THEN Rej(d, "more faces") ELSE
   LET vn == DV(d, Nx(corner)) b == Nx(d.vc[vn+1]) vx == DV(d, Nx(b)) cc == Nx(d.vc[vx+1]) IN
   IF corner = b \/ corner = cc \/ b = cc THEN Rej(d, "same corners") ELSE
   IF DOp(d, corner) # INV \/ DOp(d, b) # INV \/ DOp(d, cc) # INV THEN Rej(d, "paired") ELSE
   LET vp == DV(d, Nx(cc)) k == 3 * d.faces IN
   StartFaces([d EXCEPT !.opp = SetO(SetO(SetO(@, k, corner), k+1, b), k+2, cc),
                        !.ctv = [@ EXCEPT ![k] = vx, ![k+1] = vp, ![k+2] = vn],
                        !.faces = @ + 1, !.stack = st], Tail(bits))
Reverse(s) == [i \in 1..Len(s) |-> s[Len(s) - i + 1]]
DEC == LET e == ENC nsym == Len(e.syms)
           r == DecSyms(D0(nsym), Reverse(e.syms), e.splits, nsym) IN
       StartFaces(r.d, e.sb)
\* ---- Level A fragment: decoded triangle bag = input bag under SOME vertex bijection; we check the
\* weaker, cheap form: same number of faces, decode ok, and the multiset of (sorted) vertex-degree triples agrees,
\* plus exact check via the induced vertex map built from the encoder/decoder corner correspondence is left to the build phase.
Deg(f, v) == Cardinality({c \in Corners : f[c] = v})
FaceSig(f, k) == LET a == Deg(f, f[3*k]) b == Deg(f, f[3*k+1]) c == Deg(f, f[3*k+2]) IN {<<a,1>>,<<b,2>>,<<c,3>>}
InFn == [c \in Corners |-> V0(c)]
\* consistent vertex map test: there is a bijection of faces (decoder face j <- some input face) — checked structurally:
\* every decoded face has 3 distinct vertices, opp symmetric, number of decoded vertices in use = NumVerts
RoundTripOK == (n = NC /\ Nice) =>
   LET d == DEC IN
   /\ d.ok /\ d.faces = NF
   /\ \A c \in Corners : d.ctv[c] # INV
   /\ \A c \in Corners : d.opp[c] # INV => d.opp[d.opp[c]] = c
   /\ Cardinality({d.ctv[c] : c \in Corners}) = NumVerts
   /\ Cardinality({c \in Corners : d.opp[c] = INV}) = Cardinality({c \in Corners : OPP[c] = INV})
   /\ \A k \in 0..(NF-1) : Cardinality({d.ctv[3*k], d.ctv[3*k+1], d.ctv[3*k+2]}) = 3
NiceCount == (n = NC /\ Nice) => FALSE

HasSym(s) == \E i \in 1..Len(ENC.syms) : ENC.syms[i] = s
NoS == (n = NC /\ Nice) => ~HasSym("S")
NoSplit == (n = NC /\ Nice) => ENC.splits = <<>>
NoInterior == (n = NC /\ Nice) => \A i \in 1..Len(ENC.sb) : ~ENC.sb[i]
NoC == (n = NC /\ Nice) => ~HasSym("C")
NiceStat == (n = NC /\ Nice) => TLCSet(1, TLCGet(1) + 1)

Annulus == <<0,1,3, 1,4,3, 1,2,4, 2,5,4, 2,0,5, 0,3,5>>
Torus == LET t(i) == <<i, (i+1)%7, (i+3)%7>> u(i) == <<i, (i+3)%7, (i+2)%7>> IN
   t(0) \o u(0) \o t(1) \o u(1) \o t(2) \o u(2) \o t(3) \o u(3) \o t(4) \o u(4) \o t(5) \o u(5) \o t(6) \o u(6)
InitA == ctv = Annulus /\ n = NC
InitT == ctv = Torus /\ n = NC
Show == (n = NC) => PrintT(<<"nice", Nice, "syms", ENC.syms, "sb", ENC.sb, "splits", ENC.splits, "dec", DEC.ok, DEC.why, DEC.faces>>)
\* ---- compute once (DESIGN §5): the encoder / decoder results of a complete nice list are stored in a variable by a Compute action
Row == LET e == ENC IN [f |-> ctv, syms |-> e.syms, sb |-> [j \in 1..Len(e.sb) |-> IF e.sb[j] THEN 1 ELSE 0],
                         splits |-> [j \in 1..Len(e.splits) |-> <<e.splits[j].src, e.splits[j].split, e.splits[j].edge>>]]
EmitRow == (n = NC /\ Nice /\ Emit) => PrintT(ToJson(Row))
=============================================================================
