------------------------------ MODULE MC_LegacyKd ------------------------------
(* All (n, hp, op, ip, level): n = 1..MaxN encoded points, each of the three counts in n-1 .. n+1 (and one huge value for op / ip, written by
   the assembler), compression levels 0..7.  One state per tuple (the tuple is the state), one printed row per state.                 *)
EXTENDS LegacyKd, Json, TLC
CONSTANTS MaxN, Emit
VARIABLES n, hp, op, ip, level, hop, hip
vars == <<n, hp, op, ip, level, hop, hip>>
Init == /\ n \in 1..MaxN /\ level \in 0..7
        /\ hp \in (n - 1)..(n + 1) /\ op \in (n - 1)..(n + 1) /\ ip \in (n - 1)..(n + 1)
        /\ hop \in BOOLEAN /\ hip \in BOOLEAN /\ ~(hop /\ hip)
Next == UNCHANGED vars
\* hop / hip: the assembler writes 2^27 instead of op / ip (a count no allocation of the cloud justifies)
Row == LET r == IF hop THEN Decode(n, hp, hp + 1000, ip, level) ELSE Decode(n, hp, op, ip, level) IN
       [mode |-> "lkd", n |-> n, hp |-> hp, op |-> op, ip |-> ip, level |-> level, hop |-> hop, hip |-> hip, out |-> r.out, np |-> r.np, faces |-> <<>>]
EmitRow == Emit => PrintT(ToJson(Row))
Spec == Init /\ [][Next]_vars
=============================================================================
