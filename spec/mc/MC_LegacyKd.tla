------------------------------ MODULE MC_LegacyKd ------------------------------
(* All (n, hp, op, ip, level): n = 1..MaxN encoded points, each of the three counts in n-1 .. n+1 (and one huge value for op / ip, written by
   the assembler), compression levels 0..7.  One state per tuple (the tuple is the state), one printed row per state.                 *)
EXTENDS LegacyKd, Json, TLC
CONSTANTS MaxN, Emit
VARIABLES n, hp, op, ip, level, hop, hip, neg
vars == <<n, hp, op, ip, level, hop, hip, neg>>
Init == /\ n \in 1..MaxN /\ level \in 0..7
        /\ hp \in (n - 1)..(n + 1) /\ op \in (n - 1)..(n + 1) /\ ip \in (n - 1)..(n + 1)
        /\ hop \in BOOLEAN /\ hip \in BOOLEAN /\ ~(hop /\ hip)
        /\ neg \in BOOLEAN /\ (neg => (~hop /\ ~hip /\ hp = n /\ op = n /\ ip = n))
Next == UNCHANGED vars
\* hop / hip: the assembler writes 2^27 instead of op / ip (a count no allocation of the cloud justifies)
\* neg: the assembler writes 0x80000000 for the header count AND the count in front of the payload (a negative int32: refused by the geometry header)
Row == LET r == IF neg THEN Decode(n, -1, -1, ip, level) ELSE IF hop THEN Decode(n, hp, hp + 1000, ip, level) ELSE Decode(n, hp, op, ip, level) IN
       [mode |-> "lkd", n |-> n, hp |-> hp, op |-> op, ip |-> ip, level |-> level, hop |-> hop, hip |-> hip, neg |-> neg, out |-> r.out, np |-> r.np, faces |-> <<>>]
EmitRow == Emit => PrintT(ToJson(Row))
Spec == Init /\ [][Next]_vars
=============================================================================
