------------------------------ MODULE MC_LegacyKd ------------------------------
(* All (n, method, hp, op, fp, ip, level): n = 1..MaxN encoded points, each count in n-1 .. n+1 (and one huge value for op / fp / ip, written by
   the assembler), compression levels 0..7, the integer and the float method; for the float method also the all-zero header (hp = op = 0) in front
   of a payload that still names n (or a huge number of) points.  One state per tuple (the tuple is the state), one printed row per state.   *)
EXTENDS LegacyKd, Json, TLC
CONSTANTS MaxN, Emit
VARIABLES n, meth, hp, op, fp, ip, level, hop, hfp, hip, neg
vars == <<n, meth, hp, op, fp, ip, level, hop, hfp, hip, neg>>
Init == /\ n \in 1..MaxN /\ level \in 0..7 /\ meth \in {"int", "float"}
        /\ \/ hp \in (n - 1)..(n + 1) /\ op \in (n - 1)..(n + 1)
           \/ meth = "float" /\ hp = 0 /\ op = 0
        /\ ip \in (n - 1)..(n + 1)
        /\ IF meth = "float" THEN fp \in {0} \cup ((n - 1)..(n + 1)) ELSE fp = n
        /\ hop \in BOOLEAN /\ hip \in BOOLEAN /\ hfp \in BOOLEAN /\ (hfp => meth = "float")
        /\ ~(hop /\ hip) /\ ~(hop /\ hfp) /\ ~(hip /\ hfp)
        /\ neg \in BOOLEAN /\ (neg => (~hop /\ ~hip /\ ~hfp /\ hp = n /\ op = n /\ ip = n /\ fp = n))
Next == UNCHANGED vars
\* hop / hfp / hip: the assembler writes 2^27 instead of op / fp / ip (a count no allocation of the cloud justifies)
\* neg: the assembler writes 0x80000000 for the header count AND the count in front of the payload (a negative int32: refused by the geometry header)
Huge == 134217728
RowI == LET r == IF neg THEN Decode(n, -1, -1, ip, level) ELSE IF hop THEN Decode(n, hp, hp + 1000, ip, level) ELSE Decode(n, hp, op, ip, level)
            \* the payload is asked for more points than were encoded: whether its bit streams run dry depends on the points (module KdTree), not modelled here
            more == r.out = "acc" /\ (ip > n \/ hip)
        IN [mode |-> "lkd", n |-> n, hp |-> hp, op |-> op, ip |-> ip, level |-> level, hop |-> hop, hip |-> hip, neg |-> neg,
            out |-> IF more THEN "any:payload-of-another-size" ELSE r.out, np |-> r.np, faces |-> <<>>]
RowF == LET r == IF neg THEN DecodeQ(n, -1, -1, fp, ip, level)
                 ELSE DecodeQ(n, hp, IF hop THEN Huge ELSE op, IF hfp THEN Huge ELSE fp, IF hip THEN Huge ELSE ip, level)
            \* every count agrees but the payload holds another number of points: what the kd-tree decoder makes of it is not modelled here
            short == r.out = "acc" /\ r.np # n /\ r.np > 0
        IN [mode |-> "lkq", n |-> n, hp |-> hp, op |-> op, fp |-> fp, ip |-> ip, level |-> level, hop |-> hop, hfp |-> hfp, hip |-> hip, neg |-> neg,
            out |-> IF short THEN "any:payload-of-another-size" ELSE r.out, np |-> r.np, faces |-> <<>>]
EmitRow == Emit => PrintT(ToJson(IF meth = "int" THEN RowI ELSE RowF))
Spec == Init /\ [][Next]_vars
=============================================================================
