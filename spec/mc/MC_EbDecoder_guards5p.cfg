CONSTANTS MaxSyms = 5 Pairs = TRUE Emit = FALSE
INIT Init
NEXT Next
INVARIANT Guards GuardsV
CHECK_DEADLOCK FALSE
