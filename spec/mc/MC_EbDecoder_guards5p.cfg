CONSTANTS MaxSyms = 5 Pairs = TRUE Emit = FALSE
INIT Init
NEXT Next
INVARIANT Guards
CHECK_DEADLOCK FALSE
