CONSTANTS Mode = "safe" D = 2 B = 2 MaxN = 6 T = 3 NV = 3 AV = 3 MaxNums = 4 MaxHalves = 3 MaxAxes = 2 Emit = FALSE
SPECIFICATION Spec
INVARIANT SafeInv
CHECK_DEADLOCK FALSE
