CONSTANT H = 3
CONSTANT DecModel = "written"
SPECIFICATION Spec
INVARIANT InvInvertible InvCorrRange InvWords
CHECK_DEADLOCK FALSE
