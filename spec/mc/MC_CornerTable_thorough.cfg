CONSTANTS NF = 4 NV = 5 Emit = FALSE MinFaces = 4
SPECIFICATION Spec
INVARIANT Check Phase2Terminates
CHECK_DEADLOCK FALSE
