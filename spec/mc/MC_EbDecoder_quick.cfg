CONSTANTS MaxSyms = 4 Pairs = FALSE Emit = TRUE
INIT Init
NEXT Next
INVARIANT Guards EmitRows HeaderRows
CHECK_DEADLOCK FALSE
