CONSTANTS MaxSyms = 4 Pairs = FALSE Emit = TRUE
INIT Init
NEXT Next
INVARIANT Guards GuardsV EmitRows EmitRowsV HeaderRows HdRows
CHECK_DEADLOCK FALSE
