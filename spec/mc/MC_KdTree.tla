------------------------------- MODULE MC_KdTree -------------------------------
(* Three uses of module KdTree, selected by Mode:
   "roundtrip"  every point sequence of up to MaxN points over (0 .. 2^B - 1)^D, grown one point at a time (the sequence is the state):
                RoundTrip with the cycled axis and with the chosen axis (nodes of T or more points carry a 4-bit axis number; T is small
                here so that the branch is reached).
   "safe"       every list of served values (numbers over 0..NV, half bits, axis numbers over 0..AV), grown one value at a time: Safe for every
                declared point count 1..MaxN -- the design-level argument that no served value can push a stack index or an axis out of range.
   "rows"       one state; prints the rows that drv_fault hostile assembles into real bitstream-2.3 kd-tree clouds with the library's own bit
                coders: the honest encoding of each point set in Sets (the harness compares the assembled bytes with the real encoder's), every
                single changed number / half bit / axis number, and payload / header point counts off by one.  T = 64 as in the code.          *)
EXTENDS KdTree, Json, TLC, FiniteSets
CONSTANTS Mode, D, B, MaxN, T, NV, AV, MaxNums, MaxHalves, MaxAxes, Emit
VARIABLES P, nums, hvs, axs
vars == <<P, nums, hvs, axs>>
Pt == [1..D -> 0..(2^B - 1)]
Init == P = <<>> /\ nums = <<>> /\ hvs = <<>> /\ axs = <<>>
NextRT == Len(P) < MaxN /\ \E p \in Pt : P' = Append(P, p) /\ UNCHANGED <<nums, hvs, axs>>
NextSafe == /\ UNCHANGED P
            /\ \/ Len(hvs) = 0 /\ Len(axs) = 0 /\ Len(nums) < MaxNums /\ \E x \in 0..NV : nums' = Append(nums, x) /\ UNCHANGED <<hvs, axs>>
               \/ Len(axs) = 0 /\ Len(hvs) < MaxHalves /\ \E x \in 0..1 : hvs' = Append(hvs, x) /\ UNCHANGED <<nums, axs>>
               \/ Len(axs) < MaxAxes /\ \E x \in 0..AV : axs' = Append(axs, x) /\ UNCHANGED <<nums, hvs>>
Next == IF Mode = "roundtrip" THEN NextRT ELSE IF Mode = "safe" THEN NextSafe ELSE UNCHANGED vars
Spec == Init /\ [][Next]_vars
RoundTripInv == Mode = "roundtrip" => \A sel \in BOOLEAN : RoundTrip(P, D, B, sel, T)
SafeInv == Mode = "safe" => \A n \in 1..MaxN, sel \in BOOLEAN : Safe([nums |-> nums, rems |-> <<>>, axs |-> axs, hvs |-> hvs], n, D, B, sel, T)

\* ---------------------------------------------------------------------------------------------------------------------------------- rows
Gen(n, d, b) == [i \in 1..n |-> [a \in 1..d |-> ((i * (7 + 6 * a) + a * a * 5 + (i * i) \div (a + 1)) % (2^b))]]
Sets == { [P |-> <<<<1>>>>, D |-> 1, B |-> 1], [P |-> <<<<0>>, <<3>>, <<3>>>>, D |-> 1, B |-> 2], [P |-> Gen(5, 1, 3), D |-> 1, B |-> 3],
          [P |-> Gen(3, 2, 2), D |-> 2, B |-> 2], [P |-> Gen(4, 2, 3), D |-> 2, B |-> 3], [P |-> Gen(7, 2, 2), D |-> 2, B |-> 2],
          [P |-> <<<<1, 2>>, <<1, 2>>, <<1, 2>>, <<1, 2>>>>, D |-> 2, B |-> 2], [P |-> Gen(6, 2, 0), D |-> 2, B |-> 0],
          [P |-> Gen(3, 3, 4), D |-> 3, B |-> 4], [P |-> Gen(5, 3, 2), D |-> 3, B |-> 2], [P |-> Gen(9, 3, 3), D |-> 3, B |-> 3],
          [P |-> Gen(12, 4, 5), D |-> 4, B |-> 5], [P |-> Gen(6, 3, 10), D |-> 3, B |-> 10] }
BigSets == { [P |-> Gen(64, 3, 5), D |-> 3, B |-> 5], [P |-> Gen(70, 2, 4), D |-> 2, B |-> 4], [P |-> Gen(130, 3, 3), D |-> 3, B |-> 3] }
Levels == {0, 2, 4, 5, 6}
Flat(ps) == [i \in 1..Len(ps) |-> ps[i]]
Row(inp, n, mx, d, b, level, in, what) ==
  LET r == Decode(inp, n, mx, d, b, level = 6, 64) IN
  [mode |-> "kd", what |-> what, level |-> level, D |-> d, B |-> b, hp |-> mx, n |-> n, nq |-> r.nq, rq |-> r.rq, aq |-> r.aq, hq |-> r.hq,
   out |-> IF r.err = "" THEN "acc" ELSE r.err, np |-> IF r.err = "" THEN mx ELSE 0, pts |-> IF r.err = "" THEN r.out ELSE <<>>, in |-> in,
   faces |-> <<>>, s |-> "", nv |-> 0, nf |-> 0, nss |-> 0, npd |-> 0]
Min(a, b) == IF a < b THEN a ELSE b
RowsOf(c, level) ==
  LET e == Encode(c.P, c.D, c.B, level = 6, 64)
      inp == [nums |-> Values(e.nq), rems |-> Values(e.rq), axs |-> e.aq, hvs |-> e.hq]
      n == Len(c.P)
      R(i, nn, mx, in, what) == PrintT(ToJson(Row(i, nn, mx, c.D, c.B, level, in, what)))
  IN /\ R(inp, n, n, c.P, "honest")
     /\ \A k \in 1..Len(inp.nums) : \A v \in (0..Min(2^(e.nq[k][1]) - 1, 6)) \cup {2^(e.nq[k][1]) - 1} :
           v # inp.nums[k] => R([inp EXCEPT !.nums[k] = v], n, n, <<>>, "number")
     /\ \A k \in 1..Len(inp.hvs) : R([inp EXCEPT !.hvs[k] = 1 - @], n, n, <<>>, "half")
     /\ \A k \in 1..Len(inp.axs) : \A v \in 0..15 : v # inp.axs[k] => R([inp EXCEPT !.axs[k] = v], n, n, <<>>, "axis")
     /\ R(inp, n + 1, n, <<>>, "count") /\ R(inp, n + 1, n + 1, <<>>, "count") /\ R(inp, n, n + 1, <<>>, "count")
     /\ (n >= 2 => R(inp, n - 1, n, <<>>, "count") /\ R(inp, n - 1, n - 1, <<>>, "count") /\ R(inp, n, n - 1, <<>>, "count"))
EmitRows == (Mode = "rows" /\ Emit) => /\ (\A c \in Sets : \A level \in Levels : RowsOf(c, level))
                                        /\ (\A c \in BigSets : \A level \in {3, 6} : RowsOf(c, level))
=============================================================================
