CONSTANTS MaxNameLen = 2 Propagate = FALSE AcceptEmpty = FALSE MaxLevel = 1000 Emit = FALSE
SPECIFICATION Spec
INVARIANT InvRoundTrip EmitRow
CHECK_DEADLOCK FALSE
