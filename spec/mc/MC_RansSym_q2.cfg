CONSTANTS P = 4 L = 16 IOB = 8 NSym = 3 MaxTotal = 5 MaxLen = 5 Emit = TRUE PBits = 2
SPECIFICATION Spec
INVARIANT StateRange NormalizeOK NeverFails TableRoundTrip RoundTrip EmitRow
CHECK_DEADLOCK FALSE
