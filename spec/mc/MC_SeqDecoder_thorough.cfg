CONSTANTS MaxFaces = 2 MaxVal = 5 Emit = TRUE
  Points = {0, 1, 2, 3, 4, 5, 6}
  WidthPoints = {255, 256, 257, 65535, 65536, 65537, 2097151, 2097152}
INIT Init
NEXT Next
INVARIANT Guards EmitRows HugeRows
CHECK_DEADLOCK FALSE
