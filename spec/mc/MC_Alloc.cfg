SPECIFICATION Spec
INVARIANT Guards Unguarded
CHECK_DEADLOCK FALSE
