---------------------------- MODULE MC_Concurrency ----------------------------
(* All interleavings of 2 threads x Points schedule points with at most MaxPreempt preemptions; each complete schedule (the sequence
   of thread ids in which schedule points were passed) is emitted and enforced on real threads by the cooperative scheduler of drv_c19. *)
EXTENDS Integers, Sequences, TLC, Json, Concurrency
CONSTANT Emit
\* structural sanity: a thread only ever advances its own counter, every complete schedule contains every thread exactly Points times
OwnCounterOnly == \A t \in Threads : pc[t] = Len(SelectSeq(sched, LAMBDA x : x = t))
EmitRow == (Emit /\ AllDone) => PrintT(ToJson([sched |-> sched, preempt |-> preempt]))
=============================================================================
