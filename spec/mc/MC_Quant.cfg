CONSTANTS S = 16 MaxQ = 31 A = 2 UseFloor = FALSE
SPECIFICATION Spec
INVARIANT InvHalfStep InvInBox InvIndexRange
CHECK_DEADLOCK FALSE
