CONSTANTS Threads = {0, 1, 2} Points = 5 MaxPreempt = 3 Emit = TRUE
SPECIFICATION Spec
INVARIANT OwnCounterOnly EmitRow
CHECK_DEADLOCK FALSE
