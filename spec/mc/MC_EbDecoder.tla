----------------------------- MODULE MC_EbDecoder -----------------------------
(* Bounded enumeration of the semantic fault space of the Edgebreaker connectivity decoder (module EbDecoder).
   State = a symbol string (decoder order), grown one symbol at a time; for every string every parameter tuple of Params is decoded
   by the model and printed as one JSON row; the C++ side (drv_hostile eb) assembles each row into a real position-only Draco 2.2
   stream and decodes it under ASan/UBSan.
     nv    declared vertices: around the number the string creates (3 per E, 1 per R / L), so that the "unexpected number of decoded
           vertices" guards sit on their boundary
     nf    declared faces: nsym and nsym + 1 (one interior start face)
     nss   declared split symbols: the number of S symbols, and 0
     ev    topology-split table: none, every single event (src, split <= src, edge), and (Pairs) every ascending pair
     sb    start-face bits: 0.., 1.., 10..
   Invariants: ConnValid (whatever the model accepts is structurally valid -- a design check of the decoder's guards: if TLC finds a
   string the guards accept and whose faces name a missing vertex, the real decoder is asked the same question by the replay).       *)
EXTENDS EbDecoder, Json
CONSTANTS MaxSyms, Pairs, Emit
VARIABLES syms
Symbols == {"C", "S", "L", "R", "E"}
Init == syms = <<>>
Next == Len(syms) < MaxSyms /\ \E s \in Symbols : syms' = Append(syms, s)
Count(s) == Cardinality({i \in 1..Len(syms) : syms[i] = s})
Created == 3 * Count("E") + Count("R") + Count("L")
NssSet == {Count("S"), 0}
NvSet(nss) == {v \in {Created - nss - 1, Created - nss, Created - nss + 1} : v >= 0}
NfSet == {Len(syms)} \cup (IF Len(syms) >= 3 THEN {Len(syms) + 1} ELSE {})
Single == {<<s, p, e>> : s \in 0..(Len(syms) - 1), p \in 0..(Len(syms) - 1), e \in {0, 1}}
EvSet == {<<>>} \cup {<<x>> : x \in {y \in Single : y[2] <= y[1]}}
         \cup (IF Pairs THEN {<<x, y>> : x \in {z \in Single : z[2] <= z[1]}, y \in {z \in Single : z[2] <= z[1]}} ELSE {})
EvAsc(ev) == \A i \in 1..(Len(ev) - 1) : ev[i][1] <= ev[i + 1][1]
SbSet == {<<0, 0, 0>>, <<1, 1, 1>>, <<1, 0, 0>>}
\* only tuples that pass the header guards reach the symbol machine; the guards themselves are enumerated by HeaderRows
Params == {p \in {<<nv, nf, nss, ev, sb>> : nv \in UNION {NvSet(x) : x \in NssSet}, nf \in NfSet, nss \in NssSet, ev \in {e \in EvSet : EvAsc(e)}, sb \in SbSet} :
              Header(p[1], p[2], Len(syms), p[3], Len(p[4])) = "ok"}
\* seam bit patterns served to the attribute connectivity decoder (bits beyond the list read as 0): none, all, alternating both ways, one seam at a time
SeamPats == << <<>>, <<1, 1, 1, 1, 1, 1, 1, 1, 1, 1, 1, 1>>, <<0, 1, 0, 1, 0, 1, 0, 1, 0, 1, 0, 1>>, <<1, 0, 1, 0, 1, 0, 1, 0, 1, 0, 1, 0>>,
              <<1>>, <<0, 1>>, <<0, 0, 1>>, <<0, 0, 0, 1>>, <<0, 0, 0, 0, 1>>, <<1, 1, 0, 0, 1, 1>> >>
\* pairs of patterns for two attributes with connectivity of their own (indices into SeamPats)
SeamPairs == << <<1, 2>>, <<2, 1>>, <<3, 4>>, <<4, 3>>, <<5, 6>>, <<6, 5>>, <<3, 2>>, <<5, 2>>, <<10, 3>>, <<7, 8>> >>
RECURSIVE StrR(_)
StrR(s) == IF s = <<>> THEN "" ELSE s[1] \o StrR(Tail(s))
Row(p) == LET r == Decode(syms, p[1], p[2], p[3], p[4], p[5])  o == Order(r, p[2])  o2 == OrderPD(r, p[2]) IN
          [s |-> StrR(syms), nv |-> p[1], nf |-> p[2], nss |-> p[3], ev |-> p[4], sb |-> p[5], out |-> r.out, np |-> r.np, faces |-> r.faces,
           trav |-> o.trav, vidx |-> o.vidx, trav2 |-> o2.trav, vidx2 |-> o2.vidx, ppos |-> IF p[2] <= 6 THEN ParaPos(r, p[2], -50, 50) ELSE <<>>, mpos |-> IF p[2] <= 6 THEN MpPos(r, p[2], -50, 50) ELSE <<>>,
           cm |-> IF p[2] <= 6 /\ r.out = "acc" /\ o.trav = "" THEN [pat \in 1..3 |-> CmPos(r, p[2], pat - 1, -50, 50)] ELSE <<>>,
           sm |-> IF p[2] <= 6 /\ r.out = "acc" /\ o.trav = "" THEN [k \in 1..Len(SeamPats) |-> [Seamed(r, p[2], SeamPats[k]) EXCEPT !.used = @] @@ [bits |-> SeamPats[k]]] ELSE <<>>,
           sm2 |-> IF p[2] <= 6 /\ r.out = "acc" /\ o.trav = "" THEN [k \in 1..Len(SeamPairs) |-> Seamed2(r, p[2], SeamPats[SeamPairs[k][1]], SeamPats[SeamPairs[k][2]]) @@ [b1 |-> SeamPats[SeamPairs[k][1]], b2 |-> SeamPats[SeamPairs[k][2]]]] ELSE <<>>]
\* a string that does not start with E is refused at its first symbol whatever the parameters are: one tuple stands for all
PSet == IF syms[1] = "E" \/ Params = {} THEN Params ELSE {CHOOSE p \in Params : TRUE}
EmitRows == (Emit /\ Len(syms) >= 1) => \A p \in PSet : PrintT(ToJson(Row(p)))
\* the same strings and parameters through the valence traversal (strings that start with E only: the first symbol is E by definition)
RowV(p) == LET r == DecodeV(syms, p[1], p[2], p[3], p[4], p[5])  o == Order(r, p[2]) IN
          [mode |-> "val", s |-> StrR(syms), nv |-> p[1], nf |-> p[2], nss |-> p[3], ev |-> p[4], sb |-> p[5], out |-> r.out, np |-> r.np, faces |-> r.faces, ctx |-> r.ctx,
           trav |-> o.trav, vidx |-> o.vidx]
EmitRowsV == (Emit /\ Len(syms) >= 1 /\ syms[1] = "E") => \A p \in Params : PrintT(ToJson(RowV(p)))
GuardsV == (Len(syms) >= 1 /\ syms[1] = "E") => \A p \in Params : ConnValid(DecodeV(syms, p[1], p[2], p[3], p[4], p[5]))
\* the header guards on their own: every small tuple of declared counts over a string of E symbols
HRow(nv, nf, nsym, nss) == LET ss == [i \in 1..nsym |-> "E"] r == Decode(ss, nv, nf, nss, <<>>, <<0, 0, 0>>) IN
          [s |-> StrR(ss), nv |-> nv, nf |-> nf, nss |-> nss, ev |-> <<>>, sb |-> <<0, 0, 0>>, out |-> r.out, np |-> r.np, faces |-> r.faces]
HeaderRows == (Emit /\ syms = <<>>) => \A nv \in 0..10, nf \in 0..5, nsym \in 0..5, nss \in 0..2 : PrintT(ToJson(HRow(nv, nf, nsym, nss)))
\* attribute decoder headers over two small meshes: 0..2 announced attribute-data blocks x 0..2 decoders of (id -2..1, type 0..2, traversal 0..2)
DecSet == {<<id, ty, tr>> : id \in -2..1, ty \in 0..2, tr \in 0..2}
DecLists == {<<>>} \cup {<<a>> : a \in DecSet} \cup {<<a, b>> : a \in DecSet, b \in DecSet}
HdRow(p, nad, decs) == LET r == Decode(syms, p[1], p[2], p[3], p[4], p[5])  h == HeaderCase(r, p[2], nad, decs) IN
   [mode |-> "hd", s |-> StrR(syms), nv |-> p[1], nf |-> p[2], nss |-> p[3], ev |-> p[4], sb |-> p[5], nad |-> nad, decs |-> decs,
    out |-> h.out, np |-> h.np, faces |-> h.faces, used |-> h.used, cnt |-> h.cnt]
HdRows == (Emit /\ syms \in {<<"E">>, <<"E", "R">>}) =>
   LET Acc == {p \in Params : Decode(syms, p[1], p[2], p[3], p[4], p[5]).out = "acc"} IN
   Acc # {} => LET p == CHOOSE q \in Acc : TRUE IN \A nad \in 0..2, decs \in DecLists : PrintT(ToJson(HdRow(p, nad, decs)))
Guards == Len(syms) >= 1 => \A p \in PSet : ConnValid(Decode(syms, p[1], p[2], p[3], p[4], p[5]))
Spec == Init /\ [][Next]_syms
=============================================================================
