CONSTANTS MaxCalls = 4 Emit = TRUE
SPECIFICATION Spec
INVARIANT IdsDistinct IdsNotZero FramesStable EmitRow
CHECK_DEADLOCK FALSE
