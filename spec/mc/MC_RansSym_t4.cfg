CONSTANTS P = 16 L = 64 IOB = 8 NSym = 4 MaxTotal = 10 MaxLen = 6 Emit = FALSE PBits = 4
SPECIFICATION Spec
INVARIANT StateRange NormalizeOK NeverFails TableRoundTrip RoundTrip EmitRow
CHECK_DEADLOCK FALSE
