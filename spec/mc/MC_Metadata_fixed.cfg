CONSTANTS MaxNameLen = 2 Propagate = TRUE AcceptEmpty = TRUE MaxLevel = 1000 Emit = FALSE
SPECIFICATION Spec
INVARIANT InvRoundTrip EmitRow
CHECK_DEADLOCK FALSE
