CONSTANTS Geoms = {1, 2} Opts = {1, 2, 3} BadOpt = 3 MaxLen = 4 Emit = TRUE
SPECIFICATION Spec
INVARIANT AppendOnly EmitRow
CHECK_DEADLOCK FALSE
