CONSTANT Q = 3
SPECIFICATION Spec
INVARIANT InvInvertible InvCorrRange ToolboxOK
CHECK_DEADLOCK FALSE
