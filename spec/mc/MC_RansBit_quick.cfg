CONSTANTS P = 16  L = 64  IOB = 4  MaxLen = 8
SPECIFICATION Spec
INVARIANT StateRange InitOK Lossless PrefixOK ClassLevel
CHECK_DEADLOCK FALSE
