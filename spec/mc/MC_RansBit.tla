------------------------------ MODULE MC_RansBit ------------------------------
(* rABS at scaled constants (P = 16, L = 4*P, 4-bit units, so that L*IO fits the 10-bit class-2 field exactly as 2^20 fits 22 bits in production): every bit sequence up to MaxLen, coded
   (a) with the probability RAnsBitEncoder derives from the counts and (b) with every p0 in 1..P-1
   (what the adaptive coder can supply).  Level A: the decoder returns the same bits, the state stays
   in [L, L*IO) after every write, the decoder consumes every emitted unit.                        *)
EXTENDS Integers, Sequences, TLC, BitCoders
CONSTANT MaxLen
VARIABLES bits, p0, st, phase, d, got, buf
vars == <<bits, p0, st, phase, d, got, buf>>
Init == bits = <<>> /\ p0 = 0 /\ st = [x |-> L, out |-> <<>>] /\ phase = "build" /\ d = [x |-> 0, off |-> 0] /\ got = <<>> /\ buf = <<>>
AddBit == phase = "build" /\ Len(bits) < MaxLen /\ \E b \in {0, 1} : bits' = Append(bits, b) /\ UNCHANGED <<p0, st, phase, d, got, buf>>
ChooseP == /\ phase = "build" /\ Len(bits) > 0
           /\ \E q \in 1..(P - 1) : p0' = q
           /\ phase' = "write" /\ UNCHANGED <<bits, st, d, got, buf>>
VARIABLE wi
vars2 == <<bits, p0, st, phase, d, got, buf, wi>>
Init2 == Init /\ wi = 0
AddBit2 == AddBit /\ UNCHANGED wi
ChooseP2 == ChooseP /\ wi' = Len(bits)
Write2 == /\ phase = "write" /\ wi > 0
          /\ st' = RabsWrite(st, bits[wi], p0) /\ wi' = wi - 1
          /\ UNCHANGED <<bits, p0, phase, d, got, buf>>
Finish2 == /\ phase = "write" /\ wi = 0
           /\ LET payload == WriteEnd(st, 2) ini == ReadInit(payload, Len(payload), 2, TRUE) IN
              /\ buf' = payload /\ d' = ini.d /\ phase' = (IF ini.ok THEN "read" ELSE "initfail")
           /\ UNCHANGED <<bits, p0, st, got, wi>>
Read2 == /\ phase = "read" /\ Len(got) < Len(bits)
         /\ LET r == RabsRead(d, buf, p0) IN d' = r.d /\ got' = Append(got, r.val)
         /\ UNCHANGED <<bits, p0, st, phase, buf, wi>>
Next2 == AddBit2 \/ ChooseP2 \/ Write2 \/ Finish2 \/ Read2
Spec == Init2 /\ [][Next2]_vars2
\* ---------------- Level A ----------------
StateRange == phase = "write" => StateInRange(st.x)
InitOK == phase # "initfail"
\* the decoder refills lazily (at the next read), so "everything consumed" is stated after one pending refill
Settled(e) == IF e.x < L /\ e.off > 0 THEN [x |-> e.x * IO + buf[e.off], off |-> e.off - 1] ELSE e
Lossless == (phase = "read" /\ Len(got) = Len(bits)) => (got = bits /\ Settled(d).off = 0 /\ Settled(d).x = L)
PrefixOK == phase = "read" => got = SubSeq(bits, 1, Len(got))
\* the class-level encoder (probability from counts) agrees with the stepwise machine
ClassLevel == (phase = "build" /\ Len(bits) > 0) =>
     LET e == RansBitEncode(bits) IN RansBitDecode(e.p0, e.payload, Len(bits)) = [ok |-> TRUE, bits |-> bits]
=============================================================================
