----------------------------- MODULE MC_SeqDecoder -----------------------------
(* Every (declared points, declared faces, method, value list) within the bounds: values grow one at a time (the state), every complete
   list (3 * nf values) is decoded by the model under every declared point count and printed as a row for drv_fault hostile.
   Index-width boundaries are reached through the declared point count (WidthPoints: 255, 256, 65535, 65536, 2097151, 2097152): the assembler stores the same small indices in 1, 2, varint or 4 bytes accordingly.                            *)
EXTENDS SeqDecoder, Json, TLC, FiniteSets
CONSTANTS MaxFaces, MaxVal, Points, WidthPoints, Emit
VARIABLES vals
Init == vals = <<>>
Next == Len(vals) < 3 * MaxFaces /\ \E x \in 0..MaxVal : vals' = Append(vals, x)
Complete == Len(vals) % 3 = 0
NF == Len(vals) \div 3
Row(np, m) == LET r == Decode(NF, np, m, vals) IN
   [mode |-> "seq", nf |-> NF, nfd |-> "exact", npd |-> np, method |-> m, vals |-> vals, out |-> r.out, np |-> r.np, faces |-> r.faces]
\* declared face counts far beyond the data: "w1" = 0x55555556 and "w2" = 0xAAAAAAAC (3 * faces wraps to 2 / 4 in 32 bits), "max" = 2^32 - 1.  The
\* decoder refuses them before it looks at anything else (faces <= (2^32 - 1) / 3, faces <= remaining bytes / 3); TLC cannot hold the numbers, the
\* assembler writes them.
HugeRow(np, m, code) == [mode |-> "seq", nf |-> NF, nfd |-> code, npd |-> np, method |-> m, vals |-> vals, out |-> "rej:face-count-guard", np |-> 0, faces |-> <<>>]
HugeRows == (Emit /\ Len(vals) = 3) => \A np \in Points, m \in {0, 1}, code \in {"w1", "w2", "max"} : PrintT(ToJson(HugeRow(np, m, code)))
\* the large declared point counts matter to the stored-index branch only (they select the index width)
Cases == (Points \X {0, 1}) \cup (WidthPoints \X {1})
EmitRows == (Emit /\ Complete) => \A c \in Cases : PrintT(ToJson(Row(c[1], c[2])))
Guards == Complete => \A c \in Cases : ConnValid(Decode(NF, c[1], c[2], vals))
Spec == Init /\ [][Next]_vals
=============================================================================
