CONSTANTS NF = 2 NV = 5 Emit = TRUE
INIT Init
NEXT Nxt
INVARIANT RoundTripOK EmitRow
CHECK_DEADLOCK FALSE
