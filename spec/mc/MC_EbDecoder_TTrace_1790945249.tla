---- MODULE MC_EbDecoder_TTrace_1790945249 ----
EXTENDS Sequences, TLCExt, Toolbox, MC_EbDecoder, Naturals, TLC

_expression ==
    LET MC_EbDecoder_TEExpression == INSTANCE MC_EbDecoder_TEExpression
    IN MC_EbDecoder_TEExpression!expression
----

_trace ==
    LET MC_EbDecoder_TETrace == INSTANCE MC_EbDecoder_TETrace
    IN MC_EbDecoder_TETrace!trace
----

_inv ==
    ~(
        TLCGet("level") = Len(_TETrace)
        /\
        syms = (<<"E", "L", "R">>)
    )
----

_init ==
    /\ syms = _TETrace[1].syms
----

_next ==
    /\ \E i,j \in DOMAIN _TETrace:
        /\ \/ /\ j = i + 1
              /\ i = TLCGet("level")
        /\ syms  = _TETrace[i].syms
        /\ syms' = _TETrace[j].syms

\* Uncomment the ASSUME below to write the states of the error trace
\* to the given file in Json format. Note that you can pass any tuple
\* to `JsonSerialize`. For example, a sub-sequence of _TETrace.
    \* ASSUME
    \*     LET J == INSTANCE Json
    \*         IN J!JsonSerialize("MC_EbDecoder_TTrace_1790945249.json", _TETrace)

=============================================================================

 Note that you can extract this module `MC_EbDecoder_TEExpression`
  to a dedicated file to reuse `expression` (the module in the 
  dedicated `MC_EbDecoder_TEExpression.tla` file takes precedence 
  over the module `MC_EbDecoder_TEExpression` below).

---- MODULE MC_EbDecoder_TEExpression ----
EXTENDS Sequences, TLCExt, Toolbox, MC_EbDecoder, Naturals, TLC

expression == 
    [
        \* To hide variables of the `MC_EbDecoder` spec from the error trace,
        \* remove the variables below.  The trace will be written in the order
        \* of the fields of this record.
        syms |-> syms
        
        \* Put additional constant-, state-, and action-level expressions here:
        \* ,_stateNumber |-> _TEPosition
        \* ,_symsUnchanged |-> syms = syms'
        
        \* Format the `syms` variable as Json value.
        \* ,_symsJson |->
        \*     LET J == INSTANCE Json
        \*     IN J!ToJson(syms)
        
        \* Lastly, you may build expressions over arbitrary sets of states by
        \* leveraging the _TETrace operator.  For example, this is how to
        \* count the number of times a spec variable changed up to the current
        \* state in the trace.
        \* ,_symsModCount |->
        \*     LET F[s \in DOMAIN _TETrace] ==
        \*         IF s = 1 THEN 0
        \*         ELSE IF _TETrace[s].syms # _TETrace[s-1].syms
        \*             THEN 1 + F[s-1] ELSE F[s-1]
        \*     IN F[_TEPosition - 1]
    ]

=============================================================================



Parsing and semantic processing can take forever if the trace below is long.
 In this case, it is advised to uncomment the module below to deserialize the
 trace from a generated binary file.

\*
\*---- MODULE MC_EbDecoder_TETrace ----
\*EXTENDS IOUtils, MC_EbDecoder, TLC
\*
\*trace == IODeserialize("MC_EbDecoder_TTrace_1790945249.bin", TRUE)
\*
\*=============================================================================
\*

---- MODULE MC_EbDecoder_TETrace ----
EXTENDS MC_EbDecoder, TLC

trace == 
    <<
    ([syms |-> <<>>]),
    ([syms |-> <<"E">>]),
    ([syms |-> <<"E", "L">>]),
    ([syms |-> <<"E", "L", "R">>])
    >>
----


=============================================================================

---- CONFIG MC_EbDecoder_TTrace_1790945249 ----
CONSTANTS
    MaxSyms = 4
    Pairs = FALSE
    Emit = TRUE

INVARIANT
    _inv

CHECK_DEADLOCK
    \* CHECK_DEADLOCK off because of PROPERTY or INVARIANT above.
    FALSE

INIT
    _init

NEXT
    _next

CONSTANT
    _TETrace <- _trace

ALIAS
    _expression
=============================================================================
\* Generated on Fri Oct 02 12:47:43 UTC 2026