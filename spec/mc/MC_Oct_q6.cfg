CONSTANT Q = 6
SPECIFICATION Spec
INVARIANT InvInvertible InvCorrRange ToolboxOK
CHECK_DEADLOCK FALSE
