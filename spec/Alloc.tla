--------------------------------- MODULE Alloc ---------------------------------
(* C18: decoder memory is bounded by stream length and declared element counts.
   Quantities are in KiB.  len = input length, declared = 4 * (points * (1 + components) + 3 * faces + vertices + attributes)
   bytes as announced by the stream AT THE MOMENT of the allocation (a count that has not been read yet cannot justify
   anything).   Bound(x) = K0 + K * x with K0 = 64 MiB (fixed tables: each rANS look-up table has up to 2^20 32-bit entries and several coders are alive at once; worst peak observed for a 179-byte stream: 16.3 MiB) and K = 64.
   Anchors: the plausibility guards listed in the property (rans_symbol_decoder.h, attributes_decoder.cc, mesh_sequential_decoder.cc,
   mesh_edgebreaker_decoder_impl.cc, prediction scheme decoders, direct_bit_decoder.cc, metadata_decoder.cc).             *)
EXTENDS Integers
K0 == 65536
K == 64
Bound(lenKb, declaredKb) == K0 + K * (lenKb + declaredKb)
CeilKb(bytes) == (bytes + 1023) \div 1024
\* summary of one decode call: largest single request, peak of live memory, a request that was refused (> 64 MiB, simulated failure)
AllocBounded(r) ==
  LET lenKb == CeilKb(r.len) IN
  /\ r.max_single_kb <= Bound(lenKb, r.declared_kb)
  /\ r.peak_kb <= Bound(lenKb, r.declared_end_kb)
  \* a refused request (above 64 MiB) in MiB: K0 = 64 MiB, the stream is at most 1 MiB long in every corpus
  /\ (r.refused > 0 => r.refused_mb <= 64 + K * (((lenKb + 1023) \div 1024) + r.declared_at_refused_mb))

\* ---------------- the guards of the code as preconditions (Level B): each guarded count, once it passes its guard, sizes an array that
\* the bound dominates.  rem = remaining input bytes, np / nf / nc = declared points / faces / corners, e = element size in bytes.
GuardOK(count, limit) == count <= limit
ArrayKb(count, e) == CeilKb(count * e)
Dominated(count, e, lenB, declaredB) == ArrayKb(count, e) <= Bound(CeilKb(lenB), CeilKb(declaredB))
=============================================================================
