-------------------------------- MODULE Lifecycle --------------------------------
(* C06: encoding and decoding are deterministic functions of their inputs -- across repeated calls and fresh or REUSED objects.
   Objects: one high-level Encoder (options persist between calls; every call sets every option it depends on again, nothing is reset),
   one reused ExpertEncoder per geometry (same discipline), one reused low-level encoder object per geometry kind
   (MeshEdgebreakerEncoder / PointCloudSequentialEncoder: SetMesh / SetPointCloud + Encode), one EncoderBuffer that is only cleared
   when the history says so, one reused Decoder.  The codec itself is an UNINTERPRETED function: F(g, o) is the byte string that
   encoding geometry g with option set o must append, whatever happened before; option set "bad" must fail every time and leave
   no trace.  Anchors: compression/encode.cc, expert_encode.cc, point_cloud/point_cloud_encoder.cc ("cleanup from previous runs"),
   mesh/mesh_edgebreaker_encoder_impl.cc (resets), core/encoder_buffer.cc, compression/decode.cc.                              *)
EXTENDS Integers, Sequences
CONSTANTS Geoms, Opts, BadOpt
Keys == Geoms \X Opts
\* abstract state: the sequence of stream ids in the buffer
VARIABLES buf, hist
lvars == <<buf, hist>>
F(g, o) == <<g, o>>                        \* uninterpreted: a stream is identified by what it was made from
LInit == buf = <<>> /\ hist = <<>>
\* both API levels have the same contract
Encode(level, g, o) == /\ buf' = IF o = BadOpt THEN buf ELSE Append(buf, F(g, o))
                       /\ hist' = Append(hist, [a |-> level, g |-> g, o |-> o])
Clear == buf' = <<>> /\ hist' = Append(hist, [a |-> "clear", g |-> 0, o |-> 0])
\* decoding the last stream of the buffer, followed by `trail` foreign bytes: result D(stream), exactly the stream consumed
DecodeLast(trail) == /\ buf # <<>> /\ UNCHANGED buf
                     /\ hist' = Append(hist, [a |-> "dec", g |-> trail, o |-> 0])
\* "hl" = one Encoder object, "ll" = one reused low-level encoder per geometry kind, "ex" = one reused ExpertEncoder per geometry
LNext == \/ \E g \in Geoms, o \in Opts : Encode("hl", g, o) \/ Encode("ll", g, o) \/ Encode("ex", g, o)
         \/ Clear
         \/ \E t \in {0, 7} : DecodeLast(t)
=============================================================================
