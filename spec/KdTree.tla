-------------------------------- MODULE KdTree --------------------------------
(* The integer kd-tree point coder of bitstream 2.3 (DynamicIntegerPointsKdTreeEncoder / ...Decoder, point_cloud/algorithms), transcribed at
   the level of the REQUESTS the two sides make to their four bit coders -- which coder classes serve the requests (direct bits, rABS bits,
   folded 32-bit numbers: compression levels 0..6) is below this module; the level only matters through `sel` (level 6: the split axis of a
   node is chosen, not cycled) and `T` (nodes of T or more points carry their axis as a 4-bit number; the code says 64).

   A point is a sequence of D naturals below 2^B.  A node is (points, base, levels, last axis, stack position): `levels[a]` bits of axis a
   are already fixed to `base[a]`.  One step on a node:
     - axis := next axis (cycled, least-refined, or read/written as a 4-bit number);
     - all B bits of that axis fixed: the node's points are `base`, nothing is coded;
     - 1 or 2 points: every point's remaining bits, axis by axis starting at `axis`, go to the remaining-bits coder;
     - otherwise the node is split in the middle of the axis' remaining range: the smaller half's distance from n/2 goes to the numbers coder
       (floor(log2 n) bits), one bit to the half coder if the halves differ; second (upper) half first, on stack position + 1.
   Encode:  point sequence -> four request lists (and the order in which a decoder will return the points).
   Decode:  four lists of raw values, served request by request (value mod 2^bits, 0 when a list is exhausted) -> accept(points) or
            reject(reason), the requests made, the highest stack position touched.
   Design properties (checked by MC_KdTree):
     RoundTrip   Decode(Encode(P)) accepts, returns P as a multiset, consumes exactly the encoder's requests;
     Safe        for ANY served values: every stack index stays within B * D (the arrays hold 32 * D + 1 entries), every axis used as an
                 index is < D, an accepted decode has exactly the declared number of points, all below 2^B.
   Level B (drift) when replayed against the real classes; the verdict there is Level A of C02 / C03 (Trace_Fault).                     *)
EXTENDS Integers, Sequences
Msb(n) == CHOOSE k \in 0..29 : 2^k <= n /\ n < 2^(k + 1)          \* MostSignificantBit, n >= 1
IncMod(a, D) == IF a = D - 1 THEN 0 ELSE a + 1                     \* DRACO_INCREMENT_MOD
Upd(s, a, v) == [s EXCEPT ![a + 1] = v]                            \* axes are 0-based in the code, sequences 1-based here
At(s, a) == s[a + 1]
Zeros(D) == [i \in 1..D |-> 0]
RECURSIVE MinAxis(_, _, _, _)
MinAxis(levels, D, best, a) == IF a >= D THEN best ELSE MinAxis(levels, D, IF At(levels, best) > At(levels, a) THEN a ELSE best, a + 1)
Max(a, b) == IF a > b THEN a ELSE b

\* ------------------------------------------------------------------------------------------------------------------ std::partition (libstdc++)
\* bidirectional version: advance `first` over elements that satisfy the predicate, retreat `last` over those that do not, swap, repeat.
\* The predicate is p[axis] < v.  f is an index, l is one past the range.
Swap(s, i, j) == [s EXCEPT ![i] = s[j], ![j] = s[i]]
RECURSIVE SkipF(_, _, _, _, _), SkipL(_, _, _, _, _), Part(_, _, _, _, _)
SkipF(s, f, l, ax, v) == IF f = l THEN f ELSE IF At(s[f], ax) < v THEN SkipF(s, f + 1, l, ax, v) ELSE f
SkipL(s, f, l, ax, v) == IF f = l THEN l ELSE IF ~(At(s[l], ax) < v) THEN SkipL(s, f, l - 1, ax, v) ELSE l
Part(s, f, l, ax, v) ==
  LET f1 == SkipF(s, f, l, ax, v) IN
  IF f1 = l THEN [s |-> s, split |-> f1]
  ELSE LET l2 == SkipL(s, f1, l - 1, ax, v) IN
       IF l2 = f1 THEN [s |-> s, split |-> f1] ELSE Part(Swap(s, f1, l2), f1 + 1, l2, ax, v)

\* ------------------------------------------------------------------------------------------------------------------------------ the encoder
\* accumulator: request lists nq / rq (<<bits, value>>), aq (axis numbers), hq (bits), out (points in the order a decoder returns them), maxpos
EmptyAcc == [nq |-> <<>>, rq |-> <<>>, aq |-> <<>>, hq |-> <<>>, out |-> <<>>, maxpos |-> 0]
RECURSIVE Count(_, _, _, _)
Count(P, i, ax, v) == IF i > Len(P) THEN 0 ELSE (IF At(P[i], ax) < v THEN 1 ELSE 0) + Count(P, i + 1, ax, v)
\* the axis that keeps most points together (GetAndEncodeAxis, nodes of T or more points)
RECURSIVE BestDev(_, _, _, _, _, _, _, _)
BestDev(P, base, levels, D, B, i, bestv, best) ==
  IF i >= D THEN best
  ELSE LET nrb == B - At(levels, i)
           below == IF nrb > 0 THEN Count(P, 1, i, At(base, i) + 2^(nrb - 1)) ELSE 0
           dev == IF nrb > 0 THEN Max(Len(P) - below, below) ELSE 0
       IN IF nrb > 0 /\ bestv < dev THEN BestDev(P, base, levels, D, B, i + 1, dev, i) ELSE BestDev(P, base, levels, D, B, i + 1, bestv, best)
RECURSIVE LeafReqs(_, _, _, _, _, _, _), EncNode(_, _, _, _, _, _, _, _, _, _)
\* the remaining bits of one point, D axes starting at `axis`
LeafReqs(p, levels, D, B, axis, j, acc) ==
  IF j = D THEN acc
  ELSE LET nrb == B - At(levels, axis) IN
       LeafReqs(p, levels, D, B, IncMod(axis, D), j + 1, IF nrb > 0 THEN Append(acc, <<nrb, At(p, axis) % 2^nrb>>) ELSE acc)
EncNode(acc, P, base, levels, last, pos, D, B, sel, T) ==
  LET n == Len(P)
      big == sel /\ n >= T
      axis == IF ~sel THEN IncMod(last, D) ELSE IF ~big THEN MinAxis(levels, D, 0, 1) ELSE BestDev(P, base, levels, D, B, 0, 0, 0)
      acc1 == IF big THEN [acc EXCEPT !.aq = Append(@, axis)] ELSE acc
      level == At(levels, axis)
  IN IF B - level = 0 THEN [acc1 EXCEPT !.out = @ \o [i \in 1..n |-> base]]
     ELSE IF n <= 2 THEN
       LET r1 == LeafReqs(P[1], levels, D, B, axis, 0, acc1.rq)
           r2 == IF n = 2 THEN LeafReqs(P[2], levels, D, B, axis, 0, r1) ELSE r1
       IN [acc1 EXCEPT !.rq = r2, !.out = @ \o P]
     ELSE
       LET nrb == B - level
           nb == Upd(base, axis, At(base, axis) + 2^(nrb - 1))
           pt == Part(P, 1, n + 1, axis, At(nb, axis))
           fh == pt.split - 1
           sh == n - fh
           left == fh < sh
           acc2 == [acc1 EXCEPT !.hq = IF fh # sh THEN Append(@, IF left THEN 1 ELSE 0) ELSE @,
                                !.nq = Append(@, <<Msb(n), (n \div 2) - (IF left THEN fh ELSE sh)>>),
                                !.maxpos = Max(@, pos + 1)]
           lv == Upd(levels, axis, level + 1)
           acc3 == IF sh > 0 THEN EncNode(acc2, SubSeq(pt.s, fh + 1, n), nb, lv, axis, pos + 1, D, B, sel, T) ELSE acc2
       IN IF fh > 0 THEN EncNode(acc3, SubSeq(pt.s, 1, fh), base, lv, axis, pos, D, B, sel, T) ELSE acc3
Encode(P, D, B, sel, T) == IF Len(P) = 0 THEN EmptyAcc ELSE EncNode(EmptyAcc, P, Zeros(D), Zeros(D), 0, 0, D, B, sel, T)

\* ------------------------------------------------------------------------------------------------------------------------------ the decoder
\* input: raw value lists nums / rems / axs / hvs.  accumulator: cursors ni / ri / ai / hi, the requests made, out, maxpos, maxaxis, err
DecAcc0 == [ni |-> 1, ri |-> 1, ai |-> 1, hi |-> 1, nq |-> <<>>, rq |-> <<>>, aq |-> <<>>, hq |-> <<>>, out |-> <<>>, maxpos |-> 0, err |-> ""]
Served(list, i) == IF i <= Len(list) THEN list[i] ELSE 0
RECURSIVE LeafDec(_, _, _, _, _, _, _, _, _), DecNode(_, _, _, _, _, _, _, _, _, _, _)
\* one point's remaining bits: returns [acc, p]
LeafDec(acc, rems, p, base, levels, D, B, axis, j) ==
  IF j = D THEN [acc |-> acc, p |-> p]
  ELSE LET nrb == B - At(levels, axis)
           v == Served(rems, acc.ri) % 2^nrb
           acc1 == IF nrb > 0 THEN [acc EXCEPT !.ri = @ + 1, !.rq = Append(@, <<nrb, v>>)] ELSE acc
       IN LeafDec(acc1, rems, Upd(p, axis, At(base, axis) + (IF nrb > 0 THEN v ELSE 0)), base, levels, D, B, IncMod(axis, D), j + 1)
DecNode(acc, inp, n, base, levels, last, pos, D, B, sel, T) ==
  IF acc.err # "" THEN acc
  ELSE
  LET big == sel /\ n >= T
      axis == IF ~sel THEN IncMod(last, D) ELSE IF ~big THEN MinAxis(levels, D, 0, 1) ELSE Served(inp.axs, acc.ai) % 16
      acc1 == IF big THEN [acc EXCEPT !.ai = @ + 1, !.aq = Append(@, axis)] ELSE acc
  IN IF axis >= D THEN [acc1 EXCEPT !.err = "rej:axis"]
     ELSE LET level == At(levels, axis) IN
     IF B - level = 0 THEN [acc1 EXCEPT !.out = @ \o [i \in 1..n |-> base]]
     ELSE IF n <= 2 THEN
       LET d1 == LeafDec(acc1, inp.rems, Zeros(D), base, levels, D, B, axis, 0)
           d2 == IF n = 2 THEN LeafDec(d1.acc, inp.rems, Zeros(D), base, levels, D, B, axis, 0) ELSE d1
       IN [d2.acc EXCEPT !.out = @ \o (IF n = 2 THEN <<d1.p, d2.p>> ELSE <<d1.p>>)]
     ELSE
       LET nrb == B - level
           nb == Upd(base, axis, At(base, axis) + 2^(nrb - 1))
           bits == Msb(n)
           number == Served(inp.nums, acc1.ni) % 2^bits
           acc2 == [acc1 EXCEPT !.ni = @ + 1, !.nq = Append(@, <<bits, number>>), !.maxpos = Max(@, pos + 1)]
           half == n \div 2
       IN IF half < number THEN [acc2 EXCEPT !.err = "rej:number"]
          ELSE LET a == half - number
                   b == n - a
                   hb == Served(inp.hvs, acc2.hi) % 2
                   acc3 == IF a # b THEN [acc2 EXCEPT !.hi = @ + 1, !.hq = Append(@, hb)] ELSE acc2
                   fh == IF a # b /\ hb = 0 THEN b ELSE a
                   sh == n - fh
                   lv == Upd(levels, axis, level + 1)
                   acc4 == IF sh > 0 THEN DecNode(acc3, inp, sh, nb, lv, axis, pos + 1, D, B, sel, T) ELSE acc3
               IN IF fh > 0 THEN DecNode(acc4, inp, fh, base, lv, axis, pos, D, B, sel, T) ELSE acc4
\* n: the point count in the payload, mx: the number of points the caller's storage holds (the count in the cloud's header)
Decode(inp, n, mx, D, B, sel, T) ==
  IF B > 32 THEN [DecAcc0 EXCEPT !.err = "rej:bit-length"]
  ELSE IF n = 0 THEN (IF mx = 0 THEN DecAcc0 ELSE [DecAcc0 EXCEPT !.err = "rej:decoded-count"])
  ELSE IF n > mx THEN [DecAcc0 EXCEPT !.err = "rej:too-many-points"]
  ELSE LET r == DecNode(DecAcc0, inp, n, Zeros(D), Zeros(D), 0, 0, D, B, sel, T) IN
       IF r.err = "" /\ Len(r.out) # mx THEN [r EXCEPT !.err = "rej:decoded-count"] ELSE r

\* ------------------------------------------------------------------------------------------------------------------------------ properties
Values(q) == [i \in 1..Len(q) |-> q[i][2]]
RECURSIVE CountEq(_, _, _)
CountEq(s, x, i) == IF i > Len(s) THEN 0 ELSE (IF s[i] = x THEN 1 ELSE 0) + CountEq(s, x, i + 1)
SameBag(s, t) == Len(s) = Len(t) /\ \A i \in 1..Len(s) : CountEq(s, s[i], 1) = CountEq(t, s[i], 1)
RoundTrip(P, D, B, sel, T) ==
  LET e == Encode(P, D, B, sel, T)
      d == Decode([nums |-> Values(e.nq), rems |-> Values(e.rq), axs |-> e.aq, hvs |-> e.hq], Len(P), Len(P), D, B, sel, T)
  IN /\ d.err = ""
     /\ SameBag(d.out, P) /\ d.out = e.out
     /\ d.nq = e.nq /\ d.rq = e.rq /\ d.aq = e.aq /\ d.hq = e.hq          \* the decoder asks for exactly what the encoder wrote, in the same order
     /\ e.maxpos <= B * D
Safe(inp, n, D, B, sel, T) ==
  LET d == Decode(inp, n, n, D, B, sel, T) IN
  /\ d.maxpos <= B * D
  /\ d.err = "" => (Len(d.out) = n /\ \A i \in 1..n : \A a \in 1..D : d.out[i][a] < 2^B)
=============================================================================
