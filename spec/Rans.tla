--------------------------------- MODULE Rans ---------------------------------
(* Asymmetric numeral systems as in compression/entropy/ans.h: the binary coder (rABS: rabs_desc_write /
   rabs_desc_read, ans_write_end / ans_read_init) and the multi-symbol coder (RAnsEncoder / RAnsDecoder:
   rans_write, write_end, read_init, rans_read).  Generic in
       P    probability precision (256 for rABS; 2^precision_bits for rANS),
       L    lower bound of the normalised state interval [L, L*IO)  (4096 for rABS; 4*P for rANS),
       IOB  bits per emitted unit (8: bytes), IO = 2^IOB.
   Production constants keep every intermediate value below 2^31, so the same operators are
   model-checked at small constants and used for trace validation at production size.
   A coder state is [x |-> state, out |-> emitted units (oldest first)].                           *)
EXTENDS Integers, Sequences
CONSTANTS P, L, IOB
IO == 2^IOB

\* ---------------------------------------------------------------- rABS (binary)
\* rabs_desc_write(ans, val, p0): p0 = probability of a zero in 1/P units, 1 <= p0 <= P-1
RabsWrite(st, val, p0) ==
  LET p == P - p0
      ls == IF val = 1 THEN p ELSE p0
      renorm == st.x >= (L \div P) * IO * ls
      x1 == IF renorm THEN st.x \div IO ELSE st.x
      out1 == IF renorm THEN Append(st.out, st.x % IO) ELSE st.out
  IN [x |-> (x1 \div ls) * P + (x1 % ls) + (IF val = 1 THEN 0 ELSE p), out |-> out1]
\* rabs_desc_read: decoder state [x, off] over a unit sequence buf (off = number of units not yet consumed)
RabsRead(d, buf, p0) ==
  LET p == P - p0
      refill == d.x < L /\ d.off > 0
      x1 == IF refill THEN d.x * IO + buf[d.off] ELSE d.x
      off1 == IF refill THEN d.off - 1 ELSE d.off
      quot == x1 \div P
      rem == x1 % P
      xn == quot * p
      val == rem < p
  IN [val |-> IF val THEN 1 ELSE 0, d |-> [x |-> IF val THEN xn + rem ELSE x1 - xn - p, off |-> off1]]

\* ---------------------------------------------------------------- final state serialisation
\* ans_write_end / RAnsEncoder::write_end: (x - L) in a field of IOB*(c+1) - 2 bits, 2-bit class tag on top,
\* little endian units.  rABS allows classes 0..2, rANS 0..3.
FieldBits(c) == IOB * (c + 1) - 2
RECURSIVE LE(_, _)
LE(v, n) == IF n = 0 THEN <<>> ELSE <<v % IO>> \o LE(v \div IO, n - 1)
ClassOf(s, maxClass) == IF s < 2^FieldBits(0) THEN 0
                        ELSE IF s < 2^FieldBits(1) THEN 1
                        ELSE IF s < 2^FieldBits(2) /\ maxClass >= 2 THEN 2
                        ELSE IF maxClass >= 3 /\ s < 2^FieldBits(3) THEN 3 ELSE -1
WriteEnd(st, maxClass) ==
  LET s == st.x - L
      c == ClassOf(s, maxClass)
  IN IF c = -1 THEN st.out       \* "state too large": DCHECK only; nothing is appended
     ELSE st.out \o LE(c * 2^FieldBits(c) + s, c + 1)
RECURSIVE FromLE(_)
FromLE(u) == IF u = <<>> THEN 0 ELSE u[1] + IO * FromLE(Tail(u))
\* ans_read_init / RAnsDecoder::read_init: returns [ok, d]
ReadInit(buf, offset, maxClass, checkClass3Len) ==
  IF offset < 1 THEN [ok |-> FALSE, d |-> [x |-> 0, off |-> 0]]
  ELSE LET c == buf[offset] \div (2^(IOB - 2)) IN
       IF c > maxClass THEN [ok |-> FALSE, d |-> [x |-> 0, off |-> 0]]
       ELSE IF offset < c + 1 /\ (c < 3 \/ checkClass3Len) THEN [ok |-> FALSE, d |-> [x |-> 0, off |-> 0]]
       ELSE IF offset < c + 1 THEN [ok |-> FALSE, d |-> [x |-> -1, off |-> offset - 4]]   \* class 3 without length test: reads before the buffer (see DESIGN, candidate)
       ELSE LET v == FromLE(SubSeq(buf, offset - c, offset)) % (2^FieldBits(c))
                x == v + L
            IN IF x >= L * IO THEN [ok |-> FALSE, d |-> [x |-> x, off |-> offset - c - 1]]
               ELSE [ok |-> TRUE, d |-> [x |-> x, off |-> offset - c - 1]]

\* ---------------------------------------------------------------- rANS (multi-symbol)
\* a table is [prob, cum] : sequences indexed by symbol+1
RansWrite(st, prob, cum) ==
  LET RECURSIVE Renorm(_)
      Renorm(s) == IF s.x >= (L \div P) * IO * prob THEN Renorm([x |-> s.x \div IO, out |-> Append(s.out, s.x % IO)]) ELSE s
      s1 == Renorm(st)
  IN [x |-> (s1.x \div prob) * P + (s1.x % prob) + cum, out |-> s1.out]
\* symbol whose slot [cum, cum+prob) contains rem (the LUT of rans_build_look_up_table)
Lookup(probs, cums, rem) == CHOOSE s \in 1..Len(probs) : cums[s] <= rem /\ rem < cums[s] + probs[s]
RansRead(d, buf, probs, cums) ==
  LET RECURSIVE Refill(_)
      Refill(e) == IF e.x < L /\ e.off > 0 THEN Refill([x |-> e.x * IO + buf[e.off], off |-> e.off - 1]) ELSE e
      e1 == Refill(d)
      quo == e1.x \div P
      rem == e1.x % P
      s == Lookup(probs, cums, rem)
  IN [sym |-> s - 1, d |-> [x |-> quo * probs[s] + rem - cums[s], off |-> e1.off]]

\* ---------------------------------------------------------------- Level A helpers
StateInRange(x) == L <= x /\ x < L * IO
=============================================================================
