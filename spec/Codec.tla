--------------------------------- MODULE Codec ---------------------------------
(* The bitstream-level contract of the decoder: which (geometry type, major, minor) versions are accepted, the table of
   version-gated layout decisions, and the frozen-corpus history property of C05.
   Anchors: compression/config/compression_shared.h, compression/point_cloud/point_cloud_decoder.cc (Decode: version check),
   every `bitstream_version() < DRACO_BITSTREAM_VERSION(x, y)` branch under DRACO_BACKWARDS_COMPATIBILITY_SUPPORTED.   *)
EXTENDS Integers, Sequences, FiniteSets
PointCloudType == 0
MeshType == 1
MaxMajor(type) == 2
MaxMinor(type) == IF type = PointCloudType THEN 3 ELSE 2
V(maj, min) == maj * 256 + min                       \* DRACO_BITSTREAM_VERSION
\* PointCloudDecoder::Decode: 1 <= major <= max major; at the max major the minor must not exceed the max minor
Supported(type, maj, min) == /\ type \in {PointCloudType, MeshType}
                             /\ maj >= 1 /\ maj <= MaxMajor(type)
                             /\ (maj = MaxMajor(type) => min <= MaxMinor(type))
UnknownVersionCode == -5                              \* Status::UNKNOWN_VERSION
\* a stream of a version the decoder does not know must be refused with the version error (before any payload is interpreted)
VersionVerdictOK(type, maj, min, ok, code) == ~Supported(type, maj, min) => (~ok /\ code = UnknownVersionCode)

\* Version gates: feature |-> first version that uses the NEW layout (the legacy layout is taken for versions strictly below).
\* One entry per distinct threshold site family in the decoders.
Gate == [ counts_varint        |-> V(2, 0),    \* sequential / attribute counts: fixed 32-bit before 2.0, varint from 2.0
          rans_table_varint    |-> V(2, 0),    \* RAnsSymbolDecoder::Create / StartDecoding header fields
          int_attr_store_late  |-> V(2, 0),    \* SequentialIntegerAttributeDecoder::StoreValues timing
          quant_info_late      |-> V(2, 0),    \* quantisation / octahedron transform data position in the stream
          eb_hole_events_gone  |-> V(2, 1),    \* Edgebreaker hole events and legacy seam coding removed
          eb_new_vertex_count  |-> V(2, 2),    \* num_new_vertices field removed, connectivity size prefix removed
          eb_split_varint      |-> V(1, 2),    \* topology split events: u32 before 1.2
          eb_split_bits_packed |-> V(2, 2),    \* split edge bits: 2-bit legacy layout before 2.2
          eb_startface_rans    |-> V(2, 2),    \* start-face configurations rANS-coded from 2.2
          bitseq_size_varint   |-> V(2, 2),    \* DecoderBuffer::StartBitDecoding size field; RAnsBitDecoder size field
          seq_mesh_varint      |-> V(2, 2),    \* MeshSequentialDecoder counts and compressed indices
          traversal_method     |-> V(1, 2),    \* traversal method byte present
          attr_unique_id_u16   |-> V(1, 3),    \* attribute unique id width
          metadata             |-> V(1, 3),    \* metadata block allowed
          kd_tree_v23          |-> V(2, 3) ]   \* kd-tree attribute decoder: portable transforms data from 2.3
LegacyLayout(feature, maj, min) == V(maj, min) < Gate[feature]
\* every gate lies inside the supported range, so both branches of every gate are reachable by some accepted stream
GatesInRange == \A f \in DOMAIN Gate : Gate[f] > V(1, 0) /\ Gate[f] <= V(2, 3)

\* ---------------- C05 history property: once a stream has been frozen with a digest, every later decode yields that digest
FrozenOK(frozenDigest, ok, nowDigest) == ok /\ nowDigest = frozenDigest
=============================================================================
