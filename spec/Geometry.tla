------------------------------- MODULE Geometry -------------------------------
(* Abstract geometry and the property-level relations over it (Level A of C01, C03, C09, C10, C14, C15, C20).
   A projected geometry G is a record
       np     number of points
       faces  flat sequence of point ids (3 per face; empty for point clouds), point ids from 0
       atts   sequence of descriptors <<uid, type, dataType, components, normalized, quantised>> sorted by uid
       pt     pt[a][p+1] = value id of attribute a at point p; ids come from one dictionary per attribute that is
              shared by the geometries being compared (bit patterns -> ids; for quantised attributes the portable
              integers -> ids), so equal ids <=> equal values
   Anchors: mesh/mesh.h, point_cloud/point_cloud.h, attributes/point_attribute.h.                          *)
EXTENDS Integers, Sequences, FiniteSets
NF(G) == Len(G.faces) \div 3
Faces(G) == 0..(NF(G) - 1)
NA(G) == Len(G.atts)
\* the projection itself is well formed: faces come in threes and name existing points, every attribute has one value id per point.
\* Every relation below indexes pt by face entries, so a reader that returns garbage indices is rejected here, not by an evaluation error.
WellFormed(G) == /\ G.np >= 0 /\ Len(G.faces) % 3 = 0
                 /\ \A i \in 1..Len(G.faces) : G.faces[i] \in 0..(G.np - 1)
                 /\ Len(G.pt) = Len(G.atts)
                 /\ \A a \in 1..Len(G.pt) : Len(G.pt[a]) = G.np
\* value tuple of point p over all attributes
PointTuple(G, p) == [a \in 1..NA(G) |-> G.pt[a][p + 1]]
Corner(G, f, k) == PointTuple(G, G.faces[3 * f + k + 1])
Tri(G, f) == <<Corner(G, f, 0), Corner(G, f, 1), Corner(G, f, 2)>>
RotEq(t, u) == t = u \/ t = <<u[2], u[3], u[1]>> \/ t = <<u[3], u[1], u[2]>>
\* the same orientation is required: <<a,b,c>> and <<a,c,b>> are different triangles
CountTri(G, S, t) == Cardinality({f \in S : RotEq(Tri(G, f), t)})
SubBagTri(A, SA, B, SB) == \A f \in SA : CountTri(A, SA, Tri(A, f)) <= CountTri(B, SB, Tri(A, f))
CountPt(G, t) == Cardinality({p \in 0..(G.np - 1) : PointTuple(G, p) = t})
SubBagPt(A, B) == \A p \in 0..(A.np - 1) : CountPt(A, PointTuple(A, p)) <= CountPt(B, PointTuple(A, p))
\* index of the POSITION attribute (type 0) in the descriptor list
PosAtt(G) == CHOOSE a \in 1..NA(G) : G.atts[a][2] = 0
HasPos(G) == \E a \in 1..NA(G) : G.atts[a][2] = 0
\* a face that uses one position entry twice
PosDegenerate(G, f) == LET a == PosAtt(G)
                           x == G.pt[a][G.faces[3*f+1] + 1] y == G.pt[a][G.faces[3*f+2] + 1] z == G.pt[a][G.faces[3*f+3] + 1]
                       IN x = y \/ x = z \/ y = z
NonDegFaces(G) == {f \in Faces(G) : ~PosDegenerate(G, f)}
SameAttributes(A, B) == A.atts = B.atts

\* ---------------- C01: Equivalent(in, out, method)
\* sequential methods keep point and face order; kd-tree may permute points; Edgebreaker may reorder everything,
\* may drop triangles that repeat a position entry (permitted, not required) and points used by no triangle
Equivalent(A, B, method, isMesh) ==
  /\ WellFormed(A) /\ WellFormed(B)
  /\ SameAttributes(A, B)
  /\ IF ~isMesh THEN
        IF method = "seq" THEN A.np = B.np /\ A.pt = B.pt
        ELSE A.np = B.np /\ SubBagPt(A, B) /\ SubBagPt(B, A)
     ELSE IF method = "seq" THEN A.np = B.np /\ A.pt = B.pt /\ A.faces = B.faces
     ELSE /\ HasPos(A)
          /\ SubBagTri(A, NonDegFaces(A), B, Faces(B))       \* nothing non-degenerate is lost ...
          /\ SubBagTri(B, Faces(B), A, Faces(A))             \* ... and nothing is invented

\* ---------------- C03: StructValid on the facts read through the public accessors
\* sv = [np, nf, maxface, atts] with atts[a] = <<size, maxmap, bufbytes, components, dtlen, identity, stride, offset>>
StructValid(sv) ==
  /\ sv.maxface < sv.np                                      \* every face refers to existing points
  /\ \A a \in 1..Len(sv.atts) : LET t == sv.atts[a] IN
        /\ t[2] < t[1]                                       \* every point maps to an existing value
        /\ (t[6] = 1 /\ sv.np > 0) => t[1] >= sv.np          \* identity mapping needs one value per point
        /\ t[7] >= t[4] * t[5]                               \* the stride holds one value
        /\ t[3] >= t[8] + t[1] * t[7]                        \* storage holds size values

\* ---------------- C09: reported = decoded
CountsAgree(r) == r.rp = r.dp /\ r.rf = r.df
=============================================================================
