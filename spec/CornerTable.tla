----------------------------- MODULE CornerTable -----------------------------
(* CornerTable::Create on a triangle list (mesh/corner_table.cc), three phases transcribed step by step
   (Level B), and the consistency predicate of property C13 (Level A: CornerTableOK).
   A triangle list is a sequence F of vertex ids, 3 per face (corner c is F[c+1], corners numbered from 0).
   NV = number of original vertices (max id + 1).  INV = -1 stands for kInvalid*Index.               *)
EXTENDS Integers, Sequences, FiniteSets
INV == -1
Nx(c) == IF c = INV THEN INV ELSE IF c % 3 = 2 THEN c - 2 ELSE c + 1
Pv(c) == IF c = INV THEN INV ELSE IF c % 3 = 0 THEN c + 2 ELSE c - 1
NCof(F) == Len(F)
CornersOf(F) == 0..(Len(F) - 1)
V0(F, c) == F[c + 1]
MaxId(F) == IF F = <<>> THEN -1 ELSE LET S == {F[j] : j \in 1..Len(F)} IN CHOOSE m \in S : \A x \in S : x <= m
NumV0(F) == MaxId(F) + 1
Deg0(F, f) == LET a == V0(F, 3*f) b == V0(F, 3*f+1) c == V0(F, 3*f+2) IN a = b \/ a = c \/ b = c

\* ---------------- phase 1: ComputeOppositeCorners (bucketed half-edge matching, mirrored faces are not connected)
RECURSIVE OppR(_, _, _, _)
OppR(F, c, buckets, opp) ==
  IF c = Len(F) THEN opp
  ELSE IF Deg0(F, c \div 3) THEN OppR(F, c + 1, buckets, opp)
  ELSE LET tip == V0(F, c) src == V0(F, Nx(c)) snk == V0(F, Pv(c))
           b == buckets[snk]
           cand == { j \in 1..Len(b) : b[j].sink = src /\ V0(F, b[j].corner) # tip }
       IN IF cand # {} THEN
             LET j0 == CHOOSE j \in cand : \A t \in cand : j <= t
                 o == b[j0].corner
                 nb == [buckets EXCEPT ![snk] = SubSeq(b, 1, j0 - 1) \o SubSeq(b, j0 + 1, Len(b))]
             IN OppR(F, c + 1, nb, [opp EXCEPT ![c] = o, ![o] = c])
          ELSE OppR(F, c + 1, [buckets EXCEPT ![src] = Append(@, [sink |-> snk, corner |-> c])], opp)
Phase1(F) == OppR(F, 0, [v \in 0..(NumV0(F) - 1) |-> <<>>], [c \in CornersOf(F) |-> INV])

\* ---------------- phase 2: BreakNonManifoldEdges (to a fix-point)
Op(o, c) == IF c = INV THEN INV ELSE o[c]
SL(o, c) == Nx(Op(o, Nx(c)))          \* SwingLeft
SR(o, c) == Pv(Op(o, Pv(c)))          \* SwingRight
SetInv(o, c) == IF c = INV THEN o ELSE [o EXCEPT ![c] = INV]
RECURSIVE FanStart(_, _, _, _)
FanStart(o, vis, first, cur) == LET nx == SL(o, cur) IN
   IF nx # first /\ nx # INV /\ ~vis[nx] THEN FanStart(o, vis, first, nx) ELSE cur
RECURSIVE FanWalk(_, _, _, _, _, _)
FanWalk(F, o, vis, first, cur, sinks) ==
   LET vis2 == [vis EXCEPT ![cur] = TRUE]
       sinkc == Nx(cur) sinkv == V0(F, sinkc) edge == Pv(cur)
       hits == { j \in 1..Len(sinks) : sinks[j][1] = sinkv /\ Op(o, edge) # sinks[j][2] }
       firstHit == IF hits = {} THEN 0 ELSE CHOOSE j \in hits : \A t \in hits : j <= t
   IN IF firstHit # 0 THEN
         LET other == sinks[firstHit][2] oe == Op(o, edge) oo == Op(o, other)
             o2 == SetInv(SetInv(SetInv(SetInv(o, oe), oo), edge), other)
         IN [o |-> o2, vis |-> vis2, upd |-> TRUE]
      ELSE LET sinks2 == Append(sinks, <<V0(F, Pv(cur)), sinkc>>)
               nxt == SR(o, cur)
           IN IF nxt # first /\ nxt # INV THEN FanWalk(F, o, vis2, first, nxt, sinks2)
              ELSE [o |-> o, vis |-> vis2, upd |-> FALSE]
RECURSIVE Pass(_, _, _, _, _)
Pass(F, c, o, vis, upd) == IF c = Len(F) THEN [o |-> o, vis |-> vis, upd |-> upd]
   ELSE IF vis[c] THEN Pass(F, c + 1, o, vis, upd)
   ELSE LET fs == FanStart(o, vis, c, c) r == FanWalk(F, o, vis, fs, fs, <<>>) IN Pass(F, c + 1, r.o, r.vis, upd \/ r.upd)
RECURSIVE Break(_, _, _)
Break(F, o, iter) == LET p == Pass(F, 0, o, [c \in CornersOf(F) |-> FALSE], FALSE) IN
   IF p.upd /\ iter < 3 * Len(F) THEN Break(F, p.o, iter + 1) ELSE [o |-> p.o, iters |-> iter, stuck |-> p.upd]

\* ---------------- phase 3: ComputeVertexCorners (non-manifold vertices are split, parents recorded)
DegCur(m, f) == LET a == m[3*f] b == m[3*f+1] c == m[3*f+2] IN a = b \/ a = c \/ b = c
RECURSIVE LeftLoop(_, _, _, _, _, _, _), RightLoop(_, _, _, _, _, _)
LeftLoop(o, m, visC, act, c, v, nm) ==
   IF act = INV THEN [m |-> m, visC |-> visC, last |-> INV, open |-> TRUE]
   ELSE LET visC2 == [visC EXCEPT ![act] = TRUE] m2 == IF nm THEN [m EXCEPT ![act] = v] ELSE m nx == SL(o, act) IN
        IF nx = c THEN [m |-> m2, visC |-> visC2, last |-> act, open |-> FALSE]
        ELSE LET r == LeftLoop(o, m2, visC2, nx, c, v, nm) IN [r EXCEPT !.last = IF r.last = INV THEN act ELSE r.last]
RightLoop(o, m, visC, act, v, nm) ==
   IF act = INV THEN [m |-> m, visC |-> visC]
   ELSE RightLoop(o, IF nm THEN [m EXCEPT ![act] = v] ELSE m, [visC EXCEPT ![act] = TRUE], SR(o, act), v, nm)
RECURSIVE P3(_, _, _, _)
P3(NC, c, st, OPP2) ==
   IF c >= NC THEN st
   ELSE IF DegCur(st.m, c \div 3) THEN P3(NC, 3 * (c \div 3) + 3, st, OPP2)
   ELSE IF st.visC[c] THEN P3(NC, c + 1, st, OPP2)
   ELSE LET v0 == st.m[c] nm == st.visV[v0 + 1]
            v == IF nm THEN Len(st.vc) ELSE v0
            vc1 == IF nm THEN Append(st.vc, INV) ELSE st.vc
            par1 == IF nm THEN Append(st.par, v0) ELSE st.par
            visV1 == [ (IF nm THEN Append(st.visV, FALSE) ELSE st.visV) EXCEPT ![v + 1] = TRUE]
            l == LeftLoop(OPP2, st.m, st.visC, c, c, v, nm)
            r == IF l.open THEN RightLoop(OPP2, l.m, l.visC, SR(OPP2, c), v, nm) ELSE [m |-> l.m, visC |-> l.visC]
        IN P3(NC, c + 1, [m |-> r.m, vc |-> [vc1 EXCEPT ![v + 1] = l.last], par |-> par1, visV |-> visV1, visC |-> r.visC], OPP2)
P3Init(F) == [m |-> [c \in CornersOf(F) |-> V0(F, c)], vc |-> [j \in 1..NumV0(F) |-> INV], par |-> <<>>,
              visV |-> [j \in 1..NumV0(F) |-> FALSE], visC |-> [c \in CornersOf(F) |-> FALSE]]

\* whole algorithm: [opp, m (corner->vertex), vc (vertex->leftmost corner), par, stuck, iters, iso, deg]
Create(F) ==
  LET o1 == Phase1(F)
      brk == Break(F, o1, 0)
      fin == P3(Len(F), 0, P3Init(F), brk.o)
  IN [opp |-> brk.o, m |-> fin.m, vc |-> fin.vc, par |-> fin.par, stuck |-> brk.stuck, iters |-> brk.iters,
      iso |-> Cardinality({j \in 1..Len(fin.visV) : ~fin.visV[j]}),
      deg |-> Cardinality({f \in 0..((Len(F) \div 3) - 1) : Deg0(F, f)})]

\* ---------------- Level A: CornerTableOK(F, ct) for ct = [opp, m, vc, par]  (functions over corners / sequences)
RECURSIVE ParStar(_, _, _, _)
\* total: a vertex beyond the input ids without a recorded parent maps to nothing (INV never equals an input id)
ParStar(par, nv0, v, fuel) == IF v < nv0 \/ fuel = 0 THEN v
                              ELSE IF v - nv0 + 1 > Len(par) THEN INV ELSE ParStar(par, nv0, par[v - nv0 + 1], fuel - 1)
RECURSIVE Ring(_, _, _, _)
Ring(o, c, acc, left) == IF c = INV \/ c \in acc THEN acc ELSE Ring(o, IF left THEN SL(o, c) ELSE SR(o, c), acc \cup {c}, left)
CornerTableOK(F, ct) ==
   LET C == CornersOf(F) nv0 == NumV0(F) NF == Len(F) \div 3 IN
   \* opposite is a symmetric pairing across a shared, oppositely oriented edge of two non-degenerate faces
   /\ \A c \in C : ct.opp[c] # INV =>
        /\ ct.opp[c] \in C /\ ct.opp[ct.opp[c]] = c /\ ct.opp[c] # c
        /\ V0(F, Nx(c)) = V0(F, Pv(ct.opp[c])) /\ V0(F, Pv(c)) = V0(F, Nx(ct.opp[c]))
        /\ ~Deg0(F, c \div 3) /\ ~Deg0(F, ct.opp[c] \div 3)
   \* degenerate faces are unlinked
   /\ \A f \in 0..(NF - 1) : Deg0(F, f) => \A t \in 0..2 : ct.opp[3*f + t] = INV
   \* every corner of a non-degenerate face maps through the parent relation to the input vertex id
   /\ \A c \in C : ~Deg0(F, c \div 3) => ParStar(ct.par, nv0, ct.m[c], Len(ct.par) + 1) = V0(F, c)
   \* all corners of a vertex form one fan reachable from its representative (left-most) corner
   /\ \A v \in 0..(Len(ct.vc) - 1) : ct.vc[v + 1] # INV =>
        LET c0 == ct.vc[v + 1] fan == Ring(ct.opp, c0, {}, TRUE) \cup Ring(ct.opp, c0, {}, FALSE) IN
        /\ c0 \in C /\ ct.m[c0] = v
        /\ fan = {c \in C : ct.m[c] = v /\ ~Deg0(F, c \div 3)}
        /\ (SL(ct.opp, c0) = INV \/ Ring(ct.opp, c0, {}, TRUE) = fan)
   \* the fan of a vertex passes every edge once: two corners of the same table vertex never leave it along the same directed edge (a fan that met
   \* an edge twice would not be a fan of a manifold neighbourhood -- this is what breaking the non-manifold edges is for)
   /\ \A c1 \in C : \A c2 \in C :
        (c1 # c2 /\ ~Deg0(F, c1 \div 3) /\ ~Deg0(F, c2 \div 3) /\ ct.m[c1] = ct.m[c2] /\ ct.m[Nx(c1)] = ct.m[Nx(c2)]) => ct.opp[Pv(c1)] = INV \/ ct.opp[Pv(c2)] = INV
   \* every vertex used by a non-degenerate face has a representative corner
   /\ \A c \in C : ~Deg0(F, c \div 3) => (ct.m[c] \in 0..(Len(ct.vc) - 1) /\ ct.vc[ct.m[c] + 1] # INV)
=============================================================================
