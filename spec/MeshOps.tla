-------------------------------- MODULE MeshOps --------------------------------
(* Mesh-building and clean-up utilities (C14): TriangleSoupMeshBuilder / PointCloudBuilder, value and point-id deduplication,
   MeshCleanup, MeshStripifier.  Level A over projected geometries (module Geometry) extended with
       vidx   vidx[a][p+1] = value INDEX (AttributeValueIndex) of attribute a at point p   (structure, not value)
       sizes  sizes[a]     = number of stored values of attribute a
   Anchors: mesh/triangle_soup_mesh_builder.cc, point_cloud/point_cloud_builder.cc, point_cloud/point_cloud.cc, attributes/point_attribute.cc,
   mesh/mesh_cleanup.cc, mesh/mesh_stripifier.h.                                                                             *)
EXTENDS Integers, Sequences, FiniteSets, Geometry
SameBagTri(A, B) == SubBagTri(A, Faces(A), B, Faces(B)) /\ SubBagTri(B, Faces(B), A, Faces(A))
SameBagPt(A, B) == A.np = B.np /\ SubBagPt(A, B) /\ SubBagPt(B, A)
\* after value deduplication: as many stored values as distinct value ids in use (no two identical values), and every index in range
NoDupValues(G) == \A a \in 1..NA(G) :
   LET used == {G.vidx[a][p] : p \in 1..G.np} IN
   /\ \A p, q \in 1..G.np : (G.vidx[a][p] = G.vidx[a][q]) <=> (G.pt[a][p] = G.pt[a][q])     \* equal index <=> equal value
   /\ G.sizes[a] = Cardinality(used)
\* after point-id deduplication: no two points with the same tuple of value indices
IdxTuple(G, p) == [a \in 1..NA(G) |-> G.vidx[a][p]]
NoDupPoints(G) == \A p, q \in 1..G.np : p # q => IdxTuple(G, p) # IdxTuple(G, q)

\* ---------------- MeshCleanup: the documented removals
FacePts(G, f) == <<G.faces[3*f+1], G.faces[3*f+2], G.faces[3*f+3]>>
Degenerate3Pts(t) == t[1] = t[2] \/ t[1] = t[3] \/ t[2] = t[3]
RotEqPts(t, u) == t = u \/ t = <<u[2], u[3], u[1]>> \/ t = <<u[3], u[1], u[2]>>
\* degenerate = the POSITION value index is used twice by the face
PosIdxDegenerate(G, f) == LET a == PosAtt(G) x == G.vidx[a][G.faces[3*f+1] + 1] y == G.vidx[a][G.faces[3*f+2] + 1] z == G.vidx[a][G.faces[3*f+3] + 1]
                          IN x = y \/ x = z \/ y = z
KeptAfterDegenerate(G, opt) == IF opt THEN {f \in Faces(G) : ~PosIdxDegenerate(G, f)} ELSE Faces(G)
\* duplicate = an EARLIER kept face has the same three point ids up to rotation
KeptAfterDuplicate(G, S, opt) == IF opt THEN {f \in S : ~\E g \in S : g < f /\ RotEqPts(FacePts(G, g), FacePts(G, f))} ELSE S
ExpectedFaces(G, degOpt, dupOpt) == KeptAfterDuplicate(G, KeptAfterDegenerate(G, degOpt), dupOpt)
\* Faces that repeat a POINT id have no unique "smallest index first" rotation, and RemoveDuplicateFaces detects duplicates among them only
\* partially (observation O2 in DESIGN.md).  The oracle therefore sandwiches: such faces may or may not be recognised as duplicates.
PtDegenerate(G, f) == Degenerate3Pts(FacePts(G, f))
KeptAfterDuplicateLoose(G, S, opt) == IF opt THEN {f \in S : PtDegenerate(G, f) \/ ~\E g \in S : g < f /\ RotEqPts(FacePts(G, g), FacePts(G, f))} ELSE S
ExpectedFacesMax(G, degOpt, dupOpt) == KeptAfterDuplicateLoose(G, KeptAfterDegenerate(G, degOpt), dupOpt)
UsedPoints(G, S) == UNION {{G.faces[3*f+1], G.faces[3*f+2], G.faces[3*f+3]} : f \in S}
CleanupOK(A, B, degOpt, dupOpt, unusedOpt) ==
  LET S == ExpectedFaces(A, degOpt, dupOpt)
      T == ExpectedFacesMax(A, degOpt, dupOpt) IN
  /\ NF(B) >= Cardinality(S) /\ NF(B) <= Cardinality(T)
  /\ SubBagTri(A, S, B, Faces(B)) /\ SubBagTri(B, Faces(B), A, T)            \* exactly the expected triangles, values and orientation intact
  /\ IF unusedOpt THEN /\ UsedPoints(B, Faces(B)) = 0..(B.np - 1)            \* unreferenced points are gone, all others kept
                       /\ B.np >= Cardinality(UsedPoints(A, S)) /\ B.np <= Cardinality(UsedPoints(A, T))
                       /\ \A a \in 1..NA(B) : B.sizes[a] = Cardinality({B.vidx[a][p] : p \in 1..B.np})   \* unused values are gone
     ELSE B.np = A.np

\* ---------------- triangle strips
\* triangles of one strip <<s1..sn>>: the k-th triangle flips its first two indices when k is even
StripTris(s) == [k \in 1..(Len(s) - 2) |-> IF k % 2 = 1 THEN <<s[k], s[k+1], s[k+2]>> ELSE <<s[k+1], s[k], s[k+2]>>]
RECURSIVE SplitAt(_, _, _)
SplitAt(s, r, acc) == IF s = <<>> THEN (IF acc = <<>> THEN <<>> ELSE <<acc>>)
                      ELSE IF Head(s) = r THEN (IF acc = <<>> THEN SplitAt(Tail(s), r, <<>>) ELSE <<acc>> \o SplitAt(Tail(s), r, <<>>))
                      ELSE SplitAt(Tail(s), r, Append(acc, Head(s)))
RECURSIVE Concat(_)
Concat(ss) == IF ss = <<>> THEN <<>> ELSE Head(ss) \o Concat(Tail(ss))
Degenerate3(t) == t[1] = t[2] \/ t[1] = t[3] \/ t[2] = t[3]
\* restart mode: parity restarts after every restart index; degenerate mode: one long strip, degenerate triangles are connectors
TrisRestart(idx, r) == Concat([j \in 1..Len(SplitAt(idx, r, <<>>)) |-> StripTris(SplitAt(idx, r, <<>>)[j])])
TrisDegenerate(idx) == SelectSeq(StripTris(idx), LAMBDA t : ~Degenerate3(t))
CountPts(seq, t) == Cardinality({j \in 1..Len(seq) : RotEqPts(seq[j], t)})
MeshTris(G, S) == {FacePts(G, f) : f \in S}
StripsOK(G, tris, dropDegenerate) ==
  LET S == IF dropDegenerate THEN {f \in Faces(G) : ~Degenerate3(FacePts(G, f))} ELSE Faces(G) IN
  /\ Len(tris) = Cardinality(S)
  /\ \A f \in S : CountPts(tris, FacePts(G, f)) = Cardinality({g \in S : RotEqPts(FacePts(G, g), FacePts(G, f))})
=============================================================================
