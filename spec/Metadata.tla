------------------------------- MODULE Metadata -------------------------------
(* Metadata trees and their coding.  Anchors: metadata/metadata_encoder.cc (EncodeMetadata recursion,
   EncodeString), metadata/metadata_decoder.cc (explicit stack, DecodeEntry, DecodeName).
   A tree is a record  [e |-> <<  <<name, value>>, ... >>,  s |-> << <<name, tree>>, ... >>]  with both lists in
   std::map order (names ascending as byte strings, unique); names and values are sequences of bytes.
   The coder works on a token stream (Level B); tokens:  <<"n", k>> a count (varint),  <<"s", bytes>> a
   length-prefixed name,  <<"v", bytes>> a length-prefixed value.
   Parameters describe the tree under test:
     MaxNameLen      names longer than this make EncodeString fail (255 in the code)
     Propagate       TRUE: nested failures are reported to the caller (after fix F3); FALSE: ignored (pinned commit)
     AcceptEmpty     TRUE: the decoder accepts zero-length values (after fix F2); FALSE: rejects them (pinned commit)
     MaxLevel        kMaxSubmetadataLevel (1000)                                                            *)
EXTENDS Integers, Sequences
CONSTANTS MaxNameLen, Propagate, AcceptEmpty, MaxLevel

\* ---------------------------------------------------------------- encoder (recursion, as written)
RECURSIVE EncTree(_), EncEntries(_, _, _), EncSubs(_, _, _)
EncEntries(es, j, toks) ==
  IF j > Len(es) THEN [ok |-> TRUE, toks |-> toks]
  ELSE IF Len(es[j][1]) > MaxNameLen THEN [ok |-> FALSE, toks |-> toks]                 \* EncodeString fails: return false
  ELSE EncEntries(es, j + 1, toks \o << <<"s", es[j][1]>>, <<"v", es[j][2]>> >>)
EncSubs(ss, j, toks) ==
  IF j > Len(ss) THEN [ok |-> TRUE, toks |-> toks]
  ELSE IF Len(ss[j][1]) > MaxNameLen THEN [ok |-> FALSE, toks |-> toks]
  ELSE LET r == EncTree(ss[j][2]) IN
       IF Propagate /\ ~r.ok THEN [ok |-> FALSE, toks |-> toks \o << <<"s", ss[j][1]>> >> \o r.toks]
       ELSE EncSubs(ss, j + 1, toks \o << <<"s", ss[j][1]>> >> \o r.toks)              \* result of the nested call ignored
EncTree(t) ==
  LET a == EncEntries(t.e, 1, << <<"n", Len(t.e)>> >>) IN
  IF ~a.ok THEN a
  ELSE EncSubs(t.s, 1, a.toks \o << <<"n", Len(t.s)>> >>)
\* geometry metadata: attribute metadata list (unique id + tree each), then the tree itself
RECURSIVE EncAtts(_, _, _)
EncAtts(atts, j, toks) ==
  IF j > Len(atts) THEN [ok |-> TRUE, toks |-> toks]
  ELSE LET r == EncTree(atts[j][2]) IN
       IF Propagate /\ ~r.ok THEN [ok |-> FALSE, toks |-> toks \o << <<"n", atts[j][1]>> >> \o r.toks]
       ELSE EncAtts(atts, j + 1, toks \o << <<"n", atts[j][1]>> >> \o r.toks)
EncGeometry(atts, t) ==
  LET a == EncAtts(atts, 1, << <<"n", Len(atts)>> >>) IN
  IF ~a.ok THEN a
  ELSE LET r == EncTree(t) IN [ok |-> r.ok, toks |-> a.toks \o r.toks]

\* ---------------------------------------------------------------- decoder (explicit stack, as written)
\* A decoded tree under construction is addressed by a path (sequence of sub-metadata names from the root).
\* out : path -> [e, s(names in insertion order)]   kept as a function over the set of paths seen so far.
Tok(toks, p, kind) == p <= Len(toks) /\ toks[p][1] = kind
\* insert keeping byte order (std::map); duplicate key: AddEntryBinary overwrites, AddSubMetadata refuses
RECURSIVE LessBytes(_, _)
LessBytes(a, b) == IF b = <<>> THEN FALSE ELSE IF a = <<>> THEN TRUE
                   ELSE IF a[1] # b[1] THEN a[1] < b[1] ELSE LessBytes(Tail(a), Tail(b))
RECURSIVE InsertSorted(_, _)
InsertSorted(lst, kv) == IF lst = <<>> THEN <<kv>>
                         ELSE IF lst[1][1] = kv[1] THEN <<kv>> \o Tail(lst)
                         ELSE IF LessBytes(kv[1], lst[1][1]) THEN <<kv>> \o lst
                         ELSE <<lst[1]>> \o InsertSorted(Tail(lst), kv)
HasKey(lst, k) == \E j \in 1..Len(lst) : lst[j][1] = k
\* rebuild the nested tree from the flat map once decoding has finished
RECURSIVE Assemble(_, _)
Assemble(out, path) == [e |-> out[path].e,
                        s |-> [j \in 1..Len(out[path].s) |-> <<out[path].s[j], Assemble(out, Append(path, out[path].s[j]))>>]]
\* one pop of the stack: returns the new machine state or a rejection
\* machine: [p (token position), stack (seq of [parent path, isRoot, level]), out, ok, why]
RECURSIVE DecEntries(_, _, _, _)
DecEntries(toks, p, n, es) ==     \* returns [ok, p, es]
  IF n = 0 THEN [ok |-> TRUE, p |-> p, es |-> es]
  ELSE IF ~Tok(toks, p, "s") \/ ~Tok(toks, p + 1, "v") THEN [ok |-> FALSE, p |-> p, es |-> es]
  ELSE IF ~AcceptEmpty /\ toks[p + 1][2] = <<>> THEN [ok |-> FALSE, p |-> p, es |-> es]          \* data_size == 0 rejected
  ELSE DecEntries(toks, p + 2, n - 1, InsertSorted(es, <<toks[p][2], toks[p + 1][2]>>))
RECURSIVE SortedNames(_)
SortedNames(ns) == IF ns = <<>> THEN <<>> ELSE
   LET RECURSIVE Ins(_, _)
       Ins(l, x) == IF l = <<>> THEN <<x>> ELSE IF LessBytes(x, l[1]) THEN <<x>> \o l ELSE <<l[1]>> \o Ins(Tail(l), x)
   IN Ins(SortedNames(Tail(ns)), ns[1])
DecStep(toks, m) ==
  LET top == m.stack[Len(m.stack)]
      rest == SubSeq(m.stack, 1, Len(m.stack) - 1)
      rej(w) == [m EXCEPT !.ok = FALSE, !.why = w, !.stack = <<>>]
  IN IF ~top.isRoot /\ top.level > MaxLevel THEN rej("level")
     ELSE IF ~top.isRoot /\ ~Tok(toks, m.p, "s") THEN rej("name")
     ELSE LET name == IF top.isRoot THEN <<>> ELSE toks[m.p][2]
              p1 == IF top.isRoot THEN m.p ELSE m.p + 1
              path == IF top.isRoot THEN top.parent ELSE Append(top.parent, name)
          IN IF ~top.isRoot /\ name \in {m.out[top.parent].s[j] : j \in 1..Len(m.out[top.parent].s)} THEN rej("duplicate sub-metadata")
             ELSE IF ~Tok(toks, p1, "n") THEN rej("count")
             ELSE LET de == DecEntries(toks, p1 + 1, toks[p1][2], <<>>) IN
                  IF ~de.ok THEN rej("entry")
                  ELSE IF ~Tok(toks, de.p, "n") THEN rej("subcount")
                  ELSE LET k == toks[de.p][2]
                           out1 == [q \in (DOMAIN m.out) \cup {path} |->
                                      IF q = path THEN [e |-> de.es, s |-> <<>>]
                                      ELSE IF ~top.isRoot /\ q = top.parent THEN [m.out[q] EXCEPT !.s = SortedNames(Append(@, name))]
                                      ELSE m.out[q]]
                           pushed == [j \in 1..k |-> [parent |-> path, isRoot |-> FALSE, level |-> IF top.isRoot THEN top.level ELSE top.level + 1]]
                       IN IF k > Len(toks) - de.p THEN rej("too many sub-metadata")     \* num_sub_metadata > remaining_size (bytes >= tokens)
                          ELSE [m EXCEPT !.p = de.p + 1, !.stack = rest \o pushed, !.out = out1]
RECURSIVE DecRun(_, _)
DecRun(toks, m) == IF m.stack = <<>> THEN m ELSE DecRun(toks, DecStep(toks, m))
\* decode one tree starting at token p; root path identifies it
DecTree(toks, p, rootPath) ==
  LET m0 == [p |-> p, stack |-> << [parent |-> rootPath, isRoot |-> TRUE, level |-> 0] >>, out |-> [q \in {} |-> 0], ok |-> TRUE, why |-> ""]
      m == DecRun(toks, m0)
  IN IF m.ok THEN [ok |-> TRUE, p |-> m.p, tree |-> Assemble(m.out, rootPath), why |-> ""]
     ELSE [ok |-> FALSE, p |-> m.p, tree |-> [e |-> <<>>, s |-> <<>>], why |-> m.why]
RECURSIVE DecAtts(_, _, _, _)
DecAtts(toks, p, n, acc) ==
  IF n = 0 THEN [ok |-> TRUE, p |-> p, atts |-> acc]
  ELSE IF ~Tok(toks, p, "n") THEN [ok |-> FALSE, p |-> p, atts |-> acc]
  ELSE LET d == DecTree(toks, p + 1, <<>>) IN
       IF ~d.ok THEN [ok |-> FALSE, p |-> d.p, atts |-> acc]
       ELSE DecAtts(toks, d.p, n - 1, Append(acc, <<toks[p][2], d.tree>>))
DecGeometry(toks) ==
  IF ~Tok(toks, 1, "n") THEN [ok |-> FALSE, atts |-> <<>>, tree |-> [e |-> <<>>, s |-> <<>>], p |-> 1]
  ELSE LET a == DecAtts(toks, 2, toks[1][2], <<>>) IN
       IF ~a.ok THEN [ok |-> FALSE, atts |-> a.atts, tree |-> [e |-> <<>>, s |-> <<>>], p |-> a.p]
       ELSE LET d == DecTree(toks, a.p, <<>>) IN [ok |-> d.ok, atts |-> a.atts, tree |-> d.tree, p |-> d.p]

\* ---------------------------------------------------------------- Level A
\* encoder ok => the decoder returns the same tree (names, byte-exact values, nesting) and consumes every token;
\* never silently altered or made undecodable
RoundTrip(atts, t) == LET e == EncGeometry(atts, t) IN
   e.ok => LET d == DecGeometry(e.toks) IN d.ok /\ d.tree = t /\ d.atts = atts /\ d.p = Len(e.toks) + 1

\* ---------------------------------------------------------------- token stream <-> bytes (for Level B on real buffers)
RECURSIVE VarintBytes(_)
VarintBytes(v) == IF v < 128 THEN <<v>> ELSE <<128 + (v % 128)>> \o VarintBytes(v \div 128)
RECURSIVE TokBytes(_, _)
TokBytes(toks, j) == IF j > Len(toks) THEN <<>> ELSE
   (CASE toks[j][1] = "n" -> VarintBytes(toks[j][2])
      [] toks[j][1] = "s" -> <<Len(toks[j][2])>> \o toks[j][2]
      [] toks[j][1] = "v" -> VarintBytes(Len(toks[j][2])) \o toks[j][2]) \o TokBytes(toks, j + 1)
=============================================================================
