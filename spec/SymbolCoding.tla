----------------------------- MODULE SymbolCoding -----------------------------
(* The rANS symbol coder above ans.h: frequency normalisation (RAnsSymbolEncoder::Create), table
   serialisation (EncodeTable / RAnsSymbolDecoder::Create), and the two block layouts of
   EncodeSymbols / DecodeSymbols (tagged, raw).   Anchors: entropy/rans_symbol_encoder.h,
   rans_symbol_decoder.h, rans_symbol_coding.h, symbol_encoding.cc, symbol_decoding.cc.
   P, L, IOB as in Rans (L = 4*P for the symbol coder).                                          *)
EXTENDS Integers, Sequences, FiniteSets, Rans
Sum(f) == LET RECURSIVE S(_) S(j) == IF j = 0 THEN 0 ELSE f[j] + S(j - 1) IN S(Len(f))
\* ComputeRAnsPrecisionFromUniqueSymbolsBitLength
PrecisionBits(b) == LET u == (3 * b) \div 2 IN IF u < 12 THEN 12 ELSE IF u > 20 THEN 20 ELSE u
\* bit length of a value: MostSignificantBit(v) + 1, 1 for v = 0 (v < 2^31 here)
RECURSIVE BitLen(_)
BitLen(v) == IF v < 2 THEN 1 ELSE 1 + BitLen(v \div 2)

\* ---------------------------------------------------------------- Create: normalisation to exactly P
\* initial rounding floor(f/T*P + 1/2), zero -> 1 for used symbols (exact integer version of the double code)
Round0(f, T) == [j \in 1..Len(f) |-> LET r == (2 * f[j] * P + T) \div (2 * T) IN IF r = 0 /\ f[j] > 0 THEN 1 ELSE r]
\* stable ascending order of symbol ids by probability (std::stable_sort with ProbabilityLess)
SortedIds(pr) == LET n == Len(pr)
                     rank(j) == Cardinality({t \in 1..n : pr[t] < pr[j] \/ (pr[t] = pr[j] /\ t < j)})
                 IN [pos \in 1..n |-> CHOOSE j \in 1..n : rank(j) = pos - 1]
\* one pass of the inner for-loop (j from the most probable down to the second least probable)
RECURSIVE RepairPass(_, _, _, _, _, _)
RepairPass(pr, order, j, tot, err, tot0) ==    \* returns [pr, tot, err, fail]
  IF j <= 1 \/ err <= 0 \/ tot = P THEN [pr |-> pr, tot |-> tot, err |-> err, fail |-> FALSE]
  ELSE LET s == order[j] IN
       IF pr[s] <= 1 THEN [pr |-> pr, tot |-> tot, err |-> err, fail |-> (j = Len(order))]
       ELSE LET newp == (P * pr[s]) \div tot0               \* floor(P / tot0 * prob)
                f0 == pr[s] - newp
                f1 == IF f0 = 0 THEN 1 ELSE f0
                f2 == IF f1 >= pr[s] THEN pr[s] - 1 ELSE f1
                fix == IF f2 > err THEN err ELSE f2
            IN RepairPass([pr EXCEPT ![s] = @ - fix], order, j - 1, tot - fix, err - fix, tot0)
RECURSIVE RepairLoop(_, _, _, _, _)
RepairLoop(pr, order, tot, err, fuel) ==
  IF err <= 0 THEN [ok |-> TRUE, pr |-> pr]
  ELSE IF fuel = 0 THEN [ok |-> FALSE, pr |-> pr]        \* the C++ while(error > 0) would spin: reported as failure of the model
  ELSE LET r == RepairPass(pr, order, Len(order), tot, err, tot) IN
       IF r.fail THEN [ok |-> FALSE, pr |-> r.pr] ELSE RepairLoop(r.pr, order, r.tot, r.err, fuel - 1)
\* trailing zero frequencies are cut (num_symbols = max_valid_symbol + 1)
RECURSIVE Trim(_)
Trim(f) == IF Len(f) > 1 /\ f[Len(f)] = 0 THEN Trim(SubSeq(f, 1, Len(f) - 1)) ELSE f
Normalize(freq) ==
  LET f == Trim(freq)
      T == Sum(f)
      p0 == Round0(f, T)
      tot == Sum(p0)
  IN IF tot = P THEN [ok |-> TRUE, pr |-> p0]
     ELSE LET order == SortedIds(p0) IN
          IF tot < P THEN [ok |-> TRUE, pr |-> [p0 EXCEPT ![order[Len(order)]] = @ + (P - tot)]]
          ELSE LET r == RepairLoop(p0, order, tot, tot - P, 4 * P) IN
               [ok |-> r.ok /\ Sum(r.pr) = P, pr |-> r.pr]
Cums(pr) == [j \in 1..Len(pr) |-> Sum(SubSeq(pr, 1, j - 1))]

\* ---------------------------------------------------------------- table serialisation (8-bit units)
RECURSIVE ZeroRun(_, _, _)
ZeroRun(pr, j, off) == IF off < 63 /\ j + off + 1 <= Len(pr) /\ pr[j + off + 1] = 0 THEN ZeroRun(pr, j, off + 1) ELSE off
RECURSIVE TableBytes(_, _)
TableBytes(pr, j) ==
  IF j > Len(pr) THEN <<>>
  ELSE IF pr[j] = 0 THEN LET off == ZeroRun(pr, j, 0) IN <<off * 4 + 3>> \o TableBytes(pr, j + off + 1)
  ELSE LET p == pr[j]
           extra == IF p >= 2^14 THEN 2 ELSE IF p >= 2^6 THEN 1 ELSE 0
           b0 == ((p * 4) % 256) + extra
           e1 == IF extra >= 1 THEN <<(p \div 64) % 256>> ELSE <<>>
           e2 == IF extra >= 2 THEN <<(p \div 16384) % 256>> ELSE <<>>
       IN <<b0>> \o e1 \o e2 \o TableBytes(pr, j + 1)
\* RAnsSymbolDecoder::Create on the table bytes: returns [ok, pr, pos]
RECURSIVE ReadTable(_, _, _, _)
ReadTable(data, pos, n, acc) ==
  IF Len(acc) >= n THEN [ok |-> Len(acc) = n, pr |-> acc, pos |-> pos]
  ELSE IF pos + 1 > Len(data) THEN [ok |-> FALSE, pr |-> acc, pos |-> pos]
  ELSE LET b == data[pos + 1] tok == b % 4 IN
       IF tok = 3 THEN LET off == b \div 4 IN
            IF Len(acc) + off >= n THEN [ok |-> FALSE, pr |-> acc, pos |-> pos + 1]
            ELSE ReadTable(data, pos + 1, n, acc \o [t \in 1..(off + 1) |-> 0])
       ELSE IF pos + 1 + tok > Len(data) THEN [ok |-> FALSE, pr |-> acc, pos |-> pos + 1]
       ELSE LET e1 == IF tok >= 1 THEN data[pos + 2] * 64 ELSE 0
                e2 == IF tok >= 2 THEN data[pos + 3] * 16384 ELSE 0
            IN ReadTable(data, pos + 1 + tok, n, Append(acc, (b \div 4) + e1 + e2))

\* ---------------------------------------------------------------- whole-sequence coding with a given table
RECURSIVE EncSeq(_, _, _, _)
EncSeq(st, syms, pr, cu) == IF syms = <<>> THEN st     \* symbols are coded last to first
  ELSE LET s == syms[Len(syms)] + 1 IN EncSeq(RansWrite(st, pr[s], cu[s]), SubSeq(syms, 1, Len(syms) - 1), pr, cu)
RansEncode(syms, pr) == WriteEnd(EncSeq([x |-> L, out |-> <<>>], syms, pr, Cums(pr)), 3)
RECURSIVE DecSeq(_, _, _, _, _, _)
DecSeq(d, buf, pr, cu, n, acc) == IF n = 0 THEN [syms |-> acc, d |-> d]
  ELSE LET r == RansRead(d, buf, pr, cu) IN DecSeq(r.d, buf, pr, cu, n - 1, Append(acc, r.sym))
RansDecode(buf, pr, n) == LET ini == ReadInit(buf, Len(buf), 3, FALSE) IN
  IF ~ini.ok THEN [ok |-> FALSE, syms |-> <<>>, d |-> ini.d]
  ELSE LET r == DecSeq(ini.d, buf, pr, Cums(pr), n, <<>>) IN [ok |-> TRUE, syms |-> r.syms, d |-> r.d]

\* ---------------------------------------------------------------- Level A
TableOK(freq, pr) == /\ Sum(pr) = P
                     /\ \A j \in 1..Len(pr) : (freq[j] > 0 => pr[j] >= 1)
Lossless(inp, outp) == inp = outp
=============================================================================
